#!/bin/sh
# usage: mk_worktree.sh <name>  -> /tmp/wt/<name> (scratch worktree of /repo HEAD with the prebuilt extension copied in)
set -e
d=/tmp/wt/$1
git -C /repo worktree add -q --detach "$d" HEAD
cp /repo/gemclus/tree/_utils.cpython-312-x86_64-linux-gnu.so "$d/gemclus/tree/"
echo "$d"
