#!/usr/bin/env python3
"""Keep the confirmed seeded defects of a round under /verif/seeded/<prop><tag>-m<i>/ (patch.diff, demo.py, meta.json).
usage: seed_keep_r3.py <seed root> <matrix.json written by refactor_matrix.py (current rules, in memory)> [tag, default r3]
`first try` = the result of tools/seed_check.py (scratch worktree) BEFORE any rule was changed because of the seed (check.json)."""
import json
import os
import shutil
import sys

root, matrix = sys.argv[1], json.load(open(sys.argv[2]))
TAG = sys.argv[3] if len(sys.argv) > 3 else "r3"
now = {}
for name, prop, st, msg in matrix:
    now.setdefault(name, {})[prop] = (st, msg)
hist_p = "/verif/seeded/HISTORY.json"
hist = json.load(open(hist_p))
kept = 0
for p in sorted(os.listdir(root)):
    pd = os.path.join(root, p)
    if not os.path.isdir(pd):
        continue
    for m in sorted(os.listdir(pd)):
        d = os.path.join(pd, m)
        if not all(os.path.exists(os.path.join(d, f)) for f in ("patch.diff", "demo.py", "meta.json", "verify.json")):
            continue
        v = json.load(open(f"{d}/verify.json"))
        if not v.get("confirmed"):
            print("NOT CONFIRMED", d, {k: x for k, x in v.items() if not k.endswith("_tail")})
            continue
        mt = json.load(open(f"{d}/meta.json"))
        prop = mt.get("property")
        sid = f"{prop}{TAG}-{'p' if 'pyx' in p else 'm'}{m[1:]}"
        first = json.load(open(f"{d}/check.json")) if os.path.exists(f"{d}/check.json") else {}
        cur = now.get(f"{p}/{m}", {})
        dst = f"/verif/seeded/{sid}"
        os.makedirs(dst, exist_ok=True)
        shutil.copy(f"{d}/patch.diff", dst)
        shutil.copy(f"{d}/demo.py", dst)
        reported = {q: {"exit": 1, "first_report": msg} for q, (st, msg) in cur.items() if st == "reported"}
        undecided = {q: {"exit": 2, "first_report": msg} for q, (st, msg) in cur.items() if st == "undecided"}
        meta = {
            "id": sid, "property": prop, "summary": mt.get("summary"), "needs_to_manifest": mt.get("needs"), "files": mt.get("files"),
            "origin": f"round {TAG[1:]}: written by a fresh sub-agent that saw only the property text and a scratch worktree (nothing from /verif)"
                      + ("; the compiled split finder cannot be rebuilt here, so the defect in the .pyx is demonstrated on the line-preserving pure-Python "
                         "transliteration of the .pyx that replaces the extension (tools/seed_verify.py)" if "pyx" in p else ""),
            "confirmed_by_me": {"how": "tools/seed_verify.py in a scratch worktree of /repo HEAD: demo.py exit 0 on the clean tree, non-zero with the patch; "
                                       "baseline suite with the patch compared with BASELINE.json",
                                "demo_clean_rc": v.get("demo_clean_rc"), "demo_patched_rc": v.get("demo_patched_rc"), "suite": v.get("suite")},
            "checks": dict(reported, **{q: x for q, x in undecided.items() if q not in reported}),
            "checks_silent": sorted(q for q, (st, _) in cur.items() if st == "silent"),
            "first_try": {q: {"exit": r["rc"], "first_report": (r["violations"] or r["errors"] or [""])[0][:260]} for q, r in first.items() if r["rc"] != 0},
        }
        json.dump(meta, open(f"{dst}/meta.json", "w"), indent=1)
        own_first = first.get(prop, {}).get("rc")
        own_now = cur.get(prop, ("?", ""))[0]
        hist[sid] = {"first": {1: "reported", 2: "undecided", 0: "missed", None: "not run"}.get(own_first, str(own_first)),
                     "by": (first.get(prop, {}).get("violations") or first.get(prop, {}).get("errors") or [""])[0][:120],
                     "others_first": sorted(q for q, r in first.items() if r["rc"] == 1 and q != prop),
                     "now": own_now, "change": ""}
        kept += 1
        print(sid, "first:", hist[sid]["first"], "now:", own_now, "| reported now by", sorted(reported))
json.dump(hist, open(hist_p, "w"), indent=1)
print(kept, "kept")
