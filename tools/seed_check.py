#!/usr/bin/env python3
"""Run the registered checks against a seeded defect applied in a scratch worktree (GCVERIF_REPO), not in /repo.
usage: seed_check.py <dir with patch.diff> [props...]   -> prints which checks report a violation"""
import json, os, subprocess, sys, shutil, re
d = os.path.abspath(sys.argv[1])
props = sys.argv[2:] or [c["property_id"] for c in json.load(open("/verif/MANIFEST.json"))["checks"]]
name = "c_" + "_".join(d.strip("/").split("/")[-2:])
wt = f"/tmp/wt/{name}"
def sh(cmd, **kw):
    return subprocess.run(cmd, shell=True, capture_output=True, text=True, **kw)
sh(f"git -C /repo worktree remove --force {wt}")
r = sh(f"git -C /repo worktree add -q --detach {wt} HEAD"); assert r.returncode == 0, r.stderr
out = {}
try:
    r = sh(f"git -C {wt} apply {d}/patch.diff"); assert r.returncode == 0, r.stderr
    env = dict(os.environ, GCVERIF_REPO=wt, GCVERIF_EVIDENCE_DIR=f"/tmp/wt/{name}_ev", GCVERIF_OUT_DIR=f"/tmp/wt/{name}_out")
    procs = {p: subprocess.Popen(f"cd /verif && python3-vt gcverif/check.py {p} --no-controls", shell=True, stdout=subprocess.PIPE, stderr=subprocess.STDOUT, text=True, env=env) for p in props}
    for p, pr in procs.items():
        o, _ = pr.communicate()
        viol = [l.strip()[:260] for l in o.split("\n") if l.strip().startswith("[C")]
        out[p] = {"rc": pr.returncode, "violations": viol[:4], "errors": [l[:200] for l in o.split("\n") if "ANALYSIS-ERROR" in l][:2]}
finally:
    sh(f"git -C /repo worktree remove --force {wt}")
    shutil.rmtree(f"/tmp/wt/{name}_ev", ignore_errors=True); shutil.rmtree(f"/tmp/wt/{name}_out", ignore_errors=True)
det = {p: v for p, v in out.items() if v["rc"] != 0}
json.dump(out, open(f"{d}/check.json", "w"), indent=1)
print(os.path.basename(os.path.dirname(d)), os.path.basename(d), "DETECTED by" if det else "MISSED", {p: (v["rc"], (v["violations"] or v["errors"])[:1]) for p, v in det.items()})
