#!/usr/bin/env python3
"""Confirm (seed_verify) and check (seed_check) every seeded-defect directory below a root, a few at a time.
usage: seed_batch.py <root> [-j N] [--only P1,P2]   (directories <root>/<P>/m<i> holding patch.diff, demo.py, meta.json)"""
import concurrent.futures as cf
import json
import os
import subprocess
import sys

root = os.path.abspath(sys.argv[1])
jobs = int(sys.argv[sys.argv.index("-j") + 1]) if "-j" in sys.argv else 4
only = sys.argv[sys.argv.index("--only") + 1].split(",") if "--only" in sys.argv else None
dirs = []
for p in sorted(os.listdir(root)):
    if only and p not in only:
        continue
    for m in sorted(os.listdir(os.path.join(root, p))):
        d = os.path.join(root, p, m)
        if os.path.isdir(d) and all(os.path.exists(os.path.join(d, f)) for f in ("patch.diff", "demo.py", "meta.json")):
            dirs.append(d)


def one(d):
    if not os.path.exists(f"{d}/verify.json") or "--force" in sys.argv:
        subprocess.run(["python3", "/verif/tools/seed_verify.py", d], capture_output=True, text=True)
    if not os.path.exists(f"{d}/check.json") or "--force" in sys.argv or "--recheck" in sys.argv:
        subprocess.run(["python3", "/verif/tools/seed_check.py", d], capture_output=True, text=True)
    v = json.load(open(f"{d}/verify.json")) if os.path.exists(f"{d}/verify.json") else {}
    c = json.load(open(f"{d}/check.json")) if os.path.exists(f"{d}/check.json") else {}
    return d, v, c


with cf.ThreadPoolExecutor(jobs) as ex:
    for d, v, c in ex.map(one, dirs):
        prop = json.load(open(f"{d}/meta.json")).get("property")
        rep = {p: r["rc"] for p, r in c.items() if r["rc"] != 0}
        own = c.get(prop, {})
        first = (own.get("violations") or own.get("errors") or [""])[0][:170]
        print(f"{os.path.relpath(d, root):12s} confirmed={v.get('confirmed')} (clean={v.get('demo_clean_rc')} patched={v.get('demo_patched_rc')} suite={v.get('suite_rc')})"
              f" own[{prop}]={own.get('rc')} others={ {p: r for p, r in rep.items() if p != prop} } :: {first}", flush=True)
