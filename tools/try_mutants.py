#!/usr/bin/env python3
"""Development aid: apply hand-written defects (file, find, replace) in memory and report which checks fire.
usage: try_mutants.py <json list file>"""
import json, os, sys, importlib
sys.path.insert(0, os.path.join(os.path.dirname(os.path.abspath(__file__)), ".."))
from gcverif import pm as pmmod
from gcverif.report import Ctx
from gcverif.adopt import run_full
from concurrent.futures import ProcessPoolExecutor

PROPS = [c["property_id"] for c in json.load(open("/verif/MANIFEST.json"))["checks"]]
_pm = None

def work(args):
    name, rel, edits, props = args
    pm = pmmod.ProgramModel()
    src = pm.sources[rel]
    for a, b in edits:
        if a not in src:
            return name, "N/A (edit not applicable)"
        src = src.replace(a, b, 1)
    try:
        pm2 = pm.mutated({rel: src})
    except pmmod.AnalysisError as e:
        return name, f"does not parse: {e}"
    out = {}
    for p in props:
        mod = importlib.import_module(f"gcverif.props.{p.lower()}")
        base = Ctx(p, "control", quiet=True)
        try:
            run_full(mod, pm, base)
        except Exception as e:
            pass
        bk = {f.key_tuple() for f in base.findings}
        ctx = Ctx(p, "control", quiet=True)
        try:
            run_full(mod, pm2, ctx)
        except pmmod.AnalysisError as e:
            out[p] = "ERR " + str(e)[:60]
            continue
        except Exception as e:
            out[p] = "CRASH " + repr(e)[:80]
            continue
        new = [f for f in ctx.findings if f.key_tuple() not in bk]
        if new:
            out[p] = f"V {new[0].rule}: {new[0].message[:90]}"
        elif ctx.undecided:
            out[p] = "U " + ctx.undecided[0]["why"][:70]
    return name, out

if __name__ == "__main__":
    muts = json.load(open(sys.argv[1]))
    jobs = [(m["name"], m["file"], m["edits"], m.get("props") or PROPS) for m in muts]
    with ProcessPoolExecutor(12) as ex:
        for name, out in ex.map(work, jobs):
            if isinstance(out, str):
                print(f"{name}: {out}")
                continue
            v = {p: o for p, o in out.items() if o.startswith("V")}
            status = "DETECTED" if v else ("undecided/err" if out else "MISSED")
            print(f"{name}: {status} " + "; ".join(f"{p} {o}" for p, o in out.items())[:330])
