#!/bin/sh
# development aid: run all checks (no controls) on the tree with a unified diff applied in memory
# usage: patch_all.sh <patch.diff> [props...]
p=$1; shift
props=${@:-$(jq -r '.checks[].property_id' /verif/MANIFEST.json)}
cd /verif
for c in $props; do
  ( GCVERIF_EVIDENCE_DIR=/tmp/ev_pa GCVERIF_OUT_DIR=/tmp/evout_pa python3-vt gcverif/check.py $c --no-controls --patch $p > /tmp/pa_$c.log 2>&1; rc=$?
    [ $rc -ne 0 ] && echo "$c rc=$rc $(grep -m2 -E '^\s+\[C|ANALYSIS-ERROR' /tmp/pa_$c.log | cut -c1-260 | tr '\n' '|')" ) &
done
wait
echo "(done)"
