#!/usr/bin/env python3
"""Keep a confirmed seeded defect under /verif/seeded/<id>/ (patch.diff, demo.py, meta.json).
usage: seed_keep.py <dir in /tmp/seedout/...> <id>"""
import json, os, shutil, sys
src, sid = os.path.abspath(sys.argv[1]), sys.argv[2]
v = json.load(open(f"{src}/verify.json"))
assert v.get("confirmed"), "not confirmed: " + json.dumps({k: x for k, x in v.items() if not k.endswith("_tail")})
c = json.load(open(f"{src}/check.json")) if os.path.exists(f"{src}/check.json") else {}
m = json.load(open(f"{src}/meta.json"))
dst = f"/verif/seeded/{sid}"
os.makedirs(dst, exist_ok=True)
shutil.copy(f"{src}/patch.diff", dst); shutil.copy(f"{src}/demo.py", dst)
meta = {
    "id": sid, "property": m.get("property"), "summary": m.get("summary"), "needs_to_manifest": m.get("needs"), "files": m.get("files"),
    "origin": "written by a fresh sub-agent that saw only the property text and a scratch worktree (nothing from /verif)",
    "confirmed_by_me": {"how": "tools/seed_verify.py in a scratch worktree of /repo HEAD: demo.py exit 0 on the clean tree, non-zero with the patch; "
                               "baseline suite with the patch compared with BASELINE.json",
                        "demo_clean_rc": v.get("demo_clean_rc"), "demo_patched_rc": v.get("demo_patched_rc"), "suite": v.get("suite")},
    "checks": {p: {"exit": r["rc"], "first_report": (r["violations"] or r["errors"] or [""])[0]} for p, r in c.items() if r["rc"] != 0},
    "checks_silent": sorted(p for p, r in c.items() if r["rc"] == 0),
}
json.dump(meta, open(f"{dst}/meta.json", "w"), indent=1)
print(sid, "kept; detected by", sorted(meta["checks"]))
