#!/usr/bin/env python3
"""Behaviour-preserving rewrites of /repo that every check must tolerate: exit 1 (VIOLATION) on a twin is a false alarm.
Exit 2 (cannot judge) is tolerated but reported. Twins are applied in scratch worktrees (GCVERIF_REPO), never in /repo.
usage: benign_twins.py [name-substring ...]"""
import json, os, subprocess, sys, shutil
from concurrent.futures import ThreadPoolExecutor

TWINS = [
    ("rename-local-tau", "gemclus/linear/_linear_geminis.py", [("tau_hat_grad", "tau")]),
    ("augassign-to-assign-mlp", "gemclus/mlp/_mlp_geminis.py", [("        backprop_grad *= self.H_ > 0\n", "        backprop_grad = backprop_grad * (self.H_ > 0)\n")]),
    ("matmul-to-dot", "gemclus/linear/_linear_geminis.py", [("        W_grad = X.T @ tau_hat_grad\n", "        W_grad = np.dot(X.T, tau_hat_grad)\n")]),
    ("method-sum-to-np-sum", "gemclus/linear/_linear_geminis.py", [("(y_pred * gradient).sum(1, keepdims=True)", "np.sum(y_pred * gradient, axis=1, keepdims=True)")]),
    ("negation-moved-to-definition", "gemclus/nonparametric/_categorical_models.py",
     [("        tau_hat_grad = y_pred * (gradient - (y_pred * gradient).sum(1, keepdims=True))  # Shape NxK\n\n        return [-tau_hat_grad]",
       "        tau_hat_grad = -(y_pred * (gradient - (y_pred * gradient).sum(1, keepdims=True)))  # Shape NxK\n\n        return [tau_hat_grad]")]),
    ("registry-order", "gemclus/gemini/_utils.py",
     [('    elif gemini_str == "tv_ova":\n        return TVGEMINI()\n    elif gemini_str == "tv_ovo":\n        return TVGEMINI(ovo=True)\n',
       '    elif gemini_str == "tv_ovo":\n        return TVGEMINI(ovo=True)\n    elif gemini_str == "tv_ova":\n        return TVGEMINI(ovo=False)\n')]),
    ("batch-step-as-assign", "gemclus/_base_gemini.py", [("            j += batch_size\n", "            j = j + batch_size\n")]),
    ("batch-test-flipped", "gemclus/_base_gemini.py", [("        while j < len(X):\n            batch_indices", "        while len(X) > j:\n            batch_indices")]),
    ("leaf2node-commuted", "gemclus/tree/kauri.py", [("leaf2node[best_split.leaf] = 2 * n_leaves - 1", "leaf2node[best_split.leaf] = n_leaves * 2 - 1")]),
    ("guard-flipped-kauri", "gemclus/tree/kauri.py", [("                    if len(left_indices) >= self.min_samples_split:", "                    if self.min_samples_split <= len(left_indices):")]),
    ("root-guard-as-statement", "gemclus/tree/kauri.py",
     [("        leaves_to_explore = [0] if len(X) >= self.min_samples_split else []\n",
       "        leaves_to_explore = []\n        if len(X) >= self.min_samples_split:\n            leaves_to_explore.append(0)\n")]),
    ("copyto-as-slice-store", "gemclus/sparse/_linear_sparse.py", [("        np.copyto(self.W_, new_W)\n", "        self.W_[:] = new_W\n")]),
    ("threshold-commuted", "gemclus/sparse/_linear_sparse.py", [("self.alpha * self.optimiser_.learning_rate)", "self.optimiser_.learning_rate * self.alpha)")]),
    ("threshold-hoisted-after-step", "gemclus/sparse/_mlp_sparse.py",
     [("        self.optimiser_.update_params(weights, gradients)\n\n        # Then statisfy", "        self.optimiser_.update_params(weights, gradients)\n        thr = self.alpha * self.optimiser_.learning_rate\n\n        # Then statisfy"),
      ("self.alpha * self.optimiser_.learning_rate,\n                                               self.M)", "thr,\n                                               self.M)"),
      ("self.alpha * self.optimiser_.learning_rate, self.M)", "thr, self.M)")]),
    ("pyx-commuted-factor", "gemclus/tree/_utils.pyx", [("        left_star -= 2 * sl_clusters[k] / delta_size\n", "        left_star -= sl_clusters[k] * 2 / delta_size\n")]),
    ("pyx-inline-sl-sr", "gemclus/tree/_utils.pyx", [("        split_star -= 2 * (sl_square + sl_sr) / delta_size\n", "        split_star -= (2 * sl_square + (leaf_square - sl_square - sr_square)) / delta_size\n")]),
    ("mlcl-commuted-factor", "gemclus/mlcl.py", [("gradient[idx0] += factor * (y_pred[idx0] - y_pred[idx1])", "gradient[idx0] += (y_pred[idx0] - y_pred[idx1]) * factor")]),
    ("mlcl-rename-idx", "gemclus/mlcl.py", [("idx0", "row_a"), ("idx1", "row_b")]),
    ("sqrt-as-power", "gemclus/data/synthetic_data.py", [("np.sqrt(scale[k])", "scale[k] ** 0.5")]),
    ("any-as-method", "gemclus/tree/douglas.py", [("            if np.any((cut_points > feature.min()) & (cut_points < feature.max())):", "            if ((cut_points > feature.min()) & (cut_points < feature.max())).any():")]),
    ("active-points-via-locals", "gemclus/tree/douglas.py",
     [("            if np.any((cut_points > feature.min()) & (cut_points < feature.max())):", "            lo, hi = feature.min(), feature.max()\n            if np.any((lo < cut_points) & (cut_points < hi)):")]),
    ("mask-inline-kl", "gemclus/gemini/_fdivergences.py",
     [("            return mutual_information, gradient_mi * clip_mask\n", "            return mutual_information, clip_mask * gradient_mi\n")]),
    ("path-guard-flipped", "gemclus/sparse/_base_sparse.py", [("        if iteration_gemini_score >= keep_threshold * best_gemini_score:", "        if keep_threshold * best_gemini_score <= iteration_gemini_score:")]),
    ("path-snapshot-np-copy", "gemclus/sparse/_base_sparse.py", [("            best_weights = [w.copy() for w in weights]\n            if clf.verbose:", "            best_weights = [np.copy(w) for w in weights]\n            if clf.verbose:")]),
    ("print-names-guard-rewritten", "gemclus/tree/kauri.py", [("len(feature_names) <= max(used_features):", "max(used_features) >= len(feature_names):")]),
    ("kernelrim-penalty-reordered", "gemclus/linear/_linear_geminis.py", [("base_grads[0] += 2 * self.reg * np.dot(self._training_kernel, self.W_)", "base_grads[0] += self.reg * 2 * (self._training_kernel @ self.W_)")]),
    ("prox-closed-form-rewritten", "gemclus/sparse/_prox_grad.py",
     [("    W_star = np.maximum(W_norms - alpha, 0) * W / np.where(W_norms == 0, 1, W_norms)\n", "    safe_norms = np.where(W_norms == 0, 1, W_norms)\n    W_star = np.maximum(1 - alpha / safe_norms, 0) * W\n")]),
    ("docstring-and-comment-edit", "gemclus/_base_gemini.py", [("        # Fix the random seed\n", "        # Seed the generator used everywhere below\n")]),
    ("tree-add-child-extend", "gemclus/tree/kauri.py", [("        self.gains += [0, 0]\n", "        self.gains.extend([0, 0])\n")]),
    ("val-score-step-assign", "gemclus/sparse/_base_sparse.py", [("        j += batch_size\n    validation_gemini /= len(X)", "        j = j + batch_size\n    validation_gemini /= len(X)")]),
    ("mlcl-guard-clause", "gemclus/mlcl.py",
     [("            for (i, j) in must_link:\n                if i in last_indices and j in last_indices:\n                    idx0, idx1 = last_indices.index(i), last_indices.index(j)\n                    gradient[idx0] -= factor * (y_pred[idx0] - y_pred[idx1])\n                    gradient[idx1] -= factor * (y_pred[idx1] - y_pred[idx0])\n",
       "            for (i, j) in must_link:\n                if i not in last_indices or j not in last_indices:\n                    continue\n                idx0, idx1 = last_indices.index(i), last_indices.index(j)\n                gradient[idx0] -= factor * (y_pred[idx0] - y_pred[idx1])\n                gradient[idx1] -= factor * (y_pred[idx1] - y_pred[idx0])\n")]),
    ("check-groups-rewritten", "gemclus/sparse/_base_sparse.py",
     [("        if len(all_indices) == n_features_in:\n", "        if n_features_in == len(all_indices):\n"),
      ("            if len(set(all_indices)) != len(all_indices):\n", "            if len(set(all_indices)) < len(all_indices):\n")]),
    ("constraints-loop-inverted-test", "gemclus/_constraints.py",
     [("                if not is_satisfied:\n                    if len(local_constraints) == 1:", "                if is_satisfied is False:\n                    if len(local_constraints) == 1:")]),
    ("fit-validation-kwargs", "gemclus/_base_gemini.py",
     [("        X = check_array(X)\n        X = validate_data(self, X, accept_sparse=True, dtype=np.float64, ensure_min_samples=self.n_clusters)",
       "        X = check_array(X, dtype=\"numeric\", accept_sparse=False)\n        X = validate_data(self, X, accept_sparse=True, dtype=np.float64, ensure_min_samples=self.n_clusters)")]),
    ("mmd-floor-plus-zero", "gemclus/gemini/_geomdistances.py",
     [("            delta = np.sqrt(np.maximum(a + c - 2 * b, 0))", "            delta = np.sqrt(np.maximum(a + c - 2 * b, 0.0))")]),
    ("kl-entropies-refactored", "gemclus/gemini/_fdivergences.py",
     [("        cluster_entropy = np.sum(p_y * log_p_y)\n        prediction_entropy = np.sum(np.mean(p_y_x * log_p_y_x, axis=0))",
       "        cluster_entropy = (p_y * np.log(p_y)).sum()\n        prediction_entropy = np.mean(np.sum(p_y_x * np.log(p_y_x), axis=1))")]),
    ("hellinger-sqrt-split", "gemclus/gemini/_fdivergences.py", [("        cluster_wise_estimates = np.sqrt(p_y_x * p_y)", "        cluster_wise_estimates = np.sqrt(p_y_x) * np.sqrt(p_y)")]),
    ("mmd-ova-grad-centred-by-mean", "gemclus/gemini/_geomdistances.py",
     [("                tau_grad = (np.eye(N) - 1 / N) @ normalised_kernel @ (alpha - 1)", "                inner = normalised_kernel @ (alpha - 1)\n                tau_grad = inner - inner.mean(0, keepdims=True)")]),
    ("tv-ova-difference-negated-twice", "gemclus/gemini/_fdivergences.py", [("            difference = p_y_x - p_y\n", "            difference = -(p_y - p_y_x)\n")]),
    ("chi2-ova-rewritten", "gemclus/gemini/_fdivergences.py", [("            chi2_gemini = np.sum(p_y_x*cluster_wise_estimates, axis=1).mean()", "            chi2_gemini = np.mean(np.square(p_y_x) / p_y, axis=0).sum()")]),
    ("wasserstein-ova-weights", "gemclus/gemini/_geomdistances.py", [("            constant_weights = np.ones(N) / N", "            constant_weights = np.ones(N) * (1 / N)")]),
    ("linear-tau-two-steps", "gemclus/linear/_linear_geminis.py",
     [("        tau_hat_grad = y_pred * (gradient - (y_pred * gradient).sum(1, keepdims=True))  # Shape NxK\n\n        W_grad",
       "        weighted = y_pred * gradient\n        tau_hat_grad = weighted - y_pred * weighted.sum(1, keepdims=True)\n\n        W_grad")]),
    ("mlp-backprop-mask-first", "gemclus/mlp/_mlp_geminis.py",
     [("        backprop_grad = tau_hat_grad @ self.W2_.T\n        backprop_grad *= self.H_ > 0\n", "        backprop_grad = (tau_hat_grad @ self.W2_.T) * (self.H_ > 0)\n")]),
    ("mlp-bias-grad-ones", "gemclus/mlp/_mlp_geminis.py",
     [("        b2_grad = tau_hat_grad.sum(0, keepdims=True)", "        b2_grad = np.sum(tau_hat_grad, axis=0, keepdims=True)")]),
    ("gmm-guards-rewritten", "gemclus/data/synthetic_data.py",
     [("    if np.any(pvals <= 0):", "    if not np.all(pvals > 0):"), ("    if K != scale.shape[0]:", "    if len(scale) != K:"),
      ("            if np.any(np.linalg.eigvals(scale[k]) < 0):", "            if (np.linalg.eigvals(scale[k]) < 0).any():")]),
    ("student-t-rewritten", "gemclus/data/synthetic_data.py",
     [("    X = np.sqrt(df / u) * nx + loc.reshape((1, -1))", "    X = loc.reshape((1, -1)) + nx / np.sqrt(u / df)")]),
    ("kernelrim-stores-a-copy", "gemclus/linear/_linear_geminis.py", [("        self.input_data_ = X\n", "        self.input_data_ = np.array(X)\n")]),
    ("kernelrim-predict-via-local", "gemclus/linear/_linear_geminis.py",
     [("        kernel = self._compute_kernel(X)\n        return self._infer(kernel", "        K_new = self._compute_kernel(X)\n        kernel = K_new\n        return self._infer(kernel")]),
    ("mlp-mean-bias-grad-by-batch", "gemclus/mlp/_mlp_geminis.py",
     [("        b2_grad = tau_hat_grad.sum(0, keepdims=True)", "        b2_grad = tau_hat_grad.mean(0, keepdims=True) * len(tau_hat_grad)")]),
    ("douglas-divide-by-param", "gemclus/tree/douglas.py", [("            bin_grad /= self.temperature\n", "            bin_grad = bin_grad / self.temperature\n")]),
    ("labels-np-argmax", "gemclus/_base_gemini.py", [("        self.labels_ = self._infer(X).argmax(1)", "        self.labels_ = np.argmax(self._infer(X), axis=1)")]),
    ("predict-method-argmax", "gemclus/_base_gemini.py", [("        return np.argmax(self.predict_proba(X), axis=1)", "        return self.predict_proba(X).argmax(1)")]),
    ("epoch-loop-underscore", "gemclus/_base_gemini.py", [("        for i in range(self.max_iter):", "        for _epoch in range(self.max_iter):")]),
    ("batchify-rename-perm", "gemclus/_base_gemini.py", [("all_indices", "perm")]),
    ("kauri-counter-assign", "gemclus/tree/kauri.py", [("                n_leaves += 1\n", "                n_leaves = n_leaves + 1\n")]),
    ("kauri-labels-np-argmax", "gemclus/tree/kauri.py", [("        self.labels_ = (Y @ Z).argmax(0)", "        self.labels_ = np.argmax(Y @ Z, axis=0)")]),
    ("tree-predict-logical-not", "gemclus/tree/kauri.py", [("            X_right = ~X_left", "            X_right = np.logical_not(X_left)")]),
    ("path-history-plus-equal", "gemclus/sparse/_base_sparse.py", [("        alphas.append(alpha)\n", "        alphas += [alpha]\n")]),
    ("mlcl-indices-list", "gemclus/mlcl.py", [("                disguise_batch.indices = subset.tolist()", "                disguise_batch.indices = list(subset)")]),
    ("gstm-concatenate", "gemclus/data/synthetic_data.py", [("    X = np.vstack([X_gaussian, X_student])", "    X = np.concatenate([X_gaussian, X_student], axis=0)")]),
    ("douglas-infer-comprehension", "gemclus/tree/douglas.py",
     [("        cut_iterator = map(leaf_binning, self.cut_points_list_)\n        all_binnings_results = list(cut_iterator)", "        all_binnings_results = [leaf_binning(z) for z in self.cut_points_list_]")]),
    ("kauri-max-depth-alias", "gemclus/tree/kauri.py", [("        max_depth = len(X) if self.max_depth is None else self.max_depth", "        max_depth = n if self.max_depth is None else self.max_depth")]),
    ("fit-affinity-block-ix", "gemclus/_base_gemini.py", [("                affinity_batch = affinity_matrix[batch_indices][:, batch_indices]", "                affinity_batch = affinity_matrix[np.ix_(batch_indices, batch_indices)]")]),
    ("linear-infer-inline", "gemclus/linear/_linear_geminis.py", [("        H = X @ self.W_ + self.b_\n        return softmax(H)", "        return softmax(X @ self.W_ + self.b_)")]),
    ("sparse-selection-flatnonzero", "gemclus/sparse/_mlp_sparse.py", [("        return np.nonzero(np.linalg.norm(self.W_skip_, axis=1, ord=2))[0]", "        return np.flatnonzero(np.linalg.norm(self.W_skip_, axis=1, ord=2))")]),
    ("mmd-mask-after-clip", "gemclus/gemini/_geomdistances.py",
     [("        clip_mask = (y_pred > self.epsilon) & (y_pred < (1 - self.epsilon))\n        y_pred = np.clip(y_pred, a_min=self.epsilon, a_max=1 - self.epsilon)\n\n        N = y_pred.shape[0]",
       "        y_pred = np.clip(y_pred, a_min=self.epsilon, a_max=1 - self.epsilon)\n        clip_mask = (y_pred > self.epsilon) & (y_pred < (1 - self.epsilon))\n\n        N = y_pred.shape[0]")]),
    ("get-gemini-local", "gemclus/mlp/_mlp_geminis.py",
     [("        return MMDGEMINI(ovo=self.ovo, kernel=self.kernel, kernel_params=self.kernel_params)", "        return MMDGEMINI(kernel=self.kernel, ovo=self.ovo, kernel_params=self.kernel_params)")]),
]


def sh(cmd, **kw):
    return subprocess.run(cmd, shell=True, capture_output=True, text=True, **kw)


def run_twin(t):
    name, rel, edits = t
    wt = f"/tmp/wt/tw_{name}"
    sh(f"git -C /repo worktree remove --force {wt}")
    r = sh(f"git -C /repo worktree add -q --detach {wt} HEAD")
    if r.returncode != 0:
        return name, {"error": r.stderr[:200]}
    try:
        p = f"{wt}/{rel}"
        src = open(p).read()
        for a, b in edits:
            if a not in src:
                return name, {"error": f"edit not applicable: {a[:50]!r}"}
            src = src.replace(a, b)
        open(p, "w").write(src)
        chk = sh(f"/venv/bin/python -c \"import ast,sys; ast.parse(open('{p}').read())\"") if rel.endswith(".py") else None
        if chk is not None and chk.returncode != 0:
            return name, {"error": "twin does not parse"}
        props = [c["property_id"] for c in json.load(open("/verif/MANIFEST.json"))["checks"]]
        env = dict(os.environ, GCVERIF_REPO=wt, GCVERIF_EVIDENCE_DIR=f"{wt}_ev", GCVERIF_OUT_DIR=f"{wt}_out", GCVERIF_SERIAL="1")
        out = {}
        for pr in props:
            o = sh(f"cd /verif && python3-vt gcverif/check.py {pr} --no-controls", env=env)
            if o.returncode != 0:
                lines = [l.strip()[:220] for l in o.stdout.split("\n") if l.strip().startswith("[C") or "ANALYSIS-ERROR" in l]
                out[pr] = (o.returncode, lines[:2])
        return name, out
    finally:
        sh(f"git -C /repo worktree remove --force {wt}")
        shutil.rmtree(f"{wt}_ev", ignore_errors=True)
        shutil.rmtree(f"{wt}_out", ignore_errors=True)


if __name__ == "__main__":
    sel = [t for t in TWINS if not sys.argv[1:] or any(a in t[0] for a in sys.argv[1:])]
    false_alarms = undecided = 0
    with ThreadPoolExecutor(8) as ex:
        for name, out in ex.map(run_twin, sel):
            if "error" in out:
                print(f"{name}: SKIPPED ({out['error']})")
                continue
            fa = {p: v for p, v in out.items() if v[0] == 1}
            un = {p: v for p, v in out.items() if v[0] == 2}
            false_alarms += len(fa)
            undecided += len(un)
            status = "FALSE-ALARM" if fa else ("undecided" if un else "silent")
            print(f"{name}: {status}", {p: v[1][:1] for p, v in {**fa, **un}.items()} if (fa or un) else "")
    print(f"twins={len(sel)} false_alarms={false_alarms} undecided={undecided}")
    sys.exit(1 if false_alarms else 0)
