#!/usr/bin/env python3
"""Record the local-name sequences of every function of the reference tree (/repo HEAD) into gcverif/ref_locals.json."""
import ast, json, os, subprocess, sys
sys.path.insert(0, os.path.join(os.path.dirname(os.path.abspath(__file__)), ".."))
from gcverif.renames import binding_sequence, qualnames, binding_skeletons, binding_dependencies
from gcverif.shapes import describe
out = {}
files = subprocess.run("git -C /repo ls-files 'gemclus/*.py' 'gemclus/**/*.py'", shell=True, capture_output=True, text=True).stdout.split()
files += ["gemclus/tree/_utils.pyx"]
for rel in files:
    if "/tests/" in rel:
        continue
    src = subprocess.run(["git", "-C", "/repo", "show", f"HEAD:{rel}"], capture_output=True, text=True).stdout
    if rel.endswith(".pyx"):
        from gcverif.pyxdesugar import desugar
        src = desugar(src)[0]
    try:
        tree = ast.parse(src)
    except SyntaxError:
        continue
    d = {}
    for qn, f in qualnames(tree):
        seq, params = binding_sequence(f)
        d[qn] = {"params": sorted(params), "locals": [[n, k] for n, k in seq]}
        d[qn].update(describe(f))
        d[qn]["skel"] = binding_skeletons(f)
        d[qn]["deps"] = binding_dependencies(f)
    d["__functions__"] = sorted(qn for qn, _ in qualnames(tree))
    out[rel] = d
json.dump(out, open(os.path.join(os.path.dirname(os.path.abspath(__file__)), "..", "gcverif", "ref_locals.json"), "w"), indent=0, sort_keys=True)
print(sum(len(v) - 1 for v in out.values()), "functions")
