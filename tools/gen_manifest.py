#!/usr/bin/env python3
"""Regenerate MANIFEST.json from tools/manifest_src.py (single source of truth for claims)."""
import json, os, sys
sys.path.insert(0, os.path.dirname(os.path.abspath(__file__)))
from manifest_src import CHECKS, NOT_APPLICABLE, NOTES
props = [json.loads(l)["id"] for l in open(os.path.join(os.path.dirname(__file__), "..", "properties.jsonl"))]
checks = []
for pid in props:
    if pid not in CHECKS:
        continue
    c = CHECKS[pid]
    checks.append({
        "property_id": pid,
        "quick_cmd": f"python3-vt gcverif/check.py {pid} --tier quick",
        "thorough_cmd": f"python3-vt gcverif/check.py {pid} --tier thorough",
        "evidence_file": f"/verif/evidence/{pid}.json",
        "replay_cmd_template": f"python3-vt gcverif/check.py {pid} --explain {{path}}",
        "engine": "gcverif",
        "level_claimed": {"category": "other", "text": c["text"], "design_ref": f"DESIGN.md §5 {pid}"},
        "level_note": c["note"],
        "technique": c["technique"],
    })
na = [{"property_id": p, "reason": NOT_APPLICABLE[p]} for p in props if p in NOT_APPLICABLE]
missing = [p for p in props if p not in CHECKS and p not in NOT_APPLICABLE]
assert not missing, missing
m = {
    "version": 1,
    "setup_cmd": "python3-vt -c \"import ast, json, fractions; print('gcverif needs only the standard library')\"",
    "hooks": {"guard": "GEMCLUS_VERIF", "enable": "no hooks: the checks read /repo's sources and never build or import it",
              "baseline_off_cmd": "cd /repo && /venv/bin/python -m pytest -ra -q -p no:cacheprovider --timeout=900 --continue-on-collection-errors",
              "source_commits": [], "add_only": True},
    "engines": [{"name": "gcverif", "path": "/verif/gcverif", "serves_properties": sorted(CHECKS),
                 "kind_free_text": "repository-specific static analysis over Python ast: program model (class table, MRO, "
                                   "class-specialised call resolution, installed-package source resolution), statement CFG "
                                   "with dominators / reaching definitions / slices, symbolic constraint tables, named-axis "
                                   "abstract interpretation, canonical rational forms, mirror comparison"}],
    "checks": checks,
    "not_applicable": na,
    "notes": NOTES,
}
json.dump(m, open(os.path.join(os.path.dirname(__file__), "..", "MANIFEST.json"), "w"), indent=1)
print("checks:", [c["property_id"] for c in checks], "n/a:", [x["property_id"] for x in na])
