NOTES = ("Static analysis only: every verdict is computed from the source text of /repo (and, for API questions, of the "
         "packages installed in /venv) without importing or executing GemClus. See DESIGN.md.")
PENDING = "check not built yet in this session (planned in DESIGN.md); not claimed until it exists"
CHECKS = {
    "C16": {
        "text": "Structural necessary conditions of input/hyper-parameter rejection, decided on every class and call site: "
                "constraint coverage of every constructor parameter, validate-before-store typestate of the prediction entry "
                "points, domain containment and None-guards of forwarded hyper-parameters, decorator coverage, cross-parameter "
                "checks dominating training, sibling constraints. Not a proof of the behaviour: what scikit-learn's validators "
                "accept for concrete values is trusted.",
        "note": "trusted: Python ast, scikit-learn validator semantics as documented, the symbolic evaluation of constraint "
                "tables (dict literals with ** spreads; anything else is an analysis error).",
        "technique": "symbolic constraint-table evaluation + domain containment + dominator/typestate rules on a statement CFG",
    },
}
CHECKS.update({
    "C02": {
        "text": "Structural necessary conditions of gradient correctness for all 6 GEMINI classes x 2 ovo modes: same score expression "
                "with and without the gradient, gradient axes exactly [N,K] under a named-axis abstract interpretation (no axis-less "
                "squeeze, no broadcasting between different axes), gradient masked by the clip mask of the raw predictions, return "
                "arity, pairing of Wasserstein dual potentials with their marginals. The equality of the hand-derived blocks with the "
                "derivative is NOT decided.",
        "note": "trusted: numpy/POT shape semantics as encoded in gcverif/e3_numpy.py; reaching definitions on a hand-built statement CFG.",
        "technique": "named-axis abstract interpretation + reaching definitions + canonical-form comparison + mirror comparison",
    },
    "C03": {
        "text": "The structural core of 'updates follow the true gradient': provenance (no gradient built from another gradient), chain-rule "
                "required reads derived from the forward pass, number/axes alignment of gradients and weights at every "
                "optimiser.update_params call for every estimator and batch mode, no cross-sample reduction inside back-propagation, "
                "loop protocol of both training loops, optimiser aliasing, formal sign. Jacobian formulas and scalar factors are NOT decided.",
        "note": "trusted: numpy shape semantics table; sklearn optimisers update params[i] in place with grads[i]; Douglas cut-point gradients "
                "are outside the shape domain and excluded from the shape and sign rules.",
        "technique": "backward slicing on a CFG + forward-pass dependency extraction + named-axis abstract interpretation",
    },
    "C04": {
        "text": "API resolution of every attribute/import/keyword/numpy name against the sources and stubs installed in /venv, abstract-method "
                "exhaustiveness, coherence wiring of labels_/predict/predict_proba/score/n_iter_/optimiser by abstract interpretation of "
                "fit followed by prediction on new data, accepted=>usable domain containment, and shape soundness of the whole fit/predict "
                "path for every estimator, batch mode and GEMINI name. Termination and finite arithmetic are NOT decided.",
        "note": "trusted: the installed sources/stubs describe the API that runs; numpy shape semantics table.",
        "technique": "name resolution against installed package sources + named-axis abstract interpretation + constraint-domain containment",
    },
})
CHECKS.update({
    "C08": {
        "text": "The closed-form part of the property is decided exactly: index spaces of every stock read in the split finder (named-axis "
                "interpretation of the desugared .pyx), each gain bundle's canonical rational form equals the objective increase derived "
                "inside the checker by bilinearity of the kernel stock, tracker mirror symmetry, order-domain implication of the "
                "running-best guards, admissibility guards, application in Kauri.fit. NOT decided: the incremental stock updates along "
                "the scan, tie handling, floating-point error, and whether the prebuilt extension matches the .pyx.",
        "note": "trusted: the line-preserving Cython desugarer (regex over the subset used), true division, the stock signature table.",
        "technique": "algebraic value numbering (canonical rational forms) + named-axis abstract interpretation + mirror comparison + order-domain enumeration",
    },
    "C09": {
        "text": "Structural limits and tree encoding: guards of every worklist insertion, loop guards, integer linear implication of the "
                "min-leaf window, observed thresholds, parallel-array growth and child ids under the inductive invariant n_nodes=2*leaves-1, "
                "comparator agreement between fit, predict and score. NOT decided: label contiguity, depth arithmetic beyond the guards.",
        "note": "trusted: the Cython desugarer; np.argsort ascending; validated hyper-parameter domains.",
        "technique": "guard agreement on the syntax tree + linear-form implication + canonical-form comparison",
    },
    "C10": {
        "text": "All clauses are structural: the strided-slice partition idiom is proved from the CFG (counter from 0, test, slice width = "
                "stride, single step, permutation of len(X)), alignment by single-definition index variable plus named-axis interpretation, "
                "epochs x batches, the nonparametric override, the mlcl wrapper and the validation blocks. This is close to a proof of the "
                "property under the stated numpy indexing semantics.",
        "note": "trusted: RandomState.permutation, numpy indexing semantics, validated batch_size >= 1.",
        "technique": "CFG idiom proof with reaching definitions and canonical forms + named-axis abstract interpretation",
    },
})
CHECKS.update({
    "C12": {
        "text": "All clauses are purity / typestate facts decided on every class and function: constructor contract, hyper-parameter "
                "writes only under save/restore with post-dominating restore, execution-ordered abstract run of fit and path proving every "
                "learned attribute is stored before it is read, no history tests, no module/class state, RNG discipline by reaching "
                "definitions and call-site propagation, interprocedural alias/mutation analysis of every public array parameter.",
        "note": "trusted: scikit-learn's get_params/set_params/clone contract; the view/copy table of numpy operations in c12.py.",
        "technique": "typestate + dominator/post-dominator rules + interprocedural alias taint + reaching definitions",
    },
    "C13": {
        "text": "Permutation equivariance by construction (usage classes of every operation along the sample and cluster axes in the "
                "named-axis interpretation of all 12 objectives) and finiteness-by-clipping (raw predictions only reach the mask/clip, "
                "floored square roots, masked zero distances, empty-cluster zero gradient). Non-negativity, zero at independence, log K "
                "and the unit bounds are NOT decided.",
        "note": "trusted: numpy semantics table; epsilon validated in (0,1).",
        "technique": "named-axis abstract interpretation with usage classes + sanitiser/taint rules on slices",
    },
    "C17": {
        "text": "Structural hazards for finiteness: axis-less squeeze on symbolic axes, softmax outputs reaching a denominator or log without "
                "clipping (taint through attributes and lists), clip/floor/mask rules of the GEMINIs, and a classified table of every "
                "division site (unclassified = advisory). General finiteness (overflow, cancellation) is NOT decided.",
        "note": "trusted: numpy semantics table; softmax outputs may underflow to 0, clipped values may not.",
        "technique": "named-axis abstract interpretation with taint tags + division-site classification",
    },
    "C18": {
        "text": "Sound sufficient condition for row-wise independence: along the axis of the predicted array every operation of the "
                "prediction path of each inductive estimator is a map (any reduction, sort, positional or pairing operation, or an "
                "operation outside the transfer table, fails the check); KernelRIM's kernel is taken against the stored training data "
                "through one function; labels_ and predict are the same arg-max.",
        "note": "trusted: numpy/sklearn semantics table (softmax row-wise, pairwise_kernels row by row).",
        "technique": "named-axis abstract interpretation with usage classes",
    },
})
NOT_APPLICABLE = {
    "C05": "exact-minimiser property over all real matrices: value-level, no structural clause that is both necessary and "
           "non-brittle beyond what C06 checks (DESIGN.md §7)",
}
for _p in ["C01","C06","C07","C11","C12","C13","C14","C15","C17","C18","C19","C20"]:
    if _p not in CHECKS:
        NOT_APPLICABLE[_p] = PENDING
