NOTES = ("Static analysis only: every verdict is computed from the source text of /repo (and, for API questions, of the "
         "packages installed in /venv) without importing or executing GemClus. See DESIGN.md.")
PENDING = "check not built yet in this session (planned in DESIGN.md); not claimed until it exists"
CHECKS = {
    "C16": {
        "text": "Structural necessary conditions of input/hyper-parameter rejection, decided on every class and call site: "
                "constraint coverage of every constructor parameter, validate-before-store typestate of the prediction entry "
                "points, domain containment and None-guards of forwarded hyper-parameters, decorator coverage, cross-parameter "
                "checks dominating training, sibling constraints. Not a proof of the behaviour: what scikit-learn's validators "
                "accept for concrete values is trusted.",
        "note": "trusted: Python ast, scikit-learn validator semantics as documented, the symbolic evaluation of constraint "
                "tables (dict literals with ** spreads; anything else is an analysis error).",
        "technique": "symbolic constraint-table evaluation + domain containment + dominator/typestate rules on a statement CFG",
    },
}
CHECKS.update({
    "C02": {
        "text": "Structural necessary conditions of gradient correctness for all 6 GEMINI classes x 2 ovo modes: same score expression "
                "with and without the gradient, gradient axes exactly [N,K] under a named-axis abstract interpretation (no axis-less "
                "squeeze, no broadcasting between different axes), gradient masked by the clip mask of the raw predictions, return "
                "arity, pairing of Wasserstein dual potentials with their marginals. The equality of the hand-derived blocks with the "
                "derivative is NOT decided.",
        "note": "trusted: numpy/POT shape semantics as encoded in gcverif/e3_numpy.py; reaching definitions on a hand-built statement CFG.",
        "technique": "named-axis abstract interpretation + reaching definitions + canonical-form comparison + mirror comparison",
    },
    "C03": {
        "text": "The structural core of 'updates follow the true gradient': provenance (no gradient built from another gradient), chain-rule "
                "required reads derived from the forward pass, number/axes alignment of gradients and weights at every "
                "optimiser.update_params call for every estimator and batch mode, no cross-sample reduction inside back-propagation, "
                "loop protocol of both training loops, optimiser aliasing, formal sign. Jacobian formulas and scalar factors are NOT decided.",
        "note": "trusted: numpy shape semantics table; sklearn optimisers update params[i] in place with grads[i]; Douglas cut-point gradients "
                "are outside the shape domain and excluded from the shape and sign rules.",
        "technique": "backward slicing on a CFG + forward-pass dependency extraction + named-axis abstract interpretation",
    },
    "C04": {
        "text": "API resolution of every attribute/import/keyword/numpy name against the sources and stubs installed in /venv, abstract-method "
                "exhaustiveness, coherence wiring of labels_/predict/predict_proba/score/n_iter_/optimiser by abstract interpretation of "
                "fit followed by prediction on new data, accepted=>usable domain containment, and shape soundness of the whole fit/predict "
                "path for every estimator, batch mode and GEMINI name. Termination and finite arithmetic are NOT decided.",
        "note": "trusted: the installed sources/stubs describe the API that runs; numpy shape semantics table.",
        "technique": "name resolution against installed package sources + named-axis abstract interpretation + constraint-domain containment",
    },
})
NOT_APPLICABLE = {
    "C05": "exact-minimiser property over all real matrices: value-level, no structural clause that is both necessary and "
           "non-brittle beyond what C06 checks (DESIGN.md §7)",
}
for _p in ["C01","C06","C07","C08","C09","C10","C11","C12","C13","C14","C15","C17","C18","C19","C20"]:
    if _p not in CHECKS:
        NOT_APPLICABLE[_p] = PENDING
