NOTES = ("Static analysis only: every verdict is computed from the source text of /repo (and, for API questions, of the "
         "packages installed in /venv) without importing or executing GemClus. See DESIGN.md.")
PENDING = "check not built yet in this session (planned in DESIGN.md); not claimed until it exists"
CHECKS = {
    "C16": {
        "text": "Structural necessary conditions of input/hyper-parameter rejection, decided on every class and call site: "
                "constraint coverage of every constructor parameter, validate-before-store typestate of the prediction entry "
                "points, domain containment and None-guards of forwarded hyper-parameters, decorator coverage, cross-parameter "
                "checks dominating training, sibling constraints. Not a proof of the behaviour: what scikit-learn's validators "
                "accept for concrete values is trusted.",
        "note": "trusted: Python ast, scikit-learn validator semantics as documented, the symbolic evaluation of constraint "
                "tables (dict literals with ** spreads; anything else is an analysis error).",
        "technique": "symbolic constraint-table evaluation + domain containment + dominator/typestate rules on a statement CFG",
    },
}
NOT_APPLICABLE = {
    "C05": "exact-minimiser property over all real matrices: value-level, no structural clause that is both necessary and "
           "non-brittle beyond what C06 checks (DESIGN.md §7)",
}
for _p in ["C01","C02","C03","C04","C06","C07","C08","C09","C10","C11","C12","C13","C14","C15","C17","C18","C19","C20"]:
    if _p not in CHECKS:
        NOT_APPLICABLE[_p] = PENDING
