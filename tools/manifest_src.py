NOTES = ("Static analysis only: every verdict is computed from the source text of /repo (and, for API questions, of the "
         "packages installed in /venv) without importing or executing GemClus. See DESIGN.md.")
PENDING = "check not built yet in this session (planned in DESIGN.md); not claimed until it exists"
CHECKS = {
    "C16": {
        "text": "Structural necessary conditions of input/hyper-parameter rejection, decided on every class and call site: "
                "constraint coverage of every constructor parameter, validate-before-store typestate of the prediction entry "
                "points, domain containment and None-guards of forwarded hyper-parameters, decorator coverage, cross-parameter "
                "checks dominating training, sibling constraints. Not a proof of the behaviour: what scikit-learn's validators "
                "accept for concrete values is trusted.",
        "note": "trusted: Python ast, scikit-learn validator semantics as documented, the symbolic evaluation of constraint "
                "tables (dict literals with ** spreads; anything else is an analysis error).",
        "technique": "symbolic constraint-table evaluation + domain containment + dominator/typestate rules on a statement CFG",
    },
}
CHECKS.update({
    "C02": {
        "text": "Structural necessary conditions of gradient correctness for all 6 GEMINI classes x 2 ovo modes: same score expression "
                "with and without the gradient, gradient axes exactly [N,K] under a named-axis abstract interpretation (no axis-less "
                "squeeze, no broadcasting between different axes), gradient masked by the clip mask of the raw predictions, return "
                "arity, pairing of Wasserstein dual potentials with their marginals, zero-distance masks. And the derivative itself: "
                "evaluate() is translated to index-notation terms with symbolic sizes, the score term is differentiated symbolically and "
                "compared as a canonical form with the returned gradient term, with the clip mask as a symbolic 0/1 tensor (exact equality required: a "
                "per-sample constant does not cancel along the simplex once an entry of the row is clipped), for all 12 objectives.",
        "note": "trusted: numpy/POT shape semantics as encoded in gcverif/e3_numpy.py; reaching definitions on a hand-built statement CFG.",
        "technique": "source-to-term translation with symbolic differentiation and canonical-form (term rewriting) comparison + named-axis abstract "
                     "interpretation + reaching definitions + mirror comparison",
    },
    "C03": {
        "text": "The structural core of 'updates follow the true gradient': provenance (no gradient built from another gradient), chain-rule "
                "required reads derived from the forward pass, number/axes alignment of gradients and weights at every "
                "optimiser.update_params call for every estimator and batch mode, no cross-sample reduction inside back-propagation, "
                "loop protocol of both training loops, optimiser aliasing, formal sign; and the formulas: for 17 of the 18 estimators the direction "
                "handed to the optimiser equals, as a canonical term, minus the symbolic chain rule of the GEMINI gradient through the model's "
                "own _infer plus the gradient of its penalty; Douglas' backward pass is decided against its forward pass by linear sequence maps and folded shape expressions "
                "(C03-k..n); no gradient may be restricted to a data-dependent subset of entries (C03-o).",
        "note": "trusted: numpy shape semantics table; sklearn optimisers update params[i] in place with grads[i]; Douglas cut-point gradients "
                "are outside the shape domain and excluded from the shape and sign rules.",
        "technique": "source-to-term translation with symbolic differentiation and canonical-form comparison + backward slicing on a CFG + "
                     "forward-pass dependency extraction + named-axis abstract interpretation",
    },
    "C04": {
        "text": "API resolution of every attribute/import/keyword/numpy name against the sources and stubs installed in /venv, abstract-method "
                "exhaustiveness, coherence wiring of labels_/predict/predict_proba/score/n_iter_/optimiser by abstract interpretation of "
                "fit followed by prediction on new data, accepted=>usable domain containment, and shape soundness of the whole fit/predict "
                "path for every estimator, batch mode and GEMINI name. Termination and finite arithmetic are NOT decided.",
        "note": "trusted: the installed sources/stubs describe the API that runs; numpy shape semantics table.",
        "technique": "name resolution against installed package sources + named-axis abstract interpretation + constraint-domain containment",
    },
})
CHECKS.update({
    "C08": {
        "text": "The closed-form part of the property is decided exactly: index spaces of every stock read in the split finder (named-axis "
                "interpretation of the desugared .pyx), each gain bundle's canonical rational form equals the objective increase derived "
                "inside the checker by bilinearity of the kernel stock, tracker mirror symmetry, order-domain implication of the "
                "running-best guards, admissibility guards, choice between the mixed reallocation pairs, application in Kauri.fit; and the loop invariant of the "
                "threshold scan: every path through the scan body is interpreted in the kernel-stock domain (linear forms over sigma(x,Sl), sigma(x,x), "
                "sigma(x,Sr-x), sigma(x,C_a)) and the four running stocks must have moved by exactly the bilinear increments, from initial stocks (empty, whole "
                "leaf), starting at position 0 and reaching the last admissible cut. NOT decided: rounding-level ties, floating-point error, and whether the "
                "prebuilt extension matches the .pyx.",
        "note": "trusted: the line-preserving Cython desugarer (regex over the subset used), true division, the stock signature table.",
        "technique": "algebraic value numbering (canonical rational forms) + named-axis abstract interpretation + mirror comparison + order-domain enumeration",
    },
    "C09": {
        "text": "Structural limits and tree encoding: guards of every worklist insertion, loop guards, integer linear implication of the "
                "min-leaf window, observed thresholds, parallel-array growth and child ids under the inductive invariant n_nodes=2*leaves-1, "
                "comparator agreement between fit, predict and score. NOT decided: label contiguity, depth arithmetic beyond the guards.",
        "note": "trusted: the Cython desugarer; np.argsort ascending; validated hyper-parameter domains.",
        "technique": "guard agreement on the syntax tree + linear-form implication + canonical-form comparison",
    },
    "C10": {
        "text": "All clauses are structural: the strided-slice partition idiom is proved from the CFG (counter from 0, test, slice width = "
                "stride, single step, permutation of len(X)), alignment by single-definition index variable plus named-axis interpretation, "
                "epochs x batches, the nonparametric override, the mlcl wrapper and the validation blocks. This is close to a proof of the "
                "property under the stated numpy indexing semantics.",
        "note": "trusted: RandomState.permutation, numpy indexing semantics, validated batch_size >= 1.",
        "technique": "CFG idiom proof with reaching definitions and canonical forms + named-axis abstract interpretation",
    },
})
CHECKS.update({
    "C12": {
        "text": "All clauses are purity / typestate facts decided on every class and function: constructor contract, hyper-parameter "
                "writes only under save/restore with post-dominating restore, execution-ordered abstract run of fit and path proving every "
                "learned attribute is stored before it is read, no history tests, no module/class state, RNG discipline by reaching "
                "definitions and call-site propagation, interprocedural alias/mutation analysis of every public array parameter.",
        "note": "trusted: scikit-learn's get_params/set_params/clone contract; the view/copy table of numpy operations in c12.py.",
        "technique": "typestate + dominator/post-dominator rules + interprocedural alias taint + reaching definitions",
    },
    "C13": {
        "text": "Permutation equivariance by construction (usage classes of every operation along the sample and cluster axes in the "
                "named-axis interpretation of all 12 objectives) and finiteness-by-clipping (raw predictions only reach the mask/clip, "
                "floored square roots, masked zero distances, empty-cluster zero gradient), statelessness of the objectives, and zero at "
                "independence (the score term with y[n,k] := c[k] normalises to 0, chi-square to 1/2). Non-negativity, log K and the unit "
                "bounds are NOT decided.",
        "note": "trusted: numpy semantics table; epsilon validated in (0,1).",
        "technique": "named-axis abstract interpretation with usage classes + sanitiser/taint rules on slices + canonical-form term rewriting",
    },
    "C17": {
        "text": "Structural hazards for finiteness: axis-less squeeze on symbolic axes, softmax outputs reaching a denominator or log without "
                "clipping (taint through attributes and lists), clip/floor/mask rules of the GEMINIs, and a classified table of every "
                "division site (unclassified = advisory). General finiteness (overflow, cancellation) is NOT decided.",
        "note": "trusted: numpy semantics table; softmax outputs may underflow to 0, clipped values may not.",
        "technique": "named-axis abstract interpretation with taint tags + division-site classification",
    },
    "C18": {
        "text": "Sound sufficient condition for row-wise independence: along the axis of the predicted array every operation of the "
                "prediction path of each inductive estimator is a map (any reduction, sort, positional or pairing operation, or an "
                "operation outside the transfer table, fails the check); KernelRIM's kernel is taken against the stored training data "
                "through one function; labels_ and predict are the same arg-max.",
        "note": "trusted: numpy/sklearn semantics table (softmax row-wise, pairwise_kernels row by row).",
        "technique": "named-axis abstract interpretation with usage classes",
    },
})
CHECKS.update({
    "C01": {
        "text": "Registry exactness (abstract evaluation of _str_to_gemini for every listed name: class by prefix, ovo by suffix, no fall-through, "
                "no unlisted handled name, estimator constraint = the list), ovo plumbing, and the pairwise-structure clause for TV/MMD/"
                "Wasserstein; and the closed forms: the term of each evaluate() equals, as a canonical form on the simplex with symbolic n and K, "
                "the term of the reference definition (gcverif/gemini_specs.py) for all 6 classes x 2 modes; result buffers are floating point.",
        "note": "trusted: the <distance>_<ova|ovo> naming convention stated in the property; numpy semantics table.",
        "technique": "source-to-term translation and canonical-form (term rewriting) comparison with reference definitions + abstract evaluation of "
                     "the registry + named-axis abstract interpretation",
    },
    "C06": {
        "text": "Shrinkage wiring (prox after the optimiser step, threshold canonically alpha*optimiser learning rate, in-place copy output i -> "
                "input i), selection reads the matrices inference multiplies the features with (row norm over the non-feature axis), group "
                "operators treat each group as one flattened row, groups_ computed by check_groups before training. Numerical inertness and "
                "check_groups' partition logic are NOT decided.",
        "note": "trusted: np.copyto / np.linalg.norm semantics.",
        "technique": "structural wiring rules with canonical-form comparison of the threshold + named-axis interpretation of the selection",
    },
    "C07": {
        "text": "Termination obligations (guard-normalisation idioms dominating the geometric growth of alpha, bounded inner loop), definite "
                "assignment with loop-entry facts from constants / validated intervals, lock-step histories in one straight-line block after "
                "the abort, defaults with warnings, best-weights rule by control dependence with element-wise copies, restore order. "
                "Comparator directions beyond those listed and numerical history values are NOT decided.",
        "note": "trusted: validated hyper-parameter domains; _batchify yields at least one batch (C10).",
        "technique": "loop-progress obligations + definite-assignment dataflow + control-dependence and dominator rules on the CFG",
    },
    "C11": {
        "text": "Forwarding of every hyper-parameter into the GEMINI constructor of each family, fixed objectives of convenience estimators, "
                "abstract evaluation of get_gemini for None / every name / an instance, dispatch structure of the four affinity "
                "functions (callable / precomputed with raise / named with parameter dictionary), single point of use, pass-through of the "
                "user's y. Numerical equality of fitted models is NOT decided. One listed known finding (Kauri warns instead of raising).",
        "note": "trusted: pairwise_kernels / pairwise_distances implement the named kernels and metrics.",
        "technique": "forwarding tables + abstract evaluation + who-may-read rule",
    },
    "C14": {
        "text": "Index spaces of the whole constraint machinery by named-axis interpretation through a decorated fit (graph positions vs sample "
                "ids vs batch rows), sign/rows of the injected gradient by canonical linear forms and mirror comparison, validation wiring, and the component "
                "search idiom (every search starts from a node no earlier search reached: worklist accepted, counter rejected, anything else undecided); "
                "the orientation of the contradiction test incl. set-of-pairs lookups.",
        "note": "trusted: csgraph.breadth_first_order returns node ids of the adjacency matrix it is given.",
        "technique": "named-axis abstract interpretation (index spaces) + canonical linear forms + mirror comparison",
    },
    "C15": {
        "text": "Mask inertness (who-may-read X), leaf count and softmax/outer-product structure, sorted biases and inverse permutation by argsort "
                "parity, and an order-domain decision of find_active_points against `exists cut: min < cut < max` on all weak orderings. "
                "The soft-binning weights and the zero-temperature limit are NOT decided.",
        "note": "trusted: min/max/any/all depend on their argument only through comparisons.",
        "technique": "order-domain abstraction (finite enumeration of weak orderings) + structural rules",
    },
    "C19": {
        "text": "Comparator/child agreement between the printer and predict, name lookup by feature index with a guard that bounds the largest "
                "used index (canonical form), guards before output. The textual round trip is NOT decided.",
        "note": "trusted: Tree.predict semantics (C09-f).",
        "technique": "sibling comparison + canonical-form guard implication + dominators",
    },
    "C20": {
        "text": "RNG discipline per generator function, documented shapes and label/component index spaces by named-axis interpretation with "
                "symbolic n, K, d, parameter-kind flow (variance vs standard deviation), rejection guards dominating sampling. "
                "Distributional correctness is NOT decided.",
        "note": "trusted: numpy draw signatures.",
        "technique": "reaching definitions + named-axis abstract interpretation + parameter-kind taint + dominators",
    },
})
CHECKS.update({
    "C05": {
        "text": "Group-lasso operator decided exactly as a piecewise closed form: the returned expression, resolved through reaching definitions, "
                "is evaluated as a canonical rational form on the three regions of the (row norm, threshold) case split and must equal the "
                "radial shrinkage (1-alpha/n)w, 0, 0. Group wrappers: one flattened row per group (abstract interpretation). Hierarchical "
                "operator: canonical identity of every intermediate with the HIER-PROX formulas, one gather index for x* and w*, feasibility "
                "derived algebraically. NOT decided: that the breakpoint chosen attains the minimum (value-level search).",
        "note": "trusted: the textbook closed form of prox(alpha*||.||_2) and the LassoNet HIER-PROX formulas; numpy maximum/where/take_along_axis semantics.",
        "technique": "piecewise canonical rational forms (case split on sign facts) + canonical formula identity + named-axis abstract interpretation",
    },
})
NOT_APPLICABLE = {
}
for _p in ["C01","C06","C07","C11","C12","C13","C14","C15","C17","C18","C19","C20"]:
    if _p not in CHECKS:
        NOT_APPLICABLE[_p] = PENDING
