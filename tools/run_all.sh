#!/bin/sh
# run all quick checks in parallel (development aid); prints one line per property
cd /verif
for p in $(jq -r '.checks[].property_id' MANIFEST.json); do
  ( python3-vt gcverif/check.py $p "$@" > /tmp/runall_$p.log 2>&1; echo "$p rc=$? $(grep -c '^VIOLATION' /tmp/runall_$p.log) viol $(grep -m1 'ANALYSIS-ERROR' /tmp/runall_$p.log | cut -c1-200)" ) &
done
wait
