#!/usr/bin/env python3
"""For every `fix:` commit of /repo: re-introduce the original defect (reverse-apply the commit) in a scratch worktree and
confirm that the registered check of the property reports it. Writes /verif/seeded/fix-<id>/patch.diff + meta.json."""
import json, os, subprocess, sys, shutil
FIXES = [
    # id, commit subject prefix, properties expected to catch the reverted defect
    ("D01", "fix: call scikit-learn's validate_data", ["C04", "C16"]),
    ("D02", "fix: back-propagate through the output weights", ["C03"]),
    ("D03", "fix: compute the KernelRIM weight penalty", ["C03", "C04"]),
    ("D04", "fix: compare cannot-link pairs with sample indices", ["C14"]),
    ("D05", "fix: use the leaf-to-cluster kernel stock", ["C08", "C04"]),
    ("D06", "fix: restore the factor 2", ["C08"]),
    ("D07", "fix: track the second-best right switch", ["C08"]),
    ("D08", "fix: do not split the Kauri root", ["C09"]),
    ("D09", "fix: bound feature names", ["C19"]),
    ("D11", "fix: replace a non-positive max_patience", ["C07"]),
    ("D12", "fix: start the sparse path from the default alpha", ["C07"]),
    ("D13", "fix: restore the model's alpha", ["C12"]),
    ("D14", "fix: validate the groups hyperparameter", ["C16"]),
    ("D15", "fix: let WassersteinGEMINI accept every metric", ["C16", "C04"]),
    ("D16", "fix: do not accept n_cuts=None", ["C16", "C04"]),
    ("D17", "fix: report a Douglas feature as active", ["C15"]),
    ("D18", "fix: squeeze only the singleton axis", ["C02", "C17"]),
    ("D19", "fix: back-propagate through the Douglas soft bins", ["C17"]),
    ("D20", "fix: accept RandomState instances", ["C16"]),
    ("D21", "fix: use the standard deviation", ["C20"]),
]
def sh(cmd, **kw):
    return subprocess.run(cmd, shell=True, capture_output=True, text=True, **kw)
log = sh("git -C /repo log --format='%H %s' 093d6bc..HEAD").stdout.strip().split("\n")
commits = {l.split(" ", 1)[1]: l.split(" ", 1)[0] for l in log}
results = []
only = sys.argv[1:]
for fid, prefix, props in FIXES:
    if only and fid not in only:
        continue
    c = next((h for s, h in commits.items() if s.startswith(prefix)), None)
    assert c, prefix
    d = f"/verif/seeded/fix-{fid}"
    os.makedirs(d, exist_ok=True)
    diff = sh(f"git -C /repo diff {c} {c}~1").stdout      # reverse of the fix
    wt = f"/tmp/wt/fx_{fid}"
    sh(f"git -C /repo worktree remove --force {wt}")
    assert sh(f"git -C /repo worktree add -q --detach {wt} HEAD").returncode == 0
    try:
        open(f"{wt}/_rev.diff", "w").write(diff)
        r = sh(f"git -C {wt} apply --3way _rev.diff")
        if r.returncode != 0:
            r = sh(f"git -C {wt} apply _rev.diff")
        applied = r.returncode == 0
        os.remove(f"{wt}/_rev.diff")
        if not applied and fid == "D12":
            sh(f"git -C {wt} reset --hard -q")
            # the later fix D13 rewrote the neighbouring line: remove the guard block textually
            pth = f"{wt}/gemclus/sparse/_base_sparse.py"
            src = open(pth).read()
            i = src.index("    if alpha <= 0:\n")
            j = src.index("    clf.set_params(alpha=0)\n")
            open(pth, "w").write(src[:i] + src[j:])
            applied = True
        patch = sh(f"git -C {wt} diff HEAD").stdout
        open(f"{d}/patch.diff", "w").write(patch)
        det = {}
        env = dict(os.environ, GCVERIF_REPO=wt, GCVERIF_EVIDENCE_DIR=f"/tmp/wt/fx_{fid}_ev", GCVERIF_OUT_DIR=f"/tmp/wt/fx_{fid}_out")
        for p in props:
            o = sh(f"cd /verif && python3-vt gcverif/check.py {p} --no-controls", env=env)
            v = [l.strip()[:300] for l in o.stdout.split("\n") if l.strip().startswith("[C")]
            det[p] = {"rc": o.returncode, "first": v[:2]}
        ok = applied and any(v["rc"] == 1 for v in det.values())
        meta = {"kind": "original defect re-introduced by reverse-applying a fix commit", "finding": fid, "fix_commit": c[:7], "fix_subject": next(s for s in commits if s.startswith(prefix)),
                "properties": props, "detected_by": {p: v for p, v in det.items() if v["rc"] == 1}, "missed_by": [p for p, v in det.items() if v["rc"] != 1],
                "ran": "python3 tools/fix_regress.py (scratch worktree + GCVERIF_REPO; /repo untouched)"}
        json.dump(meta, open(f"{d}/meta.json", "w"), indent=1)
        results.append((fid, c[:7], applied, {p: v["rc"] for p, v in det.items()}))
        print(fid, c[:7], "applied" if applied else "APPLY-FAILED", {p: v["rc"] for p, v in det.items()}, (list(det.values())[0]["first"] or [""])[0][:150])
    finally:
        sh(f"git -C /repo worktree remove --force {wt}")
        shutil.rmtree(f"/tmp/wt/fx_{fid}_ev", ignore_errors=True); shutil.rmtree(f"/tmp/wt/fx_{fid}_out", ignore_errors=True)
