#!/usr/bin/env python3
"""Run every check against each behaviour-preserving refactor kept under /verif/benign (written by sub-agents that saw only the
library, each with a digest program showing bit-identical behaviour). A VIOLATION (rc 1) is a false alarm; rc 2 is an honest
"cannot judge". usage: benign_bench.py [-j N] [names...]"""
import json, os, subprocess, sys, shutil, concurrent.futures as cf
ROOT = "/verif/benign"
args = sys.argv[1:]
jobs = 3
if args[:1] == ["-j"]:
    jobs = int(args[1]); args = args[2:]
names = args or sorted(os.listdir(ROOT))
props = [c["property_id"] for c in json.load(open("/verif/MANIFEST.json"))["checks"]]
def sh(cmd, **kw):
    return subprocess.run(cmd, shell=True, capture_output=True, text=True, **kw)
def one(name):
    d = os.path.join(ROOT, name)
    wt = f"/tmp/wt/bn_{name}"
    sh(f"git -C /repo worktree remove --force {wt}")
    r = sh(f"git -C /repo worktree add -q --detach {wt} HEAD")
    out = {}
    try:
        r = sh(f"git -C {wt} apply {d}/patch.diff")
        if r.returncode != 0:
            return name, {"apply": r.stderr[:200]}
        env = dict(os.environ, GCVERIF_REPO=wt, GCVERIF_EVIDENCE_DIR=f"{wt}_ev", GCVERIF_OUT_DIR=f"{wt}_out")
        for p in props:
            pr = subprocess.run(f"cd /verif && python3-vt gcverif/check.py {p} --no-controls", shell=True, capture_output=True, text=True, env=env)
            if pr.returncode != 0:
                o = pr.stdout + pr.stderr
                lines = [l.strip()[:300] for l in o.split("\n") if l.strip().startswith("[C") or "ANALYSIS-ERROR" in l]
                out[p] = (pr.returncode, lines[:3])
    finally:
        sh(f"git -C /repo worktree remove --force {wt}")
        shutil.rmtree(f"{wt}_ev", ignore_errors=True); shutil.rmtree(f"{wt}_out", ignore_errors=True)
    return name, out
fa = und = 0
with cf.ThreadPoolExecutor(jobs) as ex:
    for name, out in ex.map(one, names):
        v = {p: x for p, x in out.items() if isinstance(x, tuple) and x[0] == 1}
        u = {p: x for p, x in out.items() if isinstance(x, tuple) and x[0] != 1}
        fa += bool(v); und += bool(u) and not v
        print(name, "FALSE-ALARM" if v else ("undecided" if u else "silent"), flush=True)
        for p, x in out.items():
            print("    ", p, x if not isinstance(x, tuple) else (x[0], x[1][:2]))
print(f"{len(names)} refactors: {fa} false alarms, {und} undecided only")
sys.exit(1 if fa else 0)
