#!/usr/bin/env python3
"""Compare a junit xml of the baseline command with /root/.vp/BASELINE.json stable_pass.
usage: baseline_check.py <junit.xml>   (exit 0 iff every stable_pass test passed)"""
import json, sys, xml.etree.ElementTree as ET
base = json.load(open('/root/.vp/BASELINE.json'))
want = set(base['stable_pass'])
got = {}
for tc in ET.parse(sys.argv[1]).getroot().iter('testcase'):
    name = f"{tc.get('classname')}::{tc.get('name')}"
    bad = any(ch.tag in ('failure', 'error', 'skipped') for ch in tc)
    got[name] = not bad
missing = sorted(t for t in want if not got.get(t, False))
print(f"stable_pass={len(want)} passed_now={sum(got.values())} total_now={len(got)} regressions={len(missing)}")
for m in missing[:40]:
    print("  REGRESSION", m, "(absent)" if m not in got else "(failed)")
sys.exit(1 if missing else 0)
