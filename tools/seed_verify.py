#!/usr/bin/env python3
"""Confirm a seeded defect in a scratch worktree (never in /repo):
   demo passes on the clean tree, fails with the patch, and the baseline suite shows no regression with the patch.
usage: seed_verify.py <dir with patch.diff, demo.py> [--no-suite]"""
import json, os, subprocess, sys, shutil, time
d = os.path.abspath(sys.argv[1])
name = "v_" + "_".join(d.strip("/").split("/")[-2:])
wt = f"/tmp/wt/{name}"
res = {"dir": d, "time": time.strftime("%F %T")}
def sh(cmd, **kw):
    return subprocess.run(cmd, shell=True, capture_output=True, text=True, **kw)
try:
    sh(f"git -C /repo worktree remove --force {wt}")
    r = sh(f"git -C /repo worktree add -q --detach {wt} HEAD")
    assert r.returncode == 0, r.stderr
    shutil.copy("/repo/gemclus/tree/_utils.cpython-312-x86_64-linux-gnu.so", f"{wt}/gemclus/tree/")
    PYX = "_utils.pyx" in open(f"{d}/patch.diff").read()
    def standin():
        """the compiled split finder cannot be rebuilt here (no Cython): defects in the .pyx are demonstrated on the
        line-preserving pure-Python transliteration of the .pyx (gcverif/pyxdesugar.py), which replaces the extension"""
        if not PYX:
            return
        import glob
        sys.path.insert(0, "/verif")
        from gcverif import pyxdesugar
        out = pyxdesugar.desugar(open(f"{wt}/gemclus/tree/_utils.pyx").read())[0].replace("np.import_array()", "pass")
        open(f"{wt}/gemclus/tree/_utils.py", "w").write(out)
        for so in glob.glob(f"{wt}/gemclus/tree/_utils*.so"):
            os.remove(so)
    res["pyx_standin"] = PYX
    standin()
    env = dict(os.environ, PYTHONPATH=wt, OMP_NUM_THREADS="1", OPENBLAS_NUM_THREADS="1", MKL_NUM_THREADS="1")
    shutil.copy(f"{d}/demo.py", f"{wt}/_demo.py")
    r = sh(f"cd {wt} && timeout 600 /venv/bin/python -W ignore _demo.py", env=env)
    res["demo_clean_rc"] = r.returncode
    res["demo_clean_tail"] = (r.stdout + r.stderr)[-400:]
    r = sh(f"git -C {wt} apply {d}/patch.diff")
    res["apply_rc"] = r.returncode
    res["apply_err"] = r.stderr[-300:]
    standin()
    r = sh(f"cd {wt} && timeout 600 /venv/bin/python -W ignore _demo.py", env=env)
    res["demo_patched_rc"] = r.returncode
    res["demo_patched_tail"] = (r.stdout + r.stderr)[-400:]
    r = sh(f"cd {wt} && /venv/bin/python -c 'import gemclus'", env=env)
    res["import_rc"] = r.returncode
    if "--no-suite" not in sys.argv:
        os.remove(f"{wt}/_demo.py")
        t = time.time()
        sh(f"cd {wt} && /venv/bin/python -m pytest -ra -q -p no:cacheprovider --timeout=900 --continue-on-collection-errors --junitxml={d}/verify_junit.xml > {d}/verify_pytest.log 2>&1", env=env)
        r = sh(f"python3 /verif/tools/baseline_check.py {d}/verify_junit.xml")
        res["suite"] = r.stdout.strip().split("\n")[0]
        res["suite_rc"] = r.returncode
        res["suite_s"] = round(time.time() - t)
    res["confirmed"] = res.get("demo_clean_rc") == 0 and res.get("apply_rc") == 0 and res.get("demo_patched_rc") not in (0, None) \
        and res.get("import_rc") == 0 and res.get("suite_rc", 0) == 0
except Exception as e:
    res["error"] = repr(e)
    res["confirmed"] = False
finally:
    sh(f"git -C /repo worktree remove --force {wt}")
json.dump(res, open(f"{d}/verify.json", "w"), indent=1)
print(json.dumps({k: v for k, v in res.items() if not k.endswith("_tail")}))
