#!/usr/bin/env python3
"""Run every check (rules only, no controls) on every patch of a directory tree, in memory, one worker per (property, patch).
usage: python3-vt tools/refactor_matrix.py <root with */patch.diff or */*/patch.diff> [props...]
prints one line per (patch, property) that is not silent:  <patch> <prop> reported|undecided <first message>"""
import glob
import importlib
import json
import multiprocessing as mp
import os
import sys

sys.path.insert(0, os.path.join(os.path.dirname(os.path.abspath(__file__)), ".."))
os.environ.setdefault("GCVERIF_EVIDENCE_DIR", "/tmp/ev_rm")
os.environ.setdefault("GCVERIF_OUT_DIR", "/tmp/evout_rm")
from gcverif import pm as pmmod                      # noqa: E402
from gcverif.adopt import run_full                   # noqa: E402
from gcverif.report import Ctx                       # noqa: E402
from gcverif.check import apply_unified_diff         # noqa: E402

root = sys.argv[1]
props = sys.argv[2:] or [c["property_id"] for c in json.load(open("/verif/MANIFEST.json"))["checks"]]
patches = sorted(glob.glob(os.path.join(root, "*", "patch.diff")) + glob.glob(os.path.join(root, "*", "*", "patch.diff")))
PM = pmmod.ProgramModel(None)
BASE = {}


def base(prop):
    mod = importlib.import_module(f"gcverif.props.{prop.lower()}")
    ctx = Ctx(prop, "control", quiet=True)
    run_full(mod, PM, ctx)
    return {f.key_tuple() for f in ctx.findings}


def one(job):
    prop, path = job
    name = os.path.relpath(os.path.dirname(path), root)
    mod = importlib.import_module(f"gcverif.props.{prop.lower()}")
    try:
        pm2 = PM.mutated(apply_unified_diff(PM.sources, open(path).read()))
        ctx = Ctx(prop, "control", quiet=True)
        run_full(mod, pm2, ctx)
    except pmmod.AnalysisError as e:
        return name, prop, "undecided", str(e)[:220]
    except Exception as e:
        return name, prop, "undecided", "internal error " + repr(e)[:200]
    new = [f for f in ctx.findings if f.key_tuple() not in BASE[prop]]
    if new:
        return name, prop, "reported", str(new[0])[:260]
    if ctx.undecided:
        return name, prop, "undecided", (ctx.undecided[0].get("why") or "")[:220]
    return name, prop, "silent", ""


if __name__ == "__main__":
    for p in props:
        BASE[p] = base(p)
    jobs = [(p, path) for path in patches for p in props]
    with mp.get_context("fork").Pool(min(16, os.cpu_count() or 4)) as pool:
        res = pool.map(one, jobs, chunksize=4)
    bad = [r for r in res if r[2] != "silent"]
    for name, prop, st, msg in sorted(bad):
        print(f"{name:14s} {prop} {st:9s} {msg}")
    if os.environ.get("MATRIX_JSON"):
        json.dump([list(r) for r in res], open(os.environ["MATRIX_JSON"], "w"), indent=0)
    print(f"{len(patches)} patches x {len(props)} checks: {sum(1 for r in res if r[2] == 'reported')} reported, {sum(1 for r in res if r[2] == 'undecided')} undecided")
