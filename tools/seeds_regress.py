#!/usr/bin/env python3
"""Regression of the catch matrix, in memory: every kept seeded defect must still be reported by every check that its meta.json records as
reporting it (exit 1). usage: python3-vt tools/seeds_regress.py   -> prints the lost ones"""
import glob
import importlib
import json
import multiprocessing as mp
import os
import sys

sys.path.insert(0, os.path.join(os.path.dirname(os.path.abspath(__file__)), ".."))
os.environ.setdefault("GCVERIF_EVIDENCE_DIR", "/tmp/ev_rm")
os.environ.setdefault("GCVERIF_OUT_DIR", "/tmp/evout_rm")
from gcverif import pm as pmmod                      # noqa: E402
from gcverif.adopt import run_full                   # noqa: E402
from gcverif.report import Ctx                       # noqa: E402
from gcverif.check import apply_unified_diff         # noqa: E402

PM = pmmod.ProgramModel(None)
BASE = {}
jobs = []
for d in sorted(glob.glob("/verif/seeded/*/")):
    mp_, pp = d + "meta.json", d + "patch.diff"
    if not (os.path.isfile(mp_) and os.path.isfile(pp)):
        continue
    m = json.load(open(mp_))
    for p, r in (m.get("checks") or {}).items():
        if r.get("exit", 1) == 1:
            jobs.append((os.path.basename(d.rstrip("/")), p, pp))


def one(job):
    sid, prop, path = job
    mod = importlib.import_module(f"gcverif.props.{prop.lower()}")
    try:
        pm2 = PM.mutated(apply_unified_diff(PM.sources, open(path).read()))
        ctx = Ctx(prop, "control", quiet=True)
        run_full(mod, pm2, ctx)
    except ValueError as e:
        return sid, prop, "n/a", str(e)[:120]
    except pmmod.AnalysisError as e:
        return sid, prop, "undecided", str(e)[:160]
    except Exception as e:
        return sid, prop, "crash", repr(e)[:160]
    new = [f for f in ctx.findings if f.key_tuple() not in BASE[prop]]
    return sid, prop, ("reported" if new else ("undecided" if ctx.undecided else "missed")), (str(new[0])[:120] if new else "")


if __name__ == "__main__":
    for p in sorted({j[1] for j in jobs}):
        mod = importlib.import_module(f"gcverif.props.{p.lower()}")
        ctx = Ctx(p, "control", quiet=True)
        run_full(mod, PM, ctx)
        BASE[p] = {f.key_tuple() for f in ctx.findings}
    with mp.get_context("fork").Pool(min(16, os.cpu_count() or 4)) as pool:
        res = pool.map(one, jobs, chunksize=4)
    lost = [r for r in res if r[2] != "reported"]
    for r in sorted(lost):
        print("LOST", *r)
    print(f"{len(jobs)} (seed, check) pairs: {sum(1 for r in res if r[2] == 'reported')} reported, {len(lost)} lost")
