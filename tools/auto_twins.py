#!/usr/bin/env python3
"""Mechanically generated behaviour-preserving rewrites (development aid): one transformation applied to one function at a time,
every check run in memory on the result; a VIOLATION that the unmodified tree does not have is a false alarm.
usage: auto_twins.py [transformation ...]     transformations: method2func flipcmp len2shape commute matmul2dot augassign rename"""
import ast, copy, importlib, json, os, sys
sys.path.insert(0, os.path.join(os.path.dirname(os.path.abspath(__file__)), ".."))
from concurrent.futures import ProcessPoolExecutor
from gcverif import pm as pmmod
from gcverif.report import Ctx
from gcverif.adopt import run_full

PROPS = [c["property_id"] for c in json.load(open("/verif/MANIFEST.json"))["checks"]]
FLIP = {ast.Lt: ast.Gt, ast.Gt: ast.Lt, ast.LtE: ast.GtE, ast.GtE: ast.LtE, ast.Eq: ast.Eq, ast.NotEq: ast.NotEq}


class Method2Func(ast.NodeTransformer):
    """x.sum(k, ...) -> np.sum(x, axis=k, ...)   (only when np is the module alias used by the file)"""
    def visit_Call(self, n):
        n = self.generic_visit(n)
        f = n.func
        if isinstance(f, ast.Attribute) and f.attr in ("sum", "mean", "argmax", "max", "min") and not (isinstance(f.value, ast.Name) and f.value.id in ("np", "numpy", "random_state", "generator")) \
                and not isinstance(f.value, ast.Call):
            kws = list(n.keywords)
            args = [f.value]
            if n.args:
                kws = [ast.keyword(arg="axis", value=n.args[0])] + kws
                if len(n.args) > 1:
                    return n
            self.n += 1
            return ast.Call(func=ast.Attribute(value=ast.Name(id="np", ctx=ast.Load()), attr=f.attr, ctx=ast.Load()), args=args, keywords=kws)
        return n


class FlipCmp(ast.NodeTransformer):
    def visit_Compare(self, n):
        n = self.generic_visit(n)
        if len(n.ops) == 1 and type(n.ops[0]) in FLIP and not isinstance(n.ops[0], (ast.Eq, ast.NotEq)):
            self.n += 1
            return ast.Compare(left=n.comparators[0], ops=[FLIP[type(n.ops[0])]()], comparators=[n.left])
        return n


class Len2Shape(ast.NodeTransformer):
    def visit_Call(self, n):
        n = self.generic_visit(n)
        if isinstance(n.func, ast.Name) and n.func.id == "len" and len(n.args) == 1 and isinstance(n.args[0], ast.Name) and n.args[0].id in ("X", "y_pred", "affinity"):
            self.n += 1
            return ast.Subscript(value=ast.Attribute(value=n.args[0], attr="shape", ctx=ast.Load()), slice=ast.Constant(value=0), ctx=ast.Load())
        return n


class Commute(ast.NodeTransformer):
    def visit_BinOp(self, n):
        n = self.generic_visit(n)
        simple = lambda e: isinstance(e, (ast.Name, ast.Attribute, ast.Constant)) or (isinstance(e, ast.Subscript) and isinstance(e.value, (ast.Name, ast.Attribute)))
        if isinstance(n.op, (ast.Mult, ast.Add)) and simple(n.left) and simple(n.right) and not (isinstance(n.left, ast.Constant) and isinstance(n.left.value, str)) \
                and not isinstance(n.left, ast.List) and not isinstance(n.right, ast.List):
            self.n += 1
            return ast.BinOp(left=n.right, op=n.op, right=n.left)
        return n


class MatMul2Dot(ast.NodeTransformer):
    def visit_BinOp(self, n):
        n = self.generic_visit(n)
        if isinstance(n.op, ast.MatMult):
            self.n += 1
            return ast.Call(func=ast.Attribute(value=ast.Name(id="np", ctx=ast.Load()), attr="dot", ctx=ast.Load()), args=[n.left, n.right], keywords=[])
        return n


class AugAssign(ast.NodeTransformer):
    """i += 1 -> i = i + 1 for plain integer counters only (names used as loop counters: i, j, patience, n_leaves, n_clusters)"""
    def visit_AugAssign(self, n):
        if isinstance(n.target, ast.Name) and n.target.id in ("i", "j", "patience", "n_leaves", "n_clusters", "alpha") and isinstance(n.op, (ast.Add, ast.Mult)):
            self.n += 1
            return ast.Assign(targets=[n.target], value=ast.BinOp(left=ast.Name(id=n.target.id, ctx=ast.Load()), op=n.op, right=n.value), lineno=n.lineno)
        return n


class Rename(ast.NodeTransformer):
    """rename the local temporaries of a function (names assigned in it that are not parameters, not attributes) by appending _r"""
    def __init__(self, names):
        self.names = names

    def visit_Name(self, n):
        if n.id in self.names:
            self.n += 1
            return ast.Name(id=n.id + "_r", ctx=n.ctx)
        return n


class Hoist(ast.NodeTransformer):
    """x = f(g(a), b)  ->  hoisted_k = g(a); x = f(hoisted_k, b): the first call nested in the value of an assignment gets a temporary"""
    def __init__(self):
        self.k = 0

    def visit_FunctionDef(self, f):
        f.body = self._block(f.body)
        return f

    def _block(self, stmts):
        out = []
        for st in stmts:
            for fld in ("body", "orelse", "finalbody"):
                if hasattr(st, fld) and isinstance(getattr(st, fld), list) and not isinstance(st, ast.FunctionDef):
                    setattr(st, fld, self._block(getattr(st, fld)))
            if isinstance(st, ast.Assign) and len(st.targets) == 1 and isinstance(st.targets[0], ast.Name) and isinstance(st.value, (ast.BinOp, ast.Call)):
                inner = None
                for n in ast.walk(st.value):
                    if n is not st.value and isinstance(n, ast.Call) and not any(isinstance(x, (ast.Lambda, ast.Starred, ast.GeneratorExp, ast.ListComp)) for x in ast.walk(n)) \
                            and isinstance(n.func, (ast.Attribute, ast.Name)) and len(ast.unparse(n)) > 12:
                        inner = n
                        break
                if inner is not None and self.n < 3:
                    self.n += 1
                    self.k += 1
                    name = f"hoisted_{self.k}"
                    tmp = ast.Assign(targets=[ast.Name(id=name, ctx=ast.Store())], value=inner, lineno=st.lineno)

                    class Rep(ast.NodeTransformer):
                        def visit_Call(s2, n):
                            if n is inner:
                                return ast.Name(id=name, ctx=ast.Load())
                            return s2.generic_visit(n)
                    st.value = Rep().visit(st.value)
                    out.append(tmp)
            out.append(st)
        return out


class Inline(ast.NodeTransformer):
    """a temporary assigned once and read once, in the next statement, is inlined there"""
    def visit_FunctionDef(self, f):
        f.body = self._block(f.body, f)
        return f

    def _block(self, stmts, f):
        out = list(stmts)
        i = 0
        while i + 1 < len(out):
            st, nx = out[i], out[i + 1]
            if isinstance(st, ast.Assign) and len(st.targets) == 1 and isinstance(st.targets[0], ast.Name) and isinstance(nx, (ast.Assign, ast.Return, ast.Expr, ast.AugAssign)) and self.n < 2:
                name = st.targets[0].id
                stores = [x for x in ast.walk(f) if isinstance(x, ast.Name) and x.id == name and isinstance(x.ctx, ast.Store)]
                loads = [x for x in ast.walk(f) if isinstance(x, ast.Name) and x.id == name and isinstance(x.ctx, ast.Load)]
                loads_nx = [x for x in ast.walk(nx) if isinstance(x, ast.Name) and x.id == name and isinstance(x.ctx, ast.Load)]
                if len(stores) == 1 and len(loads) == 1 and len(loads_nx) == 1 and not isinstance(st.value, (ast.Lambda, ast.ListComp, ast.GeneratorExp, ast.Yield)):
                    val = st.value

                    class Rep(ast.NodeTransformer):
                        def visit_Name(s2, n):
                            if n.id == name and isinstance(n.ctx, ast.Load):
                                return val
                            return n
                    out[i + 1] = Rep().visit(nx)
                    del out[i]
                    self.n += 1
                    continue
            i += 1
        for st in out:
            for fld in ("body", "orelse", "finalbody"):
                if hasattr(st, fld) and isinstance(getattr(st, fld), list) and not isinstance(st, ast.FunctionDef):
                    setattr(st, fld, self._block(getattr(st, fld), f))
        return out


TRANSFORMS = {"hoist": Hoist, "inline": Inline, "method2func": Method2Func, "flipcmp": FlipCmp, "len2shape": Len2Shape, "commute": Commute, "matmul2dot": MatMul2Dot, "augassign": AugAssign}


def local_names(f):
    params = {a.arg for a in f.args.args + f.args.kwonlyargs} | ({f.args.vararg.arg} if f.args.vararg else set()) | ({f.args.kwarg.arg} if f.args.kwarg else set())
    assigned = set()
    for n in ast.walk(f):
        if isinstance(n, ast.Name) and isinstance(n.ctx, ast.Store):
            assigned.add(n.id)
    nested = {n.name for n in ast.walk(f) if isinstance(n, (ast.FunctionDef, ast.Lambda)) and n is not f and hasattr(n, "name")}
    return assigned - params - nested


def gen(pm, which):
    out = []
    for rel, src in pm.sources.items():
        if not rel.endswith(".py") or "/tests/" in rel or "__init__" in rel or "import numpy as np" not in src:
            continue
        tree = ast.parse(src)
        funcs = [n for n in ast.walk(tree) if isinstance(n, ast.FunctionDef)]
        lines = src.split("\n")
        for f in funcs:
            if any(isinstance(m, ast.FunctionDef) and m is not f for m in ast.walk(f)):
                continue        # keep closures intact
            seg = "\n".join(lines[f.lineno - 1:f.end_lineno])
            for tname in which:
                f2 = copy.deepcopy(f)
                if tname == "rename":
                    names = {x for x in local_names(f) if len(x) > 1 and not x.startswith("_")}
                    if not names:
                        continue
                    T = Rename(names)
                else:
                    T = TRANSFORMS[tname]()
                T.n = 0
                f2 = T.visit(f2)
                if T.n == 0:
                    continue
                ast.fix_missing_locations(f2)
                try:
                    new_seg = ast.unparse(f2)
                except Exception:
                    continue
                indent = " " * f.col_offset
                new_seg = "\n".join(indent + l if l else l for l in new_seg.split("\n"))
                # keep decorators as written
                first = f.decorator_list[0].lineno - 1 if f.decorator_list else f.lineno - 1
                new_src = "\n".join(lines[:first] + [new_seg] + lines[f.end_lineno:])
                try:
                    ast.parse(new_src)
                except SyntaxError:
                    continue
                out.append((f"{tname}:{rel}:{f.name}", rel, new_src))
    return out


def work(job):
    name, rel, new_src = job
    pm = pmmod.ProgramModel()
    try:
        pm2 = pm.mutated({rel: new_src})
    except pmmod.AnalysisError as e:
        return name, {"parse": str(e)[:80]}
    res = {}
    for p in PROPS:
        mod = importlib.import_module(f"gcverif.props.{p.lower()}")
        ctx = Ctx(p, "control", quiet=True)
        try:
            run_full(mod, pm2, ctx, adopt=False)
        except pmmod.AnalysisError as e:
            res[p] = "U " + str(e)[:80]
            continue
        except Exception as e:
            res[p] = "CRASH " + repr(e)[:100]
            continue
        if ctx.findings:
            base = BASE.get(p, set())
            new = [f for f in ctx.findings if f.key_tuple() not in base]
            if new:
                res[p] = f"V {new[0].rule}: {new[0].message[:110]} :: {new[0].stmt[:60]}"
                continue
        if ctx.undecided:
            res[p] = "U " + ctx.undecided[0]["why"][:80]
    return name, res


BASE = {}

if __name__ == "__main__":
    which = sys.argv[1:] or list(TRANSFORMS) + ["rename"]
    pm = pmmod.ProgramModel()
    for p in PROPS:
        mod = importlib.import_module(f"gcverif.props.{p.lower()}")
        ctx = Ctx(p, "control", quiet=True)
        run_full(mod, pm, ctx, adopt=False)
        BASE[p] = {f.key_tuple() for f in ctx.findings}
    jobs = gen(pm, which)
    print(f"{len(jobs)} twins")
    fa = un = cr = 0
    with ProcessPoolExecutor(14) as ex:
        for name, res in ex.map(work, jobs, chunksize=2):
            v = {p: r for p, r in res.items() if r.startswith("V")}
            c = {p: r for p, r in res.items() if r.startswith("CRASH")}
            u = {p: r for p, r in res.items() if r.startswith("U")}
            if v:
                fa += 1
                print("FALSE-ALARM", name, v)
            elif c:
                cr += 1
                print("CRASH", name, c)
            elif u:
                un += 1
                print("undecided", name, {p: r[:70] for p, r in list(u.items())[:2]})
    print(f"twins={len(jobs)} false_alarms={fa} crashes={cr} undecided={un}")
