"""E7 - order-domain abstraction: predicates that touch their operands only through comparisons are decided on all weak
orderings of the operands (a finite enumeration of an abstract domain, not of inputs)."""
import ast
import itertools

from .pm import norm_src, AnalysisError


def weak_orderings(n):
    """all assignments of ranks 0..n-1 to n items that use a prefix of the ranks (ordered set partitions)"""
    seen = set()
    for ranks in itertools.product(range(n), repeat=n):
        used = sorted(set(ranks))
        if used != list(range(len(used))):
            continue
        if ranks not in seen:
            seen.add(ranks)
            yield ranks


class NotOrderPredicate(Exception):
    pass


def eval_order(node, val):
    """evaluate a boolean combination of comparisons between atoms under val: {atom source: rank}"""
    if isinstance(node, ast.BoolOp):
        vs = [eval_order(v, val) for v in node.values]
        return all(vs) if isinstance(node.op, ast.And) else any(vs)
    if isinstance(node, ast.UnaryOp) and isinstance(node.op, ast.Not):
        return not eval_order(node.operand, val)
    if isinstance(node, ast.Compare):
        left = node.left
        res = True
        for op, right in zip(node.ops, node.comparators):
            a, b = val.get(norm_src(left)), val.get(norm_src(right))
            if a is None or b is None:
                raise NotOrderPredicate(norm_src(node))
            r = {ast.Lt: a < b, ast.LtE: a <= b, ast.Gt: a > b, ast.GtE: a >= b, ast.Eq: a == b, ast.NotEq: a != b}.get(type(op))
            if r is None:
                raise NotOrderPredicate(norm_src(node))
            res = res and r
            left = right
        return res
    if isinstance(node, ast.Constant) and isinstance(node.value, bool):
        return node.value
    raise NotOrderPredicate(norm_src(node))


def atoms_of(node):
    out = []
    for n in ast.walk(node):
        if isinstance(n, ast.Compare):
            for x in [n.left] + n.comparators:
                s = norm_src(x)
                if s not in out:
                    out.append(s)
    return out


def implies(premises, conclusion, extra_atoms=()):
    """forall weak orderings of the atoms: all(premises) => conclusion. premises/conclusion: ast nodes or (node, polarity).
    returns (True, None) or (False, counterexample dict)"""
    prem = [(p if isinstance(p, tuple) else (p, True)) for p in premises]
    atoms = []
    for p, _ in prem:
        for a in atoms_of(p):
            if a not in atoms:
                atoms.append(a)
    for a in atoms_of(conclusion):
        if a not in atoms:
            atoms.append(a)
    for a in extra_atoms:
        if a not in atoms:
            atoms.append(a)
    if len(atoms) > 6:
        raise NotOrderPredicate("too many atoms")
    for ranks in weak_orderings(len(atoms)):
        val = dict(zip(atoms, ranks))
        if all(eval_order(p, val) == pol for p, pol in prem):
            if not eval_order(conclusion, val):
                return False, val
    return True, None


def parse(s):
    return ast.parse(s, mode="eval").body
