"""Undo pure renamings of local variables.

Many structural rules name the local variable that plays a role (`alphas`, `best_weights`, `tau_hat_grad`). A refactor that only
renames locals leaves the behaviour unchanged and must not change any verdict. gcverif/ref_locals.json records, for every function of
the reference tree, the sequence of its local names in order of first binding. When the current function binds the same NUMBER of
locals in the same kinds of statements but under other names, the locals are renamed back, position by position, before any rule
looks at the function. The table is never used to judge anything: if the shape differs, nothing is renamed."""
import ast
import json
import os

_REF = None


def _ref():
    global _REF
    if _REF is None:
        p = os.path.join(os.path.dirname(os.path.abspath(__file__)), "ref_locals.json")
        try:
            _REF = json.load(open(p))
        except (OSError, ValueError):
            _REF = {}
    return _REF


def binding_sequence(f):
    """[(name, kind)] of the locals of f in order of first binding (parameters and nested function names excluded)"""
    params = {a.arg for a in f.args.posonlyargs + f.args.args + f.args.kwonlyargs}
    if f.args.vararg:
        params.add(f.args.vararg.arg)
    if f.args.kwarg:
        params.add(f.args.kwarg.arg)
    seen, out = set(), []

    def bind(n, kind):
        for x in ast.walk(n):
            if isinstance(x, ast.Name) and isinstance(x.ctx, ast.Store) and x.id not in seen and x.id not in params:
                seen.add(x.id)
                out.append((x.id, kind))

    def walk(stmts):
        for s in stmts:
            if isinstance(s, (ast.FunctionDef, ast.AsyncFunctionDef, ast.ClassDef)):
                continue
            if isinstance(s, ast.Assign):
                for t in s.targets:
                    bind(t, "assign")
            elif isinstance(s, (ast.AugAssign, ast.AnnAssign)):
                bind(s.target, "assign")
            elif isinstance(s, (ast.For, ast.AsyncFor)):
                bind(s.target, "for")
                walk(s.body)
                walk(s.orelse)
            elif isinstance(s, (ast.While, ast.If)):
                walk(s.body)
                walk(s.orelse)
            elif isinstance(s, (ast.With, ast.AsyncWith)):
                for it in s.items:
                    if it.optional_vars is not None:
                        bind(it.optional_vars, "with")
                walk(s.body)
            elif isinstance(s, ast.Try):
                walk(s.body)
                for h in s.handlers:
                    walk(h.body)
                walk(s.orelse)
                walk(s.finalbody)
    walk(f.body)
    return out, params


def binding_skeletons(f):
    """for each local of f (order of first binding): the shape of the statement that first binds it, with every identifier abstracted -
    node kinds, attribute names, constants.  Two functions that differ only by a renaming of locals have the same list."""
    seq, params = binding_sequence(f)
    first = {}

    def skel(node):
        class A(ast.NodeTransformer):
            def visit_Name(self, n):
                return ast.Name(id="_", ctx=n.ctx)
        import copy
        return ast.dump(A().visit(copy.deepcopy(node)), annotate_fields=False)

    def rec(stmts):
        for s_ in stmts:
            if isinstance(s_, (ast.FunctionDef, ast.AsyncFunctionDef, ast.ClassDef)):
                continue
            tg = []
            if isinstance(s_, ast.Assign):
                tg = s_.targets
            elif isinstance(s_, (ast.AugAssign, ast.AnnAssign)):
                tg = [s_.target]
            elif isinstance(s_, (ast.For, ast.AsyncFor)):
                tg = [s_.target]
            elif isinstance(s_, (ast.With, ast.AsyncWith)):
                tg = [it.optional_vars for it in s_.items if it.optional_vars is not None]
            for t in tg:
                for x in ast.walk(t):
                    if isinstance(x, ast.Name) and isinstance(x.ctx, ast.Store) and x.id not in first and x.id not in params:
                        if isinstance(s_, (ast.For, ast.AsyncFor)):
                            first[x.id] = "for " + skel(s_.target) + " in " + skel(s_.iter)
                        elif isinstance(s_, (ast.With, ast.AsyncWith)):
                            first[x.id] = "with"
                        else:
                            first[x.id] = skel(s_)
            for attr in ("body", "orelse", "finalbody"):
                b = getattr(s_, attr, None)
                if isinstance(b, list):
                    rec(b)
            for h in getattr(s_, "handlers", []) or []:
                rec(h.body)
    rec(f.body)
    import hashlib
    return [hashlib.sha1(first.get(n, "?").encode()).hexdigest()[:10] for n, _ in seq]


def binding_dependencies(f):
    """for each local of f (order of first binding): which parameters (by name) and which locals (by POSITION in the binding order) the statement that
    first binds it reads.  Invariant under a renaming of the locals and under respelling of the statements; different when temporaries were removed / added."""
    seq, params = binding_sequence(f)
    pos = {n: i for i, (n, _) in enumerate(seq)}
    first = {}

    def reads(node):
        out = set()
        for x in ast.walk(node):
            if isinstance(x, ast.Name) and isinstance(x.ctx, ast.Load):
                if x.id in params:
                    out.add("p:" + x.id)
                elif x.id in pos:
                    out.add("l:%d" % pos[x.id])
        return sorted(out)

    def rec(stmts):
        for s_ in stmts:
            if isinstance(s_, (ast.FunctionDef, ast.AsyncFunctionDef, ast.ClassDef)):
                continue
            tg, src = [], None
            if isinstance(s_, ast.Assign):
                tg, src = s_.targets, s_.value
            elif isinstance(s_, (ast.AugAssign, ast.AnnAssign)):
                tg, src = [s_.target], s_.value
            elif isinstance(s_, (ast.For, ast.AsyncFor)):
                tg, src = [s_.target], s_.iter
            elif isinstance(s_, (ast.With, ast.AsyncWith)):
                tg, src = [it.optional_vars for it in s_.items if it.optional_vars is not None], s_.items[0].context_expr
            for t in tg:
                for x in ast.walk(t):
                    if isinstance(x, ast.Name) and isinstance(x.ctx, ast.Store) and x.id not in first and x.id not in params:
                        first[x.id] = reads(src) if src is not None else []
            for attr in ("body", "orelse", "finalbody"):
                b = getattr(s_, attr, None)
                if isinstance(b, list):
                    rec(b)
            for h in getattr(s_, "handlers", []) or []:
                rec(h.body)
    rec(f.body)
    return [first.get(n, ["?"]) for n, _ in seq]


def qualnames(tree):
    out = []

    def rec(body, prefix):
        for s in body:
            if isinstance(s, ast.ClassDef):
                rec(s.body, prefix + s.name + ".")
            elif isinstance(s, (ast.FunctionDef, ast.AsyncFunctionDef)):
                out.append((prefix + s.name, s))
                rec(s.body, prefix + s.name + ".")
    rec(tree.body, "")
    return out


def undo_renames(tree, relpath):
    """rename locals back to the reference names where the function only differs by a renaming. returns {qualname: mapping}"""
    ref = _ref().get(relpath, {})
    done = {}
    for qn, f in qualnames(tree):
        r = ref.get(qn)
        if not isinstance(r, dict) or not r.get("locals"):
            continue
        seq, params = binding_sequence(f)
        if len(seq) != len(r["locals"]) or [k for _, k in seq] != [k for _, k in r["locals"]] or sorted(params) != sorted(r["params"]):
            continue
        mapping = {cur: refname for (cur, _), (refname, _) in zip(seq, r["locals"]) if cur != refname}
        if not mapping:
            continue
        # position-by-position renaming is only meaningful if the locals are bound by statements of the same shape (a function whose
        # temporaries were removed and added can have the same NUMBER of locals by coincidence)
        if r.get("skel") is not None and binding_skeletons(f) != r["skel"] and not (r.get("deps") is not None and binding_dependencies(f) == r["deps"]):
            continue
        # the renaming must be a bijection of the local names and must not capture another name used in the function
        cur_names = {n for n, _ in seq}
        targets = set(mapping.values())
        used = {x.id for x in ast.walk(f) if isinstance(x, ast.Name)}
        if len(targets) != len(mapping) or (targets & (used - set(mapping) - {c for c in cur_names if c in mapping})) - {r_ for r_ in targets if r_ in mapping}:
            others = used - set(mapping)
            if targets & others:
                continue
        for x in ast.walk(f):
            if isinstance(x, ast.Name) and x.id in mapping:
                x.id = mapping[x.id]
                if hasattr(x, "_ns"):
                    del x._ns
        done[qn] = mapping
    return done
