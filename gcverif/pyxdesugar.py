"""Line-preserving desugaring of the Cython subset used by gemclus/tree/_utils.pyx to plain Python.

Only the forms found in that file are recognised; anything else that still looks like Cython after the
rewrite makes `ast.parse` fail, which the caller reports as an analysis error (exit 2) - never as a pass.
The C declarations are returned as a side table {function qualname or '<module>'/'class X': {var: ctype}}.
"""
import ast
import re

IDENT = r"[A-Za-z_][A-Za-z_0-9]*"


class DesugarError(Exception):
    pass


def _split_top(s, sep=","):
    parts, depth, cur = [], 0, []
    for ch in s:
        if ch in "([{":
            depth += 1
        elif ch in ")]}":
            depth -= 1
        if ch == sep and depth == 0:
            parts.append("".join(cur))
            cur = []
        else:
            cur.append(ch)
    parts.append("".join(cur))
    return parts


def _strip_param(seg):
    """'  np.float64_t[:,:] kernel = None' -> ('  kernel = None', 'kernel', 'np.float64_t[:,:]')"""
    lead = re.match(r"\s*", seg).group(0)
    body = seg[len(lead):]
    trail = re.search(r"\s*$", body).group(0)
    core = body[:len(body) - len(trail)] if trail else body
    if not core:
        return seg, None, None
    # split default at top-level '='
    pieces = _split_top(core, "=")
    left = pieces[0].rstrip()
    default = "=".join(pieces[1:]) if len(pieces) > 1 else None
    m = re.search(r"(\*{0,2}" + IDENT + r")$", left)
    if not m:
        raise DesugarError(f"cannot find parameter name in {seg!r}")
    name = m.group(1)
    ctype = left[:m.start()].strip()
    out = lead + name + ("=" + default if default is not None else "") + trail
    return out, name.lstrip("*"), ctype or None


def _find_header_end(text, start):
    """index just after the ')' matching the first '(' found from start"""
    i = text.index("(", start)
    depth = 0
    for j in range(i, len(text)):
        if text[j] == "(":
            depth += 1
        elif text[j] == ")":
            depth -= 1
            if depth == 0:
                return i, j
    raise DesugarError("unbalanced header")


def desugar(src):
    ctypes = {}
    text = src
    # ---- function headers -------------------------------------------------
    out = []
    pos = 0
    hdr = re.compile(r"^(?P<ind>[ \t]*)(?P<kw>def|cdef|cpdef)\s+(?P<rest>[^\n(]*?)(?P<name>" + IDENT + r")\s*\(", re.M)
    while True:
        m = hdr.search(text, pos)
        if not m:
            out.append(text[pos:])
            break
        if m.group("kw") == "cdef" and m.group("rest").strip() in ("class",):
            out.append(text[pos:m.end()])
            pos = m.end()
            continue
        # reject things like 'cdef np.float64_t tmp = f(x)' (an assignment, not a header)
        line_end = text.find("\n", m.start())
        first_line = text[m.start():line_end if line_end != -1 else len(text)]
        if m.group("kw") == "cdef" and "=" in first_line.split("(")[0]:
            out.append(text[pos:m.end()])
            pos = m.end()
            continue
        lpar, rpar = _find_header_end(text, m.start())
        params = text[lpar + 1:rpar]
        new_params = []
        table = {}
        for seg in _split_top(params):
            o, name, ctype = _strip_param(seg)
            new_params.append(o)
            if name and ctype:
                table[name] = ctype
        # after ')': optional '-> T' then ':'
        tail_m = re.compile(r"\s*(->\s*[^:\n]+)?\s*:").match(text, rpar + 1)
        if not tail_m:
            # not a def header after all (e.g. a cdef declaration with a call initialiser)
            out.append(text[pos:m.end()])
            pos = m.end()
            continue
        ret = m.group("rest").strip()
        fname = m.group("name")
        ctypes.setdefault(fname, {}).update(table)
        if ret:
            ctypes[fname]["<return>"] = ret
        out.append(text[pos:m.start()])
        out.append(f"{m.group('ind')}def {fname}(" + ",".join(new_params) + "):")
        pos = tail_m.end()
    text = "".join(out)

    # ---- line forms -------------------------------------------------------
    lines = text.split("\n")
    res = []
    cur_func = "<module>"
    func_stack = []
    CT = r"(?:np\.ndarray\[[^\]]*\]|[A-Za-z_][A-Za-z_0-9\.]*(?:\[[:,\s]*\])?)"
    for ln in lines:
        indent = len(ln) - len(ln.lstrip())
        s = ln.strip()
        mdef = re.match(r"(?:def|class)\s+(" + IDENT + ")", s)
        while func_stack and indent <= func_stack[-1][0] and s and not s.startswith("#"):
            func_stack.pop()
        if mdef:
            func_stack.append((indent, mdef.group(1)))
        cur_func = func_stack[-1][1] if func_stack else "<module>"
        if re.match(r"cimport\s|from\s+\S+\s+cimport\s", s):
            res.append(ln[:indent] + "pass  # " + s if indent else "")
            continue
        m = re.match(r"cdef\s+class\s+(" + IDENT + r")\s*(\(.*\))?\s*:", s)
        if m:
            res.append(ln[:indent] + f"class {m.group(1)}{m.group(2) or ''}:")
            func_stack.append((indent, m.group(1)))
            continue
        m = re.match(r"cdef\s+(?:readonly\s+|public\s+)?(" + CT + r")\s+(.+)$", s)
        if m:
            ctype, rest = m.group(1), m.group(2)
            decls = _split_top(rest)
            assigns = []
            for d in decls:
                d = d.strip()
                mm = re.match(r"(" + IDENT + r")\s*(=\s*(.+))?$", d, re.S)
                if not mm:
                    raise DesugarError(f"unrecognised cdef declaration: {s!r}")
                ctypes.setdefault(cur_func, {})[mm.group(1)] = ctype
                if mm.group(3) is not None:
                    assigns.append(f"{mm.group(1)} = {mm.group(3)}")
            if assigns:
                res.append(ln[:indent] + "; ".join(assigns))
            else:
                res.append(ln[:indent] + "pass  # cdef " + rest if True else "")
            continue
        res.append(ln)
    py = "\n".join(res)
    try:
        ast.parse(py)
    except SyntaxError as e:
        raise DesugarError(f"desugared .pyx does not parse: {e}")
    return py, ctypes


if __name__ == "__main__":
    import sys
    py, ct = desugar(open(sys.argv[1]).read())
    print(py)
    print(ct, file=sys.stderr)
