"""E1 - resolution / exhaustiveness against the installed dependencies (sources and stubs are parsed, never imported)."""
import ast
import os

from .pm import AnalysisError, norm_src, func_params, PKG
from .flow import attr_chain
from .astutil import self_name
from .callgraph import resolve_name

RECEIVER_TYPED = [
    # (module, function, receiver parameter, which classes the receiver ranges over)
    ("gemclus.sparse._base_sparse", "_path", "clf", "sparse"),
    ("gemclus.sparse._base_sparse", "compute_val_score", "clf", "sparse"),
    ("gemclus.mlcl", "add_mlcl_constraint", "gemini_model", "discriminative"),
]


def stub_names(pm, relpath):
    p = os.path.join(pm.site, relpath)
    if not os.path.isfile(p):
        return None
    try:
        t = ast.parse(open(p).read())
    except SyntaxError:
        return _stub_names_regex(open(p).read())
    names = set()
    for st in ast.walk(t):
        if isinstance(st, (ast.FunctionDef, ast.ClassDef, ast.AsyncFunctionDef)):
            names.add(st.name)
        elif isinstance(st, ast.Assign):
            for tg in st.targets:
                if isinstance(tg, ast.Name):
                    names.add(tg.id)
        elif isinstance(st, ast.AnnAssign) and isinstance(st.target, ast.Name):
            names.add(st.target.id)
        elif isinstance(st, (ast.Import, ast.ImportFrom)):
            for a in st.names:
                names.add((a.asname or a.name).split(".")[0])
    return names


def _stub_names_regex(text):
    """fallback for stubs written in a newer syntax than the analysing interpreter understands"""
    import re
    names = set()
    for m in re.finditer(r"^(?:async\s+)?def\s+(\w+)|^class\s+(\w+)|^type\s+(\w+)|^(\w+)\s*[:=]", text, re.M):
        names.add(next(g for g in m.groups() if g))
    for m in re.finditer(r"^(?:from\s+[\w\.]+\s+)?import\s+(\([^)]*\)|[^\n]+)", text, re.M):
        body = m.group(1).strip("()")
        for part in body.split(","):
            part = re.sub(r"#.*", "", part).strip()
            if not part:
                continue
            toks = part.split()
            names.add(toks[-1].split(".")[0])
    return names


def class_methods_in_stub(pm, relpath, cls):
    p = os.path.join(pm.site, relpath)
    if not os.path.isfile(p):
        return None
    t = ast.parse(open(p).read())
    for st in ast.walk(t):
        if isinstance(st, ast.ClassDef) and st.name == cls:
            return {b.name for b in st.body if isinstance(b, (ast.FunctionDef, ast.AsyncFunctionDef))}
    return None


def self_loads(pm):
    """yield (unit, class, func, node, attr) for every self.<attr> load in GemClus class methods"""
    for ci in pm.classes.values():
        for mn, f in ci.methods.items():
            sn = self_name(f)
            if not sn:
                continue
            for n in ast.walk(f):
                if isinstance(n, ast.Attribute) and isinstance(n.ctx, ast.Load) and isinstance(n.value, ast.Name) and n.value.id == sn:
                    yield ci.unit, ci, f, n, n.attr


def check_self_loads(pm, ctx, rid):
    n_sites = 0
    for unit, ci, f, node, attr in self_loads(pm):
        users = [K for K in pm.classes.values() if ci in K.mro]
        bad = [K.name for K in users if attr not in pm.attr_universe(K)]
        n_sites += 1
        site = f"{ci.name}.{f.name}: self.{attr}"
        if bad:
            st = node
            while not isinstance(st, ast.stmt):
                st = st._parent
            ctx.violation(rid, unit.relpath, f"{ci.name}.{f.name}", norm_src(st)[:160],
                          f"self.{attr} resolves to nothing (no method, class attribute or stored attribute in the MRO, GemClus or "
                          f"installed scikit-learn) for {bad[:4]}", line=node.lineno, site=site)
        else:
            ctx.ok(rid, site)
    return n_sites


def check_receiver_typed(pm, ctx, rid):
    sparse = [K for K in pm.classes.values() if any(c.name in ("SparseLinearModel", "SparseMLPModel") for c in K.mro)]
    disc = [K for K in pm.classes.values() if any(c.name == "DiscriminativeModel" for c in K.mro)]
    for mod, fn, recv, kind in RECEIVER_TYPED:
        u = pm.unit(mod)
        f = u.func(fn)
        classes = sparse if kind == "sparse" else disc
        for n in ast.walk(f):
            if isinstance(n, ast.Attribute) and isinstance(n.value, ast.Name) and n.value.id == recv and isinstance(n.ctx, ast.Load):
                bad = [K.name for K in classes if n.attr not in pm.attr_universe(K)]
                site = f"{fn}: {recv}.{n.attr}"
                if bad:
                    ctx.violation(rid, u.relpath, fn, f"{recv}.{n.attr}", f"{recv}.{n.attr} does not resolve for {bad[:4]}", line=n.lineno, site=site)
                else:
                    ctx.ok(rid, site)
    # Split attributes used from python
    pyx = pm.units.get("gemclus.tree._utils")
    if pyx is not None:
        split_attrs = set(pyx.ctypes.get("Split", {})) | {m for m in pm.classes["Split"].methods} if "Split" in pm.classes else set()
        ku = pm.unit("gemclus.tree.kauri")
        for q, f in ku.functions.items():
            for n in ast.walk(f):
                if isinstance(n, ast.Attribute) and isinstance(n.value, ast.Name) and n.value.id in ("best_split", "split") and isinstance(n.ctx, ast.Load):
                    site = f"{q}: {n.value.id}.{n.attr}"
                    if n.attr in split_attrs:
                        ctx.ok(rid, site)
                    else:
                        ctx.violation(rid, ku.relpath, q, f"{n.value.id}.{n.attr}", f"Split has no attribute {n.attr}", line=n.lineno, site=site)


def check_imports(pm, ctx, rid):
    for u in pm.units.values():
        for st in ast.walk(u.tree):
            if not isinstance(st, ast.ImportFrom):
                continue
            # resolve module
            if st.level:
                parts = u.modname.split(".")
                is_init = os.path.basename(u.path).startswith("__init__")
                base = parts if is_init else parts[:-1]
                base = base[:len(base) - (st.level - 1)]
                mod = ".".join(base + ([st.module] if st.module else []))
            else:
                mod = st.module
            for a in st.names:
                site = f"{u.relpath}: from {mod} import {a.name}"
                if a.name == "*":
                    continue
                if mod.startswith(PKG):
                    u2 = pm.units.get(mod)
                    ok = False
                    if u2 is not None:
                        ok = a.name in u2.functions or a.name in u2.classes or a.name in u2.assigns or a.name in u2.imports
                    if not ok and (mod + "." + a.name) in pm.units:
                        ok = True
                    if ok:
                        ctx.ok(rid, site)
                    else:
                        ctx.violation(rid, u.relpath, "<module>", norm_src(st), f"{a.name} is not defined in {mod}", line=st.lineno, site=site)
                    continue
                if u.is_pyx:
                    continue
                r = pm.ext_symbol(mod, a.name)
                if r is None:
                    ctx.violation(rid, u.relpath, "<module>", norm_src(st), f"{a.name} cannot be resolved in the installed {mod}",
                                  line=st.lineno, site=site)
                else:
                    ctx.ok(rid, site, r[0])


def ext_callee(pm, unit, call):
    """resolved installed python function for a call by simple name; returns (module, FunctionDef) or None"""
    if not isinstance(call.func, ast.Name):
        return None
    kind, tgt = resolve_name(pm, unit, call.func.id)
    if kind != "ext":
        return None
    mod, sym, res = tgt
    if res is None or res[0] != "def":
        return None
    return res[1], res[2]


def accepted_keywords(pm, eunit, fdef, depth=0):
    """(set of keyword names accepted, open: True if unknown **kwargs sink)"""
    names = set(func_params(fdef))
    if not fdef.args.kwarg:
        return names, False
    kw = fdef.args.kwarg.arg
    # follow **kw forwarded to a resolvable function of the same module
    open_ = True
    for n in ast.walk(fdef):
        if isinstance(n, ast.Call) and any(k.arg is None and isinstance(k.value, ast.Name) and k.value.id == kw for k in n.keywords):
            if isinstance(n.func, ast.Name) and n.func.id in eunit.functions and depth < 2:
                sub, o2 = accepted_keywords(pm, eunit, eunit.functions[n.func.id], depth + 1)
                names |= sub
                open_ = o2
            elif isinstance(n.func, ast.Name) and n.func.id in eunit.imports and depth < 2:
                m2, s2 = eunit.imports[n.func.id]
                r = pm.ext_symbol(m2, s2) if s2 else None
                if r and r[0] == "def":
                    sub, o2 = accepted_keywords(pm, r[1], r[2], depth + 1)
                    names |= sub
                    open_ = o2
    # validate_data builds check_params dict then calls check_array(**check_params): scan for dict-splat of locals too
    if open_ and fdef.name == "validate_data":
        ca = eunit.functions.get("check_array")
        if ca is not None:
            names |= set(func_params(ca))
            open_ = False
    return names, open_


def check_keywords(pm, ctx, rid):
    for u in pm.units.values():
        if u.is_pyx:
            continue
        for n in ast.walk(u.tree):
            if not isinstance(n, ast.Call) or not n.keywords:
                continue
            r = ext_callee(pm, u, n)
            if r is None:
                continue
            eunit, fdef = r
            names, open_ = accepted_keywords(pm, eunit, fdef)
            for k in n.keywords:
                if k.arg is None:
                    continue
                site = f"{u.relpath}:{fdef.name}({k.arg}=)"
                if k.arg in names or open_:
                    ctx.ok(rid, site)
                else:
                    st = n
                    while not isinstance(st, ast.stmt):
                        st = st._parent
                    ctx.violation(rid, u.relpath, fdef.name, norm_src(st)[:160], f"the installed {eunit.modname}.{fdef.name} has no parameter "
                                  f"{k.arg!r}", line=n.lineno, site=site)


def check_numpy_names(pm, ctx, rid):
    top = stub_names(pm, "numpy/__init__.pyi")
    lin = stub_names(pm, "numpy/linalg/__init__.pyi")
    rnd = class_methods_in_stub(pm, "numpy/random/mtrand.pyi", "RandomState")
    if top is None or lin is None:
        raise AnalysisError("numpy stubs not found in the installed package")
    for u in pm.units.values():
        alias = [k for k, (m, s) in u.imports.items() if m == "numpy" and s is None]
        if not alias or u.is_pyx:   # the .pyx also uses numpy's C API (np.import_array), which has no Python stub
            continue
        for n in ast.walk(u.tree):
            if isinstance(n, ast.Attribute):
                ch = attr_chain(n)
                if not ch:
                    continue
                parts = ch.split(".")
                if parts[0] not in alias or isinstance(getattr(n, "_parent", None), ast.Attribute):
                    continue
                site = f"{u.relpath}: {ch}"
                if len(parts) == 2:
                    ok = parts[1] in top
                elif len(parts) >= 3 and parts[1] == "linalg":
                    ok = parts[2] in lin
                elif len(parts) >= 3 and parts[1] == "random":
                    ok = True
                else:
                    ok = parts[1] in top
                if ok:
                    ctx.ok(rid, site)
                else:
                    ctx.violation(rid, u.relpath, "<numpy>", ch, f"{ch} does not exist in the installed numpy", line=n.lineno, site=site)
    return rnd
