"""gcverif - static verification machinery for GemClus (see /verif/DESIGN.md)."""
