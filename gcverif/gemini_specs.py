"""Reference definitions of the GEMINI objectives, written once from the documented definition (property C01) in the numpy
subset that gcverif.e8_numpy translates. They are never executed: they are translated to index-notation terms and compared,
as canonical forms, with the terms of the library's evaluate().

Notation: P = y_pred [N,K] row-stochastic, pi_k = mean_i P[i,k] = p(y=k), p[i,k] = P[i,k] / (N pi_k) = p(x_i | y=k) (empirical
cluster-conditional distribution over the N samples), q_i = 1/N (empirical data distribution), A = affinity (kernel or
distance matrix, symmetric).
    one-vs-all:  sum_k pi_k D(p_k, q)            one-vs-one: sum_{k,k'} pi_k pi_k' D(p_k, p_k')
"""
import ast

PRELUDE = """
N = y_pred.shape[0]
K = y_pred.shape[1]
pi = y_pred.mean(0)
p = y_pred / (N * pi)
"""

SPECS = {
    # KL(p || q) = sum_i p_i log(p_i / q_i)
    ("KLGEMINI", False): "return np.sum(pi * np.sum(p * np.log(p * N), axis=0))",
    ("KLGEMINI", True): """
P1 = p[:, :, None]
P2 = p[:, None, :]
return np.sum(pi[:, None] * pi[None, :] * np.sum(P1 * np.log(P1 / P2), axis=0))
""",
    # TV(p, q) = 1/2 sum_i |p_i - q_i|
    ("TVGEMINI", False): "return np.sum(pi * 0.5 * np.sum(np.abs(p - 1 / N), axis=0))",
    ("TVGEMINI", True): "return np.sum(pi[:, None] * pi[None, :] * 0.5 * np.sum(np.abs(p[:, :, None] - p[:, None, :]), axis=0))",
    # squared Hellinger distance H^2(p, q) = 1 - sum_i sqrt(p_i q_i)
    ("HellingerGEMINI", False): "return np.sum(pi * (1 - np.sum(np.sqrt(p / N), axis=0)))",
    ("HellingerGEMINI", True): "return np.sum(pi[:, None] * pi[None, :] * (1 - np.sum(np.sqrt(p[:, :, None] * p[:, None, :]), axis=0)))",
    # Pearson chi-square chi2(p || q) = sum_i p_i^2 / q_i - 1, reported in the fixed affine form (chi2 + 1) / 2
    ("ChiSquareGEMINI", False): "return np.sum(pi * (np.sum(p * p * N, axis=0) - 1 + 1) / 2)",
    ("ChiSquareGEMINI", True): "return np.sum(pi[:, None] * pi[None, :] * (np.sum(p[:, :, None] * p[:, :, None] / p[:, None, :], axis=0) - 1 + 1) / 2)",
    # MMD(p, q)^2 = E_pp k + E_qq k - 2 E_pq k
    ("MMDGEMINI", False): """
Epp = np.sum(p * (affinity @ p), axis=0)
Eqq = np.sum(affinity) / N ** 2
Epq = np.sum(affinity @ p, axis=0) / N
return np.sum(pi * np.sqrt(Epp + Eqq - 2 * Epq))
""",
    ("MMDGEMINI", True): """
G = p.T @ affinity @ p
Epp = np.diag(G)
return np.sum(pi[:, None] * pi[None, :] * np.sqrt(Epp[:, None] + Epp[None, :] - 2 * G))
""",
    # Wasserstein-1 = optimal transport cost with ground cost A
    ("WassersteinGEMINI", False): """
pT = p.T
q = np.ones(N) / N
W = np.zeros(K)
for k in range(K):
    W[k] = ot.emd2(pT[k], q, affinity)
return np.sum(pi * W)
""",
    # sum over ordered pairs = twice the sum over k < k' (W is symmetric and vanishes for equal arguments)
    ("WassersteinGEMINI", True): """
pT = p.T
W = np.zeros((K, K))
for a in range(K):
    for b in range(a + 1, K):
        W[a, b] = pi[a] * pi[b] * ot.emd2(pT[a], pT[b], affinity)
return 2 * np.sum(W)
""",
}


def spec_function(cname, ovo):
    src = "def spec(y_pred, affinity):\n" + "\n".join("    " + l for l in (PRELUDE + SPECS[(cname, ovo)]).strip().split("\n"))
    return ast.parse(src).body[0], src
