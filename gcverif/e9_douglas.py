"""Douglas cut points: the map cuts -> bin biases of `_leaf_binning` and the map bin-logit gradients -> cut updates of
`_compute_grads`, both as E9 linear sequence maps, and their comparison (chain rule through sort + padding + cumsum)."""
import ast

from .e9_seq import Different, Grid2, Perm, Seq, SeqInterp, Unsupported, is_minus_transpose, is_neg_lower_strict


def _defs(f):
    """single-assignment table name -> value node of a function body (names assigned more than once are dropped)"""
    seen, multi = {}, set()
    for n in ast.walk(f):
        if isinstance(n, ast.Assign) and len(n.targets) == 1 and isinstance(n.targets[0], ast.Name):
            k = n.targets[0].id
            if k in seen:
                multi.add(k)
            seen[k] = n.value
        elif isinstance(n, (ast.AugAssign,)) and isinstance(n.target, ast.Name):
            multi.add(n.target.id)
    return {k: v for k, v in seen.items() if k not in multi}


def _value_names(node):
    """names whose VALUE the expression depends on (a name only measured by len() / .shape / .size does not count)"""
    out = set()
    stack = [node]
    while stack:
        n = stack.pop()
        if isinstance(n, ast.Call) and isinstance(n.func, ast.Name) and n.func.id == "len":
            continue
        if isinstance(n, ast.Attribute) and n.attr in ("shape", "size", "ndim", "dtype"):
            continue
        if isinstance(n, ast.Name):
            out.add(n.id)
        stack.extend(ast.iter_child_nodes(n))
    return out


def forward(pm):
    """-> dict(bias=Seq, order=Perm|None, temperature=str|None, stmt=node) ; raises Unsupported / Different"""
    ci = pm.classes["Douglas"]
    f = ci.methods.get("_leaf_binning")
    if f is None:
        raise Unsupported("Douglas._leaf_binning not found")
    params = [a.arg for a in f.args.args]
    if len(params) != 3:
        raise Unsupported("_leaf_binning does not take (self, X, cut_points)")
    me, xname, cname = params
    I = SeqInterp({cname: Seq.input("c")})
    rets = [s for s in ast.walk(f) if isinstance(s, ast.Return)]
    if len(rets) != 1 or rets[0] not in f.body:
        raise Unsupported("_leaf_binning has several exits")
    I.run(f.body)
    defs = _defs(f)
    dependent = {cname} | {k for k, v in I.env.items() if isinstance(v, (Seq, Perm))}
    # names whose definition mentions a dependent name are dependent too
    changed = True
    while changed:
        changed = False
        for k, v in defs.items():
            if k not in dependent and _value_names(v) & dependent:
                dependent.add(k)
                changed = True

    def free(node):
        return not (_value_names(node) & dependent)

    def affine(node, depth=0):
        """node == <free of the cuts> + bias  -> the bias Seq"""
        if depth > 8:
            raise Unsupported("definition chain too long")
        v = I.try_ev(node)
        if isinstance(v, Seq):
            return v
        if isinstance(node, ast.Name) and node.id in defs:
            return affine(defs[node.id], depth + 1)
        if isinstance(node, ast.BinOp) and isinstance(node.op, ast.Add):
            if free(node.left):
                return affine(node.right, depth + 1)
            if free(node.right):
                return affine(node.left, depth + 1)
        if isinstance(node, ast.BinOp) and isinstance(node.op, ast.Sub) and free(node.left):
            return affine(node.right, depth + 1).scale(-1)
        if isinstance(node, ast.BinOp) and isinstance(node.op, ast.Sub) and free(node.right):
            return affine(node.left, depth + 1)
        raise Unsupported(f"the bin logits are not `<slopes term> + <bias>`: {ast.unparse(node)[:60]}")

    rv = rets[0].value
    first, second = (rv.elts[0], rv.elts[1]) if isinstance(rv, ast.Tuple) and len(rv.elts) == 2 else (rv, None)
    node = first
    hops = 0
    while isinstance(node, ast.Name) and node.id in defs and hops < 8:
        node = defs[node.id]
        hops += 1
    if not (isinstance(node, ast.Call) and ast.unparse(node.func).split(".")[-1] == "softmax" and node.args):
        raise Unsupported("the memberships returned are not a softmax(...) call")
    arg = node.args[0]
    hops = 0
    while isinstance(arg, ast.Name) and arg.id in defs and hops < 8:
        arg = defs[arg.id]
        hops += 1
    temp = None
    if isinstance(arg, ast.BinOp) and isinstance(arg.op, ast.Div) and free(arg.right):
        temp = ast.unparse(arg.right)
        inner = arg.left
    elif isinstance(arg, ast.BinOp) and isinstance(arg.op, ast.Mult) and (free(arg.right) or free(arg.left)):
        fac, inner = (arg.right, arg.left) if free(arg.right) else (arg.left, arg.right)
        if isinstance(fac, ast.BinOp) and isinstance(fac.op, ast.Div) and ast.unparse(fac.left) in ("1", "1.0"):
            temp = ast.unparse(fac.right)
        else:
            temp = "1 / (" + ast.unparse(fac) + ")"
    else:
        inner = arg
    bias = affine(inner)
    order = I.try_ev(second) if second is not None else None
    return {"bias": bias, "order": order if isinstance(order, Perm) else None, "temperature": temp, "line": rets[0].lineno, "self": me}


def backward(pm):
    """-> dict(update=Seq, line=int)"""
    ci = pm.classes["Douglas"]
    f = ci.methods.get("_compute_grads")
    if f is None:
        raise Unsupported("Douglas._compute_grads not found")
    me = f.args.args[0].arg
    loops = [n for n in f.body if isinstance(n, ast.For)]
    if len(loops) != 1:
        raise Unsupported("no single loop over the features in _compute_grads")
    lp = loops[0]
    idx = None
    if isinstance(lp.target, ast.Tuple) and lp.target.elts and isinstance(lp.target.elts[0], ast.Name):
        idx = lp.target.elts[0].id
    elif isinstance(lp.target, ast.Name):
        idx = lp.target.id

    def hook(src):
        if idx is not None and src == f"{me}._all_orders[{idx}]":
            return Perm(1)
        return None

    I = SeqInterp({}, hook)
    g = lambda: Grid2(Seq.input("g", extra=1))
    found = None
    seen_bin = False
    for st in lp.body:
        tgt = None
        if isinstance(st, ast.Assign) and len(st.targets) == 1 and isinstance(st.targets[0], ast.Name):
            tgt = st.targets[0].id
        elif isinstance(st, ast.AugAssign) and isinstance(st.target, ast.Name):
            tgt = st.target.id
        if tgt == "bin_grad":
            I.env["bin_grad"] = g()
            seen_bin = True
            continue
        if tgt == "updates" or (isinstance(st, ast.Expr) and isinstance(st.value, ast.Call) and ast.unparse(st.value.func) in ("updates.append", "updates.extend")):
            elt = None
            if isinstance(st, ast.AugAssign) and isinstance(st.value, (ast.List, ast.Tuple)) and len(st.value.elts) == 1:
                elt = st.value.elts[0]
            elif isinstance(st, ast.Assign) and isinstance(st.value, ast.BinOp) and isinstance(st.value.op, ast.Add) and isinstance(st.value.right, (ast.List, ast.Tuple)) \
                    and len(st.value.right.elts) == 1 and ast.unparse(st.value.left) == "updates":
                elt = st.value.right.elts[0]
            elif isinstance(st, ast.Expr):
                c = st.value
                if ast.unparse(c.func) == "updates.append" and len(c.args) == 1:
                    elt = c.args[0]
                elif len(c.args) == 1 and isinstance(c.args[0], (ast.List, ast.Tuple)) and len(c.args[0].elts) == 1:
                    elt = c.args[0].elts[0]
            if elt is None:
                raise Unsupported("the update of a cut-point vector is not appended as a single element")
            found = (I.ev(elt), st.lineno)
            continue
        I.stmt(st)
    if not seen_bin:
        raise Unsupported("no `bin_grad` (gradient on the bin logits, judged by C03-k) in the loop")
    if found is None:
        raise Unsupported("no update appended inside the loop over the features")
    upd, line = found
    if not isinstance(upd, Seq) or upd.scalar:
        raise Unsupported("the appended update is not a vector derived from bin_grad")
    return {"update": upd, "line": line}


def judge(pm):
    """-> list of (site, status, detail, where) with status in exact / different / undecided ; where = (method, line)"""
    return judge_full(pm)[0]


def judge_full(pm):
    """-> (results, forward facts | None, backward facts | None)"""
    out = []
    fw = bw = None
    try:
        fw = forward(pm)
    except Unsupported as e:
        out.append(("Douglas._leaf_binning: cuts -> biases", "undecided", str(e), ("_leaf_binning", None)))
    except Different as e:
        out.append(("Douglas._leaf_binning: cuts -> biases", "different", str(e), ("_leaf_binning", None)))
    if fw is not None:
        b = fw["bias"]
        if b.src != "c":
            out.append(("Douglas._leaf_binning: cuts -> biases", "undecided", "the bias does not derive from the cut points", ("_leaf_binning", fw["line"])))
            fw = None
        else:
            ok, det = is_neg_lower_strict(b)
            if b.out_perm:
                ok, det = False, "the biases are re-indexed after the cumulative sum"
            elif ok and b.in_perm != 1:
                ok, det = False, ("the cumulative sums are taken over the cut points in their stored order, not in increasing order: the bin boundaries are no longer the cut "
                                  "points when they are stored unsorted") if b.in_perm == 0 else "the cut points are re-indexed by the inverse of the sorting permutation"
            out.append(("Douglas._leaf_binning: cuts -> biases", "exact" if ok else "different", "b[j] = -(sum of the j smallest cut points), j = 0..n" if ok else det,
                        ("_leaf_binning", fw["line"])))
            if fw["temperature"] != f"{fw['self']}.temperature":
                out.append(("Douglas._leaf_binning: temperature", "different",
                            f"the logits are {'not scaled' if fw['temperature'] is None else 'divided by ' + fw['temperature']} inside the softmax, not divided by self.temperature "
                            "(the memberships must sharpen as the temperature goes to 0, and the backward pass divides the logit gradient by it)", ("_leaf_binning", fw["line"])))
            else:
                out.append(("Douglas._leaf_binning: temperature", "exact", "softmax(logits / self.temperature)", ("_leaf_binning", fw["line"])))
    try:
        bw = backward(pm)
    except Unsupported as e:
        out.append(("Douglas._compute_grads: cut-point update", "undecided", str(e), ("_compute_grads", None)))
    except Different as e:
        out.append(("Douglas._compute_grads: cut-point update", "different", str(e), ("_compute_grads", None)))
    if fw is not None and bw is not None:
        u = bw["update"]
        b = fw["bias"]
        site = "Douglas._compute_grads: cut-point update"
        if u.in_perm:
            out.append((site, "undecided", "the bin gradients are re-indexed before the sums", ("_compute_grads", bw["line"])))
        else:
            ok, det = is_minus_transpose(u, b)
            if ok and u.out_perm != -b.in_perm:
                names = {0: "not re-indexed", 1: "re-indexed by the sorting permutation", -1: "re-indexed by the inverse of the sorting permutation"}
                ok, det = False, (f"the forward pass reads the cut points {names[b.in_perm].replace('re-indexed', 'gathered')}, so the gradient of the sorted cuts must be "
                                  f"{names[-b.in_perm]}; it is {names[u.out_perm]}: each cut point receives the gradient of another cut point")
            out.append((site, "exact" if ok else "different", "update = -(d biases / d cuts)^T (sum over samples of the bin-logit gradients), mapped back to the stored order"
                        if ok else det, ("_compute_grads", bw["line"])))
    return out, fw, bw
