"""Small AST helpers shared by the engines (location, text replacement for in-memory mutants, matching)."""
import ast

from .pm import norm_src, AnalysisError
from .flow import attr_chain


def replace_node(unit, node, newtext):
    """Source text of `unit` with the text of `node` replaced by `newtext` (for in-memory mutants)."""
    lines = unit.src.split("\n")
    l0, c0, l1, c1 = node.lineno - 1, node.col_offset, node.end_lineno - 1, node.end_col_offset
    # col offsets are utf8 byte offsets
    b0 = lines[l0].encode()
    b1 = lines[l1].encode()
    head = b0[:c0].decode()
    tail = b1[c1:].decode()
    new = head + newtext + tail
    return "\n".join(lines[:l0] + new.split("\n") + lines[l1 + 1:])


def delete_stmt(unit, node):
    ind = " " * node.col_offset
    return replace_node(unit, node, "pass")


def qualname(unit, func):
    for q, f in unit.functions.items():
        if f is func:
            return q
    p = getattr(func, "_parent", None)
    names = [func.name]
    while p is not None:
        if isinstance(p, (ast.FunctionDef, ast.ClassDef)):
            names.append(p.name)
        p = getattr(p, "_parent", None)
    return ".".join(reversed(names))


def enclosing_stmt(node):
    n = node
    while n is not None and not isinstance(n, ast.stmt):
        n = getattr(n, "_parent", None)
    return n


def enclosing_def(node):
    n = getattr(node, "_parent", None)
    while n is not None and not isinstance(n, (ast.FunctionDef, ast.AsyncFunctionDef)):
        n = getattr(n, "_parent", None)
    return n


def calls_in(node, shallow=False):
    for n in ast.walk(node):
        if isinstance(n, ast.Call):
            yield n


def call_name(call):
    """dotted name of the callee if it is a Name/Attribute chain"""
    if not isinstance(call, ast.Call):
        return None
    return attr_chain(call.func) if isinstance(call.func, (ast.Attribute, ast.Name)) else None


def kwarg(call, name):
    for k in call.keywords:
        if k.arg == name:
            return k.value
    return None


def const(node):
    if isinstance(node, ast.Constant):
        return node.value
    if isinstance(node, ast.UnaryOp) and isinstance(node.op, ast.USub) and isinstance(node.operand, ast.Constant):
        return -node.operand.value
    raise ValueError("not a constant")


def is_const(node):
    try:
        const(node)
        return True
    except ValueError:
        return False


def self_name(func):
    a = func.args.posonlyargs + func.args.args
    return a[0].arg if a else None


def is_none_test(test, chain):
    """returns True if `test` is `<chain> is None`, False if `<chain> is not None`, else None"""
    if isinstance(test, ast.Compare) and len(test.ops) == 1 and isinstance(test.comparators[0], ast.Constant) \
            and test.comparators[0].value is None and attr_chain(test.left) == chain:
        if isinstance(test.ops[0], ast.Is):
            return True
        if isinstance(test.ops[0], ast.IsNot):
            return False
    return None


def parents(node):
    p = getattr(node, "_parent", None)
    while p is not None:
        yield p
        p = getattr(p, "_parent", None)


def loc(unit, node):
    return f"{unit.relpath}:{getattr(node, 'lineno', '?')}"


def reindent(text, col):
    """indent every line but the first by `col` spaces (for multi-line replacements placed at column col)"""
    lines = text.split("\n")
    return "\n".join([lines[0]] + [(" " * col + l if l.strip() else l) for l in lines[1:]])


def as_augassign(st):
    """`x = x + e` / `x = e + x` / `x = x - e` / `x = x * e` read as the augmented assignment it is; AugAssign returned unchanged; else None"""
    import ast
    if isinstance(st, ast.AugAssign):
        return st
    if isinstance(st, ast.Assign) and len(st.targets) == 1 and isinstance(st.value, ast.BinOp) and isinstance(st.value.op, (ast.Add, ast.Sub, ast.Mult)):
        t = ast.dump(st.targets[0]).replace("Store()", "Load()")
        l, r = st.value.left, st.value.right
        other = None
        if ast.dump(l) == t:
            other = r
        elif ast.dump(r) == t and isinstance(st.value.op, (ast.Add, ast.Mult)):
            other = l
        if other is not None:
            a = ast.AugAssign(target=st.targets[0], op=st.value.op, value=other)
            ast.copy_location(a, st)
            ast.fix_missing_locations(a)
            a._orig = st
            a._parent = getattr(st, "_parent", None)
            return a
    return None


def clone(n):
    """structural copy of an AST (fields and positions only: the parent links and cached canonical forms attached to the nodes of the
    program model are not followed - copy.deepcopy would copy the whole module through them)"""
    import ast
    if isinstance(n, ast.AST):
        new = type(n)()
        for f in n._fields:
            setattr(new, f, clone(getattr(n, f, None)))
        for a in n._attributes:
            if hasattr(n, a):
                setattr(new, a, getattr(n, a))
        return new
    if isinstance(n, list):
        return [clone(x) for x in n]
    return n


def deref_self_aliases(fn):
    """copy of a function in which the locals bound exactly once to a plain attribute of self (`mask = self.feature_mask`), and never
    re-bound, are replaced by that attribute wherever they are read, provided the function never stores that attribute"""
    import ast as _ast
    import copy as _copy
    binds = {}
    stores = {}
    for n in _ast.walk(fn):
        if isinstance(n, _ast.Name) and isinstance(n.ctx, _ast.Store):
            stores[n.id] = stores.get(n.id, 0) + 1
    attr_stores = {a.attr for a in _ast.walk(fn) if isinstance(a, _ast.Attribute) and isinstance(a.ctx, _ast.Store) and isinstance(a.value, _ast.Name) and a.value.id == "self"}
    for st in _ast.walk(fn):
        if isinstance(st, _ast.Assign) and len(st.targets) == 1 and isinstance(st.targets[0], _ast.Name) and isinstance(st.value, _ast.Attribute) \
                and isinstance(st.value.value, _ast.Name) and st.value.value.id == "self" and stores.get(st.targets[0].id) == 1 and st.value.attr not in attr_stores:
            binds[st.targets[0].id] = st.value
    if not binds:
        return fn
    new = clone(fn)

    class R(_ast.NodeTransformer):
        def visit_Name(self, n):
            if isinstance(n.ctx, _ast.Load) and n.id in binds:
                return _ast.copy_location(clone(binds[n.id]), n)
            return n
    new = R().visit(new)
    _ast.fix_missing_locations(new)
    for node in _ast.walk(new):
        for ch in _ast.iter_child_nodes(node):
            ch._parent = node
    return new


def inline_straightline_calls(fn, funcs):
    """copy of `fn` in which every call `g(a, b, ...)` of a module-level function g of `funcs` ({name: FunctionDef}) whose body is
    straight-line scalar code (assignments, augmented assignments, one final return; no other call of g's module, no control flow) is
    replaced by g's returned expression with the parameters substituted by the (side-effect free) arguments."""
    import ast as _ast
    import copy as _copy

    def as_expr(g):
        params = [a.arg for a in g.args.args]
        if g.args.vararg or g.args.kwarg or g.args.kwonlyargs:
            return None
        env = {}

        class S(_ast.NodeTransformer):
            def visit_Name(self, n):
                if isinstance(n.ctx, _ast.Load) and n.id in env:
                    return clone(env[n.id])
                return n
        body = [s_ for s_ in g.body if not isinstance(s_, _ast.Pass) and not (isinstance(s_, _ast.Expr) and isinstance(s_.value, _ast.Constant))]
        if not body or not isinstance(body[-1], _ast.Return) or body[-1].value is None:
            return None
        for st in body[:-1]:
            if isinstance(st, _ast.Assign) and len(st.targets) == 1 and isinstance(st.targets[0], _ast.Name):
                env[st.targets[0].id] = S().visit(clone(st.value))
            elif isinstance(st, _ast.AugAssign) and isinstance(st.target, _ast.Name) and st.target.id in env:
                env[st.target.id] = _ast.BinOp(left=env[st.target.id], op=st.op, right=S().visit(clone(st.value)))
            else:
                return None
        return params, S().visit(clone(body[-1].value))
    table = {}
    for name, g in funcs.items():
        if g is fn:
            continue
        r = as_expr(g)
        if r is not None:
            table[name] = r
    if not table or not any(isinstance(n, _ast.Call) and isinstance(n.func, _ast.Name) and n.func.id in table for n in _ast.walk(fn)):
        return fn
    new = clone(fn)

    class R(_ast.NodeTransformer):
        def visit_Call(self, n):
            n = self.generic_visit(n)
            if isinstance(n.func, _ast.Name) and n.func.id in table and not n.keywords:
                params, expr = table[n.func.id]
                if len(params) == len(n.args) and not any(isinstance(c_, _ast.Call) for a_ in n.args for c_ in _ast.walk(a_)):
                    m = dict(zip(params, n.args))

                    class P(_ast.NodeTransformer):
                        def visit_Name(self, x):
                            if isinstance(x.ctx, _ast.Load) and x.id in m:
                                return clone(m[x.id])
                            return x
                    return _ast.copy_location(P().visit(clone(expr)), n)
            return n
    new = R().visit(new)
    _ast.fix_missing_locations(new)
    for node in _ast.walk(new):
        for ch in _ast.iter_child_nodes(node):
            ch._parent = node
    return new
