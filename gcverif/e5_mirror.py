"""E5 - sibling / mirror comparison of statements under an explicit renaming."""
import ast
import copy
import re

from .pm import norm_src


class _Renamer(ast.NodeTransformer):
    def __init__(self, mapping, str_mapping=None, token_mapping=None):
        self.m = mapping
        self.sm = str_mapping or {}
        self.tm = token_mapping or []

    def _tok(self, s):
        for a, b in self.tm:
            # swap tokens a<->b inside identifiers (left <-> right)
            s = re.sub(a, "\0", s)
            s = re.sub(b, a, s)
            s = s.replace("\0", b)
        return s

    def visit_Name(self, node):
        nid = self.m.get(node.id, self._tok(node.id))
        return ast.copy_location(ast.Name(id=nid, ctx=node.ctx), node)

    def visit_Attribute(self, node):
        self.generic_visit(node)
        node.attr = self.m.get(node.attr, self._tok(node.attr))
        return node

    def visit_Constant(self, node):
        if isinstance(node.value, str) and node.value in self.sm:
            return ast.copy_location(ast.Constant(value=self.sm[node.value]), node)
        return node


def renamed(node, mapping, str_mapping=None, token_mapping=None):
    full = dict(mapping)
    for a, b in list(mapping.items()):
        full.setdefault(b, a)
    sm = dict(str_mapping or {})
    for a, b in list(sm.items()):
        sm.setdefault(b, a)
    n2 = copy.deepcopy(node)
    return ast.fix_missing_locations(_Renamer(full, sm, token_mapping).visit(n2))


def canon(node):
    """normal form modulo AugAssign == Assign(BinOp) and commutativity of + * & |"""
    n = copy.deepcopy(node)

    class C(ast.NodeTransformer):
        def visit_AugAssign(self, st):
            self.generic_visit(st)
            tgt_load = copy.deepcopy(st.target)
            for x in ast.walk(tgt_load):
                if hasattr(x, "ctx"):
                    x.ctx = ast.Load()
            return ast.Assign(targets=[st.target], value=ast.BinOp(left=tgt_load, op=st.op, right=st.value), lineno=0, col_offset=0)

        def visit_BinOp(self, b):
            self.generic_visit(b)
            if isinstance(b.op, (ast.Add, ast.Mult, ast.BitAnd, ast.BitOr)):
                ops = []

                def flat(x):
                    if isinstance(x, ast.BinOp) and type(x.op) is type(b.op):
                        flat(x.left)
                        flat(x.right)
                    else:
                        ops.append(x)
                flat(b)
                ops.sort(key=lambda x: norm_src(x))
                cur = ops[0]
                for o in ops[1:]:
                    cur = ast.BinOp(left=cur, op=b.op, right=o)
                return cur
            return b
    n = ast.fix_missing_locations(C().visit(n))
    return norm_src(n)


def mirror_equal(a, b, mapping, str_mapping=None, token_mapping=None):
    return canon(renamed(a, mapping, str_mapping, token_mapping)) == canon(b)


def mirror_diff(a, b, mapping, str_mapping=None, token_mapping=None):
    return canon(renamed(a, mapping, str_mapping, token_mapping)), canon(b)
