"""E5 - sibling / mirror comparison of statements under an explicit renaming."""
from .astutil import clone as _clone
import ast
import copy
import re

from .pm import norm_src


class _Renamer(ast.NodeTransformer):
    def __init__(self, mapping, str_mapping=None, token_mapping=None):
        self.m = mapping
        self.sm = str_mapping or {}
        self.tm = token_mapping or []

    def _tok(self, s):
        for a, b in self.tm:
            # swap tokens a<->b inside identifiers (left <-> right)
            s = re.sub(a, "\0", s)
            s = re.sub(b, a, s)
            s = s.replace("\0", b)
        return s

    def visit_Name(self, node):
        nid = self.m.get(node.id, self._tok(node.id))
        return ast.copy_location(ast.Name(id=nid, ctx=node.ctx), node)

    def visit_Attribute(self, node):
        self.generic_visit(node)
        node.attr = self.m.get(node.attr, self._tok(node.attr))
        return node

    def visit_Constant(self, node):
        if isinstance(node.value, str) and node.value in self.sm:
            return ast.copy_location(ast.Constant(value=self.sm[node.value]), node)
        return node


def renamed(node, mapping, str_mapping=None, token_mapping=None):
    full = dict(mapping)
    for a, b in list(mapping.items()):
        full.setdefault(b, a)
    sm = dict(str_mapping or {})
    for a, b in list(sm.items()):
        sm.setdefault(b, a)
    n2 = _clone(node)
    return ast.fix_missing_locations(_Renamer(full, sm, token_mapping).visit(n2))


def canon(node):
    """normal form modulo AugAssign == Assign(BinOp) and commutativity of + * & |"""
    n = _clone(node)

    class C(ast.NodeTransformer):
        def visit_AugAssign(self, st):
            self.generic_visit(st)
            tgt_load = _clone(st.target)
            for x in ast.walk(tgt_load):
                if hasattr(x, "ctx"):
                    x.ctx = ast.Load()
            return ast.Assign(targets=[st.target], value=ast.BinOp(left=tgt_load, op=st.op, right=st.value), lineno=0, col_offset=0)

        def visit_BinOp(self, b):
            self.generic_visit(b)
            if isinstance(b.op, (ast.Add, ast.Mult, ast.BitAnd, ast.BitOr)):
                ops = []

                def flat(x):
                    if isinstance(x, ast.BinOp) and type(x.op) is type(b.op):
                        flat(x.left)
                        flat(x.right)
                    else:
                        ops.append(x)
                flat(b)
                ops.sort(key=lambda x: norm_src(x))
                cur = ops[0]
                for o in ops[1:]:
                    cur = ast.BinOp(left=cur, op=b.op, right=o)
                return cur
            return b
    n = ast.fix_missing_locations(C().visit(n))
    return norm_src(n)


def mirror_equal(a, b, mapping, str_mapping=None, token_mapping=None):
    return canon(renamed(a, mapping, str_mapping, token_mapping)) == canon(b)


def mirror_diff(a, b, mapping, str_mapping=None, token_mapping=None):
    return canon(renamed(a, mapping, str_mapping, token_mapping)), canon(b)


def alpha_equal(stmts_a, stmts_b, fixed=None):
    """are the two statement sequences equal up to a consistent (bijective) renaming of names? `fixed` pins some names
    (e.g. self -> clf). Both sides are compared in the canonical spelling of pm.norm_src."""
    fixed = dict(fixed or {})
    fwd, bwd = dict(fixed), {v: k for k, v in fixed.items()}

    def canon_ast(st):
        try:
            return ast.parse(str(norm_src(st))).body[0]
        except (SyntaxError, IndexError):
            return st

    def eq(x, y):
        if type(x) is not type(y):
            return False
        if isinstance(x, ast.Name) and isinstance(x.ctx, ast.Store) and isinstance(y.ctx, ast.Store) and x.id not in fixed and y.id not in fixed.values():
            # a (re)binding starts a new version of the name on both sides: `g = f(g)` mirrors `h = f(g0)`
            old_y, old_x = fwd.pop(x.id, None), bwd.pop(y.id, None)
            if old_y is not None:
                bwd.pop(old_y, None)
            if old_x is not None:
                fwd.pop(old_x, None)
            fwd[x.id] = y.id
            bwd[y.id] = x.id
            return True
        if isinstance(x, ast.Assign):
            return eq(x.value, y.value) and eq(x.targets, y.targets)
        if isinstance(x, ast.For):
            return eq(x.iter, y.iter) and eq(x.target, y.target) and eq(x.body, y.body) and eq(x.orelse, y.orelse)
        if isinstance(x, ast.Name):
            if x.id in fwd:
                return fwd[x.id] == y.id
            if y.id in bwd:
                return False
            fwd[x.id] = y.id
            bwd[y.id] = x.id
            return True
        if isinstance(x, ast.AST):
            for f_ in x._fields:
                if f_ == "ctx":
                    continue
                if not eq(getattr(x, f_, None), getattr(y, f_, None)):
                    return False
            return True
        if isinstance(x, list):
            return len(x) == len(y) and all(eq(a, b) for a, b in zip(x, y))
        return x == y
    a = [canon_ast(s) for s in stmts_a]
    b = [canon_ast(s) for s in stmts_b]
    return len(a) == len(b) and all(eq(x, y) for x, y in zip(a, b))
