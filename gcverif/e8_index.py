"""E8 - index-notation term algebra: canonical forms of tensor expressions with symbolic sizes.

A numpy expression over arrays of symbolic shape (N samples, K clusters) denotes, entry by entry, a scalar term built from
tensor entries y[n,k], A[i,j], sums over named indices, rational powers, log, abs and sign. This module gives such terms a
normal form (Laurent polynomials with rational coefficients over canonical atoms), so that two source expressions denote the
same function iff their difference normalises to zero (up to the completeness of the rewrite rules, which is what the
clean-tree run establishes), and it differentiates terms symbolically. Nothing is evaluated on numbers: this is term
rewriting over the program text, in the spirit of value numbering / translation validation.

Atoms (hashable tuples):
  ('var', name, (i, j, ...))     entry of an input tensor; names in SYMMETRIC have their indices sorted
  ('sym', 'N')                   a size
  ('const', Fraction)            a rational that appears under a non-integer power
  ('delta', i, j)                Kronecker delta (i != j syntactically)
  ('log', atom)                  logarithm of a positive atom
  ('sum', ((i, dim), ...), mono) sum of a monomial over bound indices (canonically named '$<dim><level><pos>')
  ('paren', frozen_poly)         a multi-term polynomial raised to a non-natural power
  ('abs', frozen_poly), ('sign', frozen_poly)
  ('fn', name, args)             opaque function value (args: tuple of frozen polys / index names)
Index names carry their dimension as first letter ('N..'/'K..', bound: '$N..'/'$K..').
"""
import itertools
from fractions import Fraction as Fr

SYMMETRIC = {"A"}
POSITIVE_VARS = {"y"}
INDICATOR_VARS = {"mlo", "mhi"}        # 0/1-valued tensors (clip masks): m^2 = m
SIMPLEX = {"on": False, "var": "y"}     # rewrite sum_k y[n,k] -> 1 when on
_counter = itertools.count()


class Unsupported(Exception):
    pass


def fresh(dim):
    return f"{dim}t{next(_counter)}"


def dim_of(ix):
    return ix[1] if ix.startswith("$") else ix[0]


_akey_cache = {}


def akey(a):
    k = _akey_cache.get(a)
    if k is None:
        k = repr(a)
        _akey_cache[a] = k
    return k


# ------------------------------------------------------------------------------------------------ monomials
def mono_norm(items):
    """items: iterable of (atom, exp) -> canonical monomial tuple + rational coefficient produced by constant atoms"""
    d = {}
    for a, e in items:
        if e == 0:
            continue
        d[a] = d.get(a, 0) + e
    coef = Fr(1)
    out = []
    consts = {}
    for a, e in d.items():
        if e == 0:
            continue
        if a[0] == "var" and a[1] in INDICATOR_VARS:
            if e < 0:
                raise Unsupported("negative power of an indicator")
            e = Fr(1)
        if a[0] in ("step", "stepge", "ind"):
            if e < 0:
                raise Unsupported("negative power of an indicator")
            e = Fr(1)
        if a[0] == "lt":
            if e < 0:
                raise Unsupported("negative power of an indicator")
            e = Fr(1)
            if d.get(("lt", a[2], a[1]), 0) != 0 or d.get(("delta",) + tuple(sorted(a[1:3])), 0) != 0:
                return (), Fr(0)
        if a[0] in ("delta", "offdiag"):
            if e < 0:
                raise Unsupported("negative power of a Kronecker delta")
            e = Fr(1)
            if a[0] == "delta" and (d.get(("lt", a[1], a[2]), 0) != 0 or d.get(("lt", a[2], a[1]), 0) != 0):
                return (), Fr(0)
            if ("offdiag" if a[0] == "delta" else "delta", a[1], a[2]) in d and d[("offdiag" if a[0] == "delta" else "delta", a[1], a[2])] != 0:
                return (), Fr(0)
        if a[0] == "const":
            if e.denominator == 1:
                coef *= a[1] ** int(e)
                continue
            # canonical irrational constants: prime bases with exponents in (0, 1)
            for prime, mult in _factor(a[1]).items():
                ee = Fr(e) * mult
                ip = ee.numerator // ee.denominator
                fp = ee - ip
                coef *= Fr(prime) ** ip
                if fp:
                    consts[prime] = consts.get(prime, Fr(0)) + fp
            continue
        out.append((a, Fr(e)))
    for prime, ee in consts.items():
        ip = ee.numerator // ee.denominator
        fp = ee - ip
        coef *= Fr(prime) ** ip
        if fp:
            out.append((("const", Fr(prime)), fp))
    out.sort(key=lambda t: akey(t[0]))
    return tuple(out), coef


def _factor(c):
    """prime factorisation of a positive rational: {prime: multiplicity (negative for the denominator)}"""
    c = Fr(c)
    if c <= 0:
        raise Unsupported("irrational power of a non-positive constant")
    res = {}
    for n, sgn in ((c.numerator, 1), (c.denominator, -1)):
        p = 2
        while n > 1 and p * p <= n:
            while n % p == 0:
                res[p] = res.get(p, 0) + sgn
                n //= p
            p += 1
            if p > 10 ** 6:
                raise Unsupported("constant too large to factor")
        if n > 1:
            res[n] = res.get(n, 0) + sgn
    return res


class Poly:
    __slots__ = ("t",)

    def __init__(self, t=None):
        self.t = {m: c for m, c in (t or {}).items() if c != 0}

    # -- constructors
    @staticmethod
    def const(c):
        return Poly({(): Fr(c)})

    @staticmethod
    def atom(a, e=1):
        m, c = mono_norm([(a, Fr(e))])
        return Poly({m: c})

    @staticmethod
    def sym(name):
        return Poly.atom(("sym", name))

    # -- ring
    def __add__(self, o):
        t = dict(self.t)
        for m, c in o.t.items():
            t[m] = t.get(m, 0) + c
        return Poly(t)

    def __neg__(self):
        return Poly({m: -c for m, c in self.t.items()})

    def __sub__(self, o):
        return self + (-o)

    def __mul__(self, o):
        if isinstance(o, (int, Fr)):
            return Poly({m: c * o for m, c in self.t.items()})
        t = {}
        for m1, c1 in self.t.items():
            for m2, c2 in o.t.items():
                m, cc = mono_norm(m1 + m2)
                if m and any(a[0] == "delta" for a, _ in m):
                    r = _delta_simplify(m)
                    if r is None:
                        continue
                    m = r
                t[m] = t.get(m, 0) + c1 * c2 * cc
        return Poly(t)

    def is_zero(self):
        return not self.t

    def is_const(self):
        return all(m == () for m in self.t)

    def const_value(self):
        return self.t.get((), Fr(0))

    def single(self):
        """(coef, mono) if the polynomial is one monomial"""
        if len(self.t) == 1:
            (m, c), = self.t.items()
            return c, m
        return None

    def frozen(self):
        return tuple(sorted(self.t.items(), key=lambda kv: repr(kv[0])))

    @staticmethod
    def thaw(fz):
        return Poly(dict(fz))

    def __eq__(self, o):
        return isinstance(o, Poly) and self.t == o.t

    def __hash__(self):
        return hash(self.frozen())

    def indices(self):
        s = set()
        for m in self.t:
            for a, _ in m:
                s |= atom_indices(a)
        return s

    def __repr__(self):
        if not self.t:
            return "0"
        parts = []
        for m, c in sorted(self.t.items(), key=lambda kv: repr(kv[0])):
            ms = "*".join(show_atom(a) + ("" if e == 1 else f"^{e}") for a, e in m)
            parts.append((f"{c}" if not ms else (ms if c == 1 else f"{c}*{ms}")))
        return " + ".join(parts)


def show_atom(a):
    k = a[0]
    if k == "var":
        return f"{a[1]}[{','.join(a[2])}]"
    if k == "sym":
        return a[1]
    if k == "const":
        return f"<{a[1]}>"
    if k == "delta":
        return f"d({a[1]},{a[2]})"
    if k == "offdiag":
        return f"nd({a[1]},{a[2]})"
    if k == "lt":
        return f"lt({a[1]},{a[2]})"
    if k == "log":
        return f"log({show_atom(a[1])})"
    if k == "sum":
        body = "*".join(show_atom(x) + ("" if e == 1 else f"^{e}") for x, e in a[2])
        return f"Sum[{','.join(i for i, _ in a[1])}]({body})"
    if k in ("paren", "abs", "sign", "exp", "step", "stepge"):
        return f"{'' if k == 'paren' else k}({Poly.thaw(a[1])!r})"
    if k == "fni":
        return f"{a[1]}<{abs(hash(a[2])) % 10000}>"
    if k == "ind":
        return f"[{Poly.thaw(a[2])!r} {a[1]} 0]"
    if k == "fn":
        return f"{a[1]}({', '.join(repr(Poly.thaw(x)) if isinstance(x, tuple) else str(x) for x in a[2])})"
    return repr(a)


_idx_cache = {}


def atom_indices(a):
    """free index names occurring in an atom"""
    r = _idx_cache.get(a)
    if r is not None:
        return r
    k = a[0]
    if k == "var":
        r = frozenset(a[2])
    elif k in ("sym", "const", "fni"):
        r = frozenset()
    elif k in ("delta", "offdiag", "lt"):
        r = frozenset(a[1:3])
    elif k == "log":
        r = atom_indices(a[1])
    elif k == "sum":
        s = set()
        for x, _ in a[2]:
            s |= atom_indices(x)
        r = frozenset(s - {i for i, _ in a[1]})
    elif k == "ind":
        s = set()
        for m, _ in a[2]:
            for x, _e in m:
                s |= atom_indices(x)
        r = frozenset(s)
    elif k in ("paren", "abs", "sign", "exp", "step", "stepge"):
        s = set()
        for m, _ in a[1]:
            for x, _e in m:
                s |= atom_indices(x)
        r = frozenset(s)
    elif k == "fn":
        s = set()
        for x in a[2]:
            if isinstance(x, str):
                s.add(x)
            else:
                for m, _ in x:
                    for y, _e in m:
                        s |= atom_indices(y)
        bound = frozenset(a[3]) if len(a) > 3 else frozenset()
        r = frozenset(s - bound)
    else:
        raise Unsupported(f"atom kind {k}")
    _idx_cache[a] = r
    return r


def _delta_simplify(m):
    """a monomial containing deltas between FREE indices: substitute so that repeated information is removed.
    d(i,j) * f(i) is left as it is (no canonical choice needed for free indices) except d(i,j)*d(i,j) = d(i,j)."""
    return m


# ------------------------------------------------------------------------------------------------ positivity
def atom_positive(a):
    k = a[0]
    if k == "var":
        return a[1] in POSITIVE_VARS
    if k == "sym":
        return True
    if k == "const":
        return a[1] > 0
    if k == "sum":
        return all(atom_positive(x) for x, _ in a[2])
    if k == "paren":
        return all(c > 0 and all(atom_positive(x) for x, _ in m) for m, c in a[1])
    if k in ("abs", "exp"):
        return True
    return False


def poly_positive(p):
    return bool(p.t) and all(c > 0 and all(atom_positive(x) for x, _ in m) for m, c in p.t.items())


# ------------------------------------------------------------------------------------------------ substitution
def subst(p, mp):
    """simultaneous index substitution; re-normalises (deltas with equal indices, symmetric variables, sums)"""
    if not mp:
        return p
    res = Poly()
    for m, c in p.t.items():
        term = Poly.const(c)
        # indicator factors first: a monomial whose indicator vanishes is zero whatever its other (possibly singular) factors
        dead = False
        for a, e in m:
            if a[0] in ("offdiag", "lt") and mp.get(a[1], a[1]) == mp.get(a[2], a[2]):
                dead = True
        if dead:
            continue
        for a, e in m:
            if atom_indices(a) & mp.keys():
                term = term * mk_pow(subst_atom(a, mp), e)
            else:
                term = term * Poly({((a, e),): Fr(1)})
        res = res + term
    return res


def mk_var(name, idx):
    idx = tuple(idx)
    if name in SYMMETRIC:
        idx = tuple(sorted(idx))
    return ("var", name, idx)


def mk_delta(i, j):
    if i == j:
        return Poly.const(1)
    if dim_of(i) != dim_of(j):
        raise Unsupported(f"delta between indices of different dimensions {i},{j}")
    a, b = sorted((i, j))
    return Poly.atom(("delta", a, b))


def mk_lt(i, j):
    """indicator of i < j (positions along one axis)"""
    if i == j:
        return Poly()
    if dim_of(i) != dim_of(j):
        raise Unsupported("order between indices of different axes")
    return Poly.atom(("lt", i, j))


def mk_offdiag(i, j):
    """1 - delta(i, j) kept atomic: it guards factors that are singular on the diagonal"""
    if i == j:
        return Poly()
    a, b = sorted((i, j))
    return Poly.atom(("offdiag", a, b))


def subst_atom(a, mp):
    """-> Poly"""
    k = a[0]
    if k == "var":
        return Poly.atom(mk_var(a[1], [mp.get(i, i) for i in a[2]]))
    if k in ("sym", "const"):
        return Poly.atom(a)
    if k == "delta":
        return mk_delta(mp.get(a[1], a[1]), mp.get(a[2], a[2]))
    if k == "offdiag":
        return mk_offdiag(mp.get(a[1], a[1]), mp.get(a[2], a[2]))
    if k == "lt":
        return mk_lt(mp.get(a[1], a[1]), mp.get(a[2], a[2]))
    if k == "log":
        return mk_log(subst_atom(a[1], mp))
    if k == "sum":
        # bound names are '$..' and never keys or values of mp clash: values may be '$' names of an OUTER level only
        inner = {i for i, _ in a[1]}
        mp2 = {x: y for x, y in mp.items() if x not in inner}
        clash = inner & set(mp2.values())
        bound = list(a[1])
        body = Poly({a[2]: Fr(1)})
        if clash:
            ren = {i: fresh(d) for i, d in bound}
            body = subst(body, ren)
            bound = [(ren[i], d) for i, d in bound]
        body = subst(body, mp2)
        return mk_sum(bound, body)
    if k == "paren":
        return subst(Poly.thaw(a[1]), mp)
    if k == "abs":
        return mk_abs(subst(Poly.thaw(a[1]), mp))
    if k == "sign":
        return mk_sign(subst(Poly.thaw(a[1]), mp))
    if k == "exp":
        return mk_exp(subst(Poly.thaw(a[1]), mp))
    if k in ("step", "stepge"):
        return mk_step(subst(Poly.thaw(a[1]), mp), strict=(k == "step"))
    if k == "ind":
        return mk_ind(subst(Poly.thaw(a[2]), mp), a[1])
    if k == "fn":
        bound = set(a[3]) if len(a) > 3 else set()
        mp2 = {x: y for x, y in mp.items() if x not in bound}
        args = tuple(mp2.get(x, x) if isinstance(x, str) else subst(Poly.thaw(x), mp2).frozen() for x in a[2])
        return Poly.atom(("fn", a[1], args) + tuple(a[3:]))
    raise Unsupported(f"subst in atom {k}")


# ------------------------------------------------------------------------------------------------ powers, logs, abs
def _rat_pow(c, r):
    """c ** r for positive rational c and rational r -> Poly (exact root if it exists, else a 'const' atom)"""
    if r.denominator == 1:
        return Poly.const(c ** int(r))
    if c <= 0:
        raise Unsupported(f"non-integer power of the non-positive constant {c}")
    q = r.denominator
    def root(n):
        x = round(n ** (1.0 / q))
        for y in (x - 1, x, x + 1):
            if y >= 0 and y ** q == n:
                return y
        return None
    rn, rd = root(c.numerator), root(c.denominator)
    if rn is not None and rd is not None:
        return Poly.const(Fr(rn, rd) ** r.numerator)
    if c == 1:
        return Poly.const(1)
    return Poly.atom(("const", c), r)


def mk_pow(p, r):
    r = Fr(r)
    if r == 0:
        return Poly.const(1)
    if r == 1:
        return p
    if p.is_zero():
        if r > 0:
            return p
        raise Unsupported("division by the zero polynomial")
    s = p.single()
    if s is not None:
        c, m = s
        integer = r.denominator == 1
        res = Poly.const(1)
        rest = []
        for a, e in m:
            if integer or atom_positive(a):
                if a[0] == "const":
                    res = res * _rat_pow(a[1], e * r) if (e * r).denominator == 1 else res * Poly.atom(a, e * r)
                else:
                    res = res * Poly({((a, e * r),): Fr(1)}) if a[0] not in ("delta", "offdiag", "lt", "step", "stepge", "ind") else res * Poly.atom(a)      # an indicator under any power is itself on its support (the convention for guarded singular factors)
            else:
                rest.append((a, e))
        if integer:
            return res * Poly.const(c ** int(r))
        if rest:
            # a factor of unknown sign under a non-integer power
            if all(e.denominator == 1 and int(e) % 2 == 0 for _, e in rest) and (r * 2).denominator == 1:
                ab = Poly.const(1)
                for a, e in rest:
                    ab = ab * mk_pow(mk_abs(Poly.atom(a)), e * r)
                return res * ab * _rat_pow(c, r) if c > 0 else _unsup("power of a negative term")
            inner = Poly({tuple(rest): Fr(1)})
            if c < 0:
                inner, c = -inner, -c
            return res * _rat_pow(c, r) * Poly.atom(("paren", inner.frozen()), r)
        if c < 0:
            raise Unsupported("non-integer power of a negative monomial")
        return res * _rat_pow(c, r)
    if r.denominator == 1 and 0 < r <= 4:
        out = p
        for _ in range(int(r) - 1):
            out = out * p
        return out
    # case split on a Kronecker delta inside the base: f(d) = d * f|i=j + (1 - d) * f|d=0
    for m in p.t:
        for a, _e in m:
            if a[0] == "delta":
                i, j = a[1], a[2]
                keep, drop = (i, j) if not i.startswith("$") or j.startswith("$") else (j, i)
                p_eq = subst(p, {drop: keep})
                nd = ("offdiag", a[1], a[2])
                p_ne = Poly()
                for mm, cc in p.t.items():
                    if any(x == a for x, _ in mm):
                        continue
                    p_ne = p_ne + Poly({tuple((x, ee) for x, ee in mm if x != nd): cc})
                out = Poly()
                if not (p_eq.is_zero() and r > 0):
                    out = out + Poly.atom(a) * mk_pow(p_eq, r)
                if not (p_ne.is_zero() and r > 0):
                    out = out + mk_offdiag(i, j) * mk_pow(p_ne, r)
                return out
    if r.denominator != 1 or r < 0:
        # a base that vanishes identically on a diagonal (pairwise distance): its power is supported off the diagonal only
        idx = sorted(p.indices())
        for x in range(len(idx)):
            for y in range(x + 1, len(idx)):
                i, j = idx[x], idx[y]
                if dim_of(i) == dim_of(j) and not _has_offdiag_guard(p, i, j) and subst(p, {j: i}).is_zero():
                    if r < 0:
                        return mk_offdiag(i, j) * _paren_pow(p, r)
                    return mk_offdiag(i, j) * _paren_pow(p, r)
    return _paren_pow(p, r)


def _has_offdiag_guard(p, i, j):
    return False


def _paren_pow(p, r):
    coef, pulled, q = _content(p, allow_sign=(r.denominator == 1))
    res = Poly({pulled: Fr(1)}) if pulled else Poly.const(1)
    res = mk_pow(res, r) if pulled else res
    cp = _rat_pow(abs(coef), r) if coef > 0 or r.denominator == 1 else None
    if cp is None:
        raise Unsupported("non-integer power of a polynomial with negative content")
    if coef < 0:
        cp = cp * (Fr(-1) ** int(r))
    return res * cp * Poly.atom(("paren", q.frozen()), r)


def _unsup(msg):
    raise Unsupported(msg)


def _content(p, allow_sign, clear=False):
    """p = coef * pulled_monomial * q  with q canonical (first coefficient +-1 ...): returns (coef, pulled, q)"""
    items = sorted(p.t.items(), key=lambda kv: repr(kv[0]))
    c0 = items[0][1]
    coef = abs(c0)
    if allow_sign and c0 < 0:
        coef = -coef
    # positive atoms: pull out the smallest exponent over all monomials (0 where the atom is absent), so that the remaining
    # polynomial has no negative power of a positive atom and at least one monomial free of each of them
    atoms = {}
    for m, _ in items:
        for a, e in m:
            if atom_positive(a) and a[0] != "const":
                atoms.setdefault(a, []).append(e)
    common = {}
    for a, es in atoms.items():
        if len(es) == len(items):
            lo = min(es)
        elif clear:
            lo = min(es + [Fr(0)])
        else:
            lo = Fr(0)
        if lo != 0:
            common[a] = lo
    pulled = tuple(sorted(common.items(), key=lambda t: akey(t[0])))
    inv = Poly({tuple((a, -e) for a, e in pulled): Fr(1) / coef})
    q = p * inv
    return coef, pulled, q


def mk_log(p):
    s = p.single()
    if s is not None:
        c, m = s
        if c <= 0:
            raise Unsupported("log of a non-positive term")
        res = Poly()
        if c != 1:
            res = res + Poly.atom(("log", ("const", c)))
        for a, e in m:
            if a[0] == "const":
                res = res + Poly.atom(("log", a)) * e
            elif atom_positive(a):
                res = res + Poly.atom(("log", a)) * e
            else:
                raise Unsupported(f"log of a factor of unknown sign {show_atom(a)}")
        return res
    coef, pulled, q = _content(p, allow_sign=False)
    res = mk_log(Poly({pulled: Fr(coef)})) if (pulled or coef != 1) else Poly()
    return res + Poly.atom(("log", ("paren", q.frozen())))


def _sign_normal(p):
    """p = s * coef * pulled * q with q's first coefficient positive"""
    coef, pulled, q = _content(p, allow_sign=True, clear=True)
    return coef, pulled, q


def mk_ind(p, op=">="):
    """indicator of p >= 0 / p > 0 for a data-dependent quantity (a genuine branch of the computed function)"""
    if p.is_const():
        v = p.const_value()
        return Poly.const(1 if (v >= 0 if op == ">=" else v > 0) else 0)
    if poly_positive(p):
        return Poly.const(1)
    return Poly.atom(("ind", op, p.frozen()))


def mk_exp(p):
    if p.is_zero():
        return Poly.const(1)
    return Poly.atom(("exp", p.frozen()))


def mk_step(p, strict=True):
    """indicator of p > 0 (strict) or p >= 0; step(q * step(q)) = step(q)"""
    if poly_positive(p):
        return Poly.const(1)
    if strict and p.t:
        # p = q * step(q)  (a rectified value): positive exactly where q is
        common = None
        for m in p.t:
            st = {a for a, e in m if a[0] == "step"}
            common = st if common is None else (common & st)
        for sa in (common or ()):
            rest = Poly({tuple((a, e) for a, e in m if a != sa): c for m, c in p.t.items()})
            if rest == Poly.thaw(sa[1]):
                return Poly.atom(sa)
    s = p.single()
    if s is not None and strict:
        c, m = s
        steps = [(a, e) for a, e in m if a[0] == "step"]
        if len(steps) == 1 and c > 0:
            rest = Poly({tuple((a, e) for a, e in m if a[0] != "step"): c})
            q = Poly.thaw(steps[0][0][1])
            if rest == q or (rest * Poly.const(1 / c)) == q:
                return Poly.atom(steps[0][0])
        pos = [(a, e) for a, e in m if atom_positive(a)]
        if pos and c > 0:
            rest = Poly({tuple((a, e) for a, e in m if not atom_positive(a)): Fr(1)})
            if rest.is_const():
                return Poly.const(1)
            return mk_step(rest, strict)
    return Poly.atom(("step" if strict else "stepge", p.frozen()))


def mk_abs(p):
    if p.is_zero():
        return p
    s = p.single()
    if s is not None:
        c, m = s
        res = Poly.const(abs(c))
        for a, e in m:
            if atom_positive(a) or (e.denominator == 1 and int(e) % 2 == 0):
                res = res * Poly({((a, e),): Fr(1)})
            else:
                res = res * mk_pow(Poly.atom(("abs", Poly.atom(a).frozen())), e)
        return res
    if poly_positive(p):
        return p
    coef, pulled, q = _sign_normal(p)
    res = Poly({pulled: abs(coef)}) * Poly.atom(("abs", q.frozen()))
    # a quantity that vanishes identically on a diagonal (pairwise distance): supported off the diagonal only
    idx = sorted(p.indices())
    for x in range(len(idx)):
        for y in range(x + 1, len(idx)):
            i, j = idx[x], idx[y]
            if dim_of(i) == dim_of(j) and subst(p, {j: i}).is_zero():
                return mk_offdiag(i, j) * res
    return res


def mk_sign(p):
    if p.is_zero():
        return p
    if poly_positive(p):
        return Poly.const(1)
    s = p.single()
    if s is not None:
        c, m = s
        res = Poly.const(1 if c > 0 else -1)
        for a, e in m:
            if atom_positive(a) or (e.denominator == 1 and int(e) % 2 == 0):
                continue
            res = res * Poly.atom(("sign", Poly.atom(a).frozen()))
        return res
    coef, pulled, q = _sign_normal(p)
    res = Poly.atom(("sign", q.frozen())) * (1 if coef > 0 else -1)
    idx = sorted(p.indices())
    for x in range(len(idx)):
        for y in range(x + 1, len(idx)):
            i, j = idx[x], idx[y]
            if dim_of(i) == dim_of(j) and subst(p, {j: i}).is_zero():
                return mk_offdiag(i, j) * res
    return res


# ------------------------------------------------------------------------------------------------ sums
def mk_sum(bound, p):
    """sum over the bound indices [(name, dim)] of polynomial p -> Poly"""
    bound = list(bound)
    if not bound:
        return p
    res = Poly()
    for m, c in p.t.items():
        res = res + _sum_mono(bound, m) * c
    return res


def _level(atom):
    """nesting level of canonical bound names inside an atom"""
    k = atom[0]
    if k == "sum":
        return max([int(i[2:-1]) for i, _ in atom[1]] + [0])
    lv = 0
    if k == "log":
        return _level(atom[1])
    if k in ("paren", "abs", "sign", "exp", "step", "stepge"):
        for m, _ in atom[1]:
            for x, _e in m:
                lv = max(lv, _level(x))
    if k == "ind":
        for m, _ in atom[2]:
            for x, _e in m:
                lv = max(lv, _level(x))
    if k == "fn":
        for x in atom[2]:
            if not isinstance(x, str):
                for m, _ in x:
                    for y, _e in m:
                        lv = max(lv, _level(y))
    return lv


def _sum_mono(bound, m):
    """sum of one monomial (coefficient 1) over bound -> Poly"""
    bound = list(bound)
    bnames = {i for i, _ in bound}
    # 1. open nested sums (exponent 1) that depend on a bound index
    changed = True
    factors = list(m)
    while changed:
        changed = False
        for k, (a, e) in enumerate(factors):
            if a[0] == "sum" and e.denominator == 1 and 1 <= e <= 4 and (atom_indices(a) & bnames) and (
                    any(d == "K" for _, d in a[1]) or any(dim_of(i) == "N" for i in atom_indices(a) & bnames)):
                rest = Poly({tuple(factors[:k] + factors[k + 1:]): Fr(1)}) if len(factors) > 1 else Poly.const(1)
                inner_bound = []
                for _copy in range(int(e)):
                    ren = {i: fresh(d) for i, d in a[1]}
                    rest = rest * subst(Poly({a[2]: Fr(1)}), ren)
                    inner_bound += [(ren[i], d) for i, d in a[1]]
                return mk_sum(bound + inner_bound, rest)
    # 2. deltas with a bound index
    for k, (a, e) in enumerate(factors):
        if a[0] == "delta" and (set(a[1:3]) & bnames):
            x = a[1] if a[1] in bnames else a[2]
            y = a[2] if x == a[1] else a[1]
            rest = Poly({tuple(factors[:k] + factors[k + 1:]): Fr(1)}) if len(factors) > 1 else Poly.const(1)
            rest = subst(rest, {x: y})
            return mk_sum([(i, d) for i, d in bound if i != x], rest)
    # 3. dependency of factors on bound indices
    dep = [(a, e, atom_indices(a) & bnames) for a, e in factors]
    # simplex rule
    if SIMPLEX["on"]:
        for i, d in bound:
            if d != "K":
                continue
            users = [(a, e) for a, e, s in dep if i in s]
            if len(users) == 1:
                a, e = users[0]
                if a[0] == "var" and a[1] == SIMPLEX["var"] and e == 1 and a[2] and a[2][-1] == i and i not in a[2][:-1]:
                    rest = [(x, ee) for x, ee in factors if not (x == a and ee == e)]
                    return mk_sum([(j, dd) for j, dd in bound if j != i], Poly({mono_norm(rest)[0]: Fr(1)}))
    # simplex rule through a nested sum over samples: sum_k Sum_n[y[n,k] * f(n)] = Sum_n[f(n)]
    if SIMPLEX["on"]:
        for i, d in bound:
            if d != "K":
                continue
            users = [(k, a, e) for k, (a, e, sdep) in enumerate(dep) if i in sdep]
            if len(users) == 1 and users[0][1][0] == "sum" and users[0][2] == 1:
                k, a, e = users[0]
                inner_users = [(x, ex) for x, ex in a[2] if i in atom_indices(x)]
                if len(inner_users) == 1 and inner_users[0][0][0] == "var" and inner_users[0][0][1] == SIMPLEX["var"] and inner_users[0][1] == 1 \
                        and len(inner_users[0][0][2]) == 2 and inner_users[0][0][2][1] == i and inner_users[0][0][2][0] in {b for b, _ in a[1]}:
                    ren = {b: fresh(dd) for b, dd in a[1]}
                    body = subst(Poly({a[2]: Fr(1)}), ren)
                    rest = Poly({tuple(factors[:k] + factors[k + 1:]): Fr(1)}) if len(factors) > 1 else Poly.const(1)
                    return mk_sum(bound + [(ren[b], dd) for b, dd in a[1]], rest * body)
    # stratification: sums over samples are performed innermost (cluster indices free), then the sums over clusters
    bn = [(i, d) for i, d in bound if d == "N"]
    bk = [(i, d) for i, d in bound if d != "N"]
    if bn and bk:
        mm, cc = mono_norm(factors)
        return mk_sum(bk, _sum_mono(bn, mm) * cc)
    out = Poly.const(1)
    # unused bound indices -> size factor
    used = set()
    for _, _, s in dep:
        used |= s
    for i, d in bound:
        if i not in used:
            out = out * Poly.sym(d)
    live = [(i, d) for i, d in bound if i in used]
    free_f = [(a, e) for a, e, s in dep if not s]
    if free_f:
        out = out * Poly({mono_norm(free_f)[0]: mono_norm(free_f)[1]})
    dep_f = [(a, e, s) for a, e, s in dep if s]
    # 4. connected components
    comps = []
    for a, e, s in dep_f:
        merged = [c for c in comps if c[1] & s]
        for c in merged:
            comps.remove(c)
        fs = [(a, e)]
        ss = set(s)
        for c in merged:
            fs += c[0]
            ss |= c[1]
        comps.append((fs, ss))
    dims = dict(live)
    for fs, ss in comps:
        out = out * _canon_sum([(i, dims[i]) for i in sorted(ss)], fs)
    return out


def _canon_sum(bound, factors):
    lv = 1 + max([_level(a) for a, _ in factors] + [0])
    by_dim = {}
    for i, d in bound:
        by_dim.setdefault(d, []).append(i)
    best = None
    dims = sorted(by_dim)
    perms = [list(itertools.permutations(by_dim[d])) for d in dims]
    for combo in itertools.product(*perms):
        ren = {}
        for d, perm in zip(dims, combo):
            for pos, i in enumerate(perm):
                ren[i] = f"${d}{lv}{chr(97 + pos)}"
        body = subst(Poly({mono_norm(factors)[0]: Fr(1)}), ren)
        s = body.single()
        if s is None:
            raise Unsupported("renaming changed the shape of a sum body")
        key = repr(s[1])
        if best is None or key < best[0]:
            best = (key, s[1], ren, s[0])
    _, body, ren, coef = best
    b = tuple(sorted(((ren[i], d) for i, d in bound)))
    return Poly.atom(("sum", b, body)) * coef


# ------------------------------------------------------------------------------------------------ differentiation
def diff(p, tname, target):
    """d p / d tname[target...] with target a tuple of free index names"""
    res = Poly()
    for m, c in p.t.items():
        for k, (a, e) in enumerate(m):
            da = diff_atom(a, tname, target)
            if da.is_zero():
                continue
            rest = list(m[:k]) + list(m[k + 1:])
            if e != 1:
                rest.append((a, e - 1))
            mm, cc = mono_norm(rest)
            res = res + Poly({mm: c * e * cc}) * da
    return res


def diff_atom(a, tname, target):
    k = a[0]
    if k == "var":
        if a[1] != tname:
            return Poly()
        if tname in SYMMETRIC:
            raise Unsupported("derivative with respect to a symmetric tensor")
        out = Poly.const(1)
        for i, t in zip(a[2], target):
            out = out * mk_delta(i, t)
        return out
    if k in ("sym", "const", "delta", "offdiag", "lt", "sign", "step", "stepge", "ind"):
        return Poly()
    if k == "exp":
        return Poly.atom(a) * diff(Poly.thaw(a[1]), tname, target)
    if k == "log":
        return diff_atom(a[1], tname, target) * mk_pow(Poly.atom(a[1]), -1)
    if k == "sum":
        ren = {i: fresh(d) for i, d in a[1]}
        body = subst(Poly({a[2]: Fr(1)}), ren)
        return mk_sum([(ren[i], d) for i, d in a[1]], diff(body, tname, target))
    if k == "paren":
        return diff(Poly.thaw(a[1]), tname, target)
    if k == "abs":
        q = Poly.thaw(a[1])
        return mk_sign(q) * diff(q, tname, target)
    if k == "fn":
        h = FN_DERIV.get(a[1])
        if h is None:
            raise Unsupported(f"derivative of opaque function {a[1]}")
        return h(a, tname, target)
    raise Unsupported(f"derivative of atom {k}")


def _d_emd2(a, tname, target):
    """d emd2(p, q) = sum_i u_i dp_i + sum_i v_i dq_i with (u, v) the dual potentials of the same problem (inside a region
    where the optimal basis does not change)"""
    fa, fb = a[2][0], a[2][1]
    bnd = a[3][0]
    d = dim_of(bnd)
    i = fresh(d)
    pa = subst(Poly.thaw(fa), {bnd: i})
    pb = subst(Poly.thaw(fb), {bnd: i})
    u = Poly.atom(("fn", "emd2_u", (fa, fb, i)) + tuple(a[3:]))
    v = Poly.atom(("fn", "emd2_v", (fa, fb, i)) + tuple(a[3:]))
    return mk_sum([(i, d)], u * diff(pa, tname, target) + v * diff(pb, tname, target))


FN_DERIV = {"emd2": _d_emd2, "emd2_u": lambda a, t, g: Poly(), "emd2_v": lambda a, t, g: Poly()}


# ------------------------------------------------------------------------------------------------ zero test
def _paren_atoms(p):
    s = {}
    for m in p.t:
        for a, e in m:
            if a[0] == "paren":
                s.setdefault(a, []).append(e)
    return s


def reduce_relations(p, limit=6):
    """use paren(q)^n = q^n to bring every paren exponent into [0, 1): multiply the polynomial by paren^k first so that no
    exponent is negative (the zero-ness of p is unchanged)"""
    for _ in range(limit):
        pa = _paren_atoms(p)
        todo = None
        for a in sorted(pa, key=lambda x: -_level(x)):
            es = pa[a]
            present_everywhere = all(any(x == a for x, _ in m) for m in p.t)
            emin = min(es + ([] if present_everywhere else [Fr(0)]))
            emax = max(es)
            if emin < 0 or emax >= 1:
                todo = (a, emin)
                break
        if todo is None:
            return p
        a, emin = todo
        shift = -(emin.numerator // emin.denominator) if emin < 0 else 0   # ceil(-emin)
        q = Poly.thaw(a[1])
        res = Poly()
        for m, c in p.t.items():
            e = Fr(0)
            rest = []
            for x, ex in m:
                if x == a:
                    e = ex
                else:
                    rest.append((x, ex))
            e = e + shift
            ip = e.numerator // e.denominator
            fp = e - ip
            term = Poly({tuple(rest): c})
            if ip:
                term = term * mk_pow(q, ip)
            if fp:
                term = term * Poly.atom(a, fp)
            res = res + term
        p = res
    return p


def is_zero(p):
    if p.is_zero():
        return True
    return reduce_relations(p).is_zero()


def equal(a, b):
    return is_zero(a - b)


# ------------------------------------------------------------------------------------------------ finite instances
def cidx(dim, pos):
    return f"{dim}#{pos}"


def instantiate(p, sizes, env=None):
    """the term at concrete sizes: every sum is written out over the concrete index values, indicators are evaluated.
    env maps free index names to concrete ones (all free indices must be mapped). Still a symbolic term over the entries."""
    env = env or {}
    res = Poly()
    for m, c in p.t.items():
        dead = False
        for a, _e in m:
            if a[0] in ("delta", "offdiag", "lt"):
                i, j = env.get(a[1], a[1]), env.get(a[2], a[2])
                if "#" not in i or "#" not in j:
                    raise Unsupported(f"free index {a[1]}/{a[2]} not instantiated")
                pi_, pj_ = int(i.split("#")[1]), int(j.split("#")[1])
                val = {"delta": pi_ == pj_, "offdiag": pi_ != pj_, "lt": pi_ < pj_}[a[0]]
                if not val:
                    dead = True
        if dead:
            continue
        term = Poly.const(c)
        for a, e in m:
            if a[0] in ("delta", "offdiag", "lt"):
                continue
            term = term * mk_pow(_inst_atom(a, sizes, env), e)
            if term.is_zero():
                break
        res = res + term
    return res


def _inst_atom(a, sizes, env):
    k = a[0]
    if k == "var":
        idx = [env.get(i, i) for i in a[2]]
        if any("#" not in i for i in idx):
            raise Unsupported(f"free index in {show_atom(a)} not instantiated")
        return Poly.atom(mk_var(a[1], idx))
    if k == "sym":
        return Poly.const(sizes[a[1]]) if a[1] in sizes else Poly.atom(a)
    if k == "const":
        return Poly.atom(a)
    if k == "log":
        return mk_log(_inst_atom(a[1], sizes, env))
    if k == "sum":
        names = [i for i, _ in a[1]]
        ranges = [range(sizes[d]) for _, d in a[1]]
        body = Poly({a[2]: Fr(1)})
        out = Poly()
        for combo in itertools.product(*ranges):
            e2 = dict(env)
            for (i, d), v in zip(a[1], combo):
                e2[i] = cidx(d, v)
            out = out + instantiate(body, sizes, e2)
        return out
    if k == "paren":
        return instantiate(Poly.thaw(a[1]), sizes, env)
    if k == "abs":
        return mk_abs(instantiate(Poly.thaw(a[1]), sizes, env))
    if k == "sign":
        return mk_sign(instantiate(Poly.thaw(a[1]), sizes, env))
    if k == "ind":
        return mk_ind(instantiate(Poly.thaw(a[2]), sizes, env), a[1])
    if k == "exp":
        return mk_exp(instantiate(Poly.thaw(a[1]), sizes, env))
    if k in ("step", "stepge"):
        return mk_step(instantiate(Poly.thaw(a[1]), sizes, env), strict=(k == "step"))
    if k == "fn":
        bound = list(a[3]) if len(a) > 3 else []
        e2 = {x: y for x, y in env.items() if x not in bound}
        args = []
        for x in a[2]:
            if isinstance(x, str):
                args.append(e2.get(x, x))
            elif not bound:
                args.append((instantiate(Poly.thaw(x), sizes, e2).frozen(),))
            else:
                d = dim_of(bound[0])
                vec = []
                for v in range(sizes[d]):
                    e3 = dict(e2)
                    e3[bound[0]] = cidx(d, v)
                    vec.append(instantiate(Poly.thaw(x), sizes, e3).frozen())
                args.append(tuple(vec))
        return Poly.atom(("fni", a[1], tuple(args), tuple(a[4:])))
    raise Unsupported(f"instantiate {k}")


def replace_atoms(p, mapping):
    """replace atoms by polynomials, everywhere (also inside log / paren / abs / sign)"""
    res = Poly()
    for m, c in p.t.items():
        term = Poly.const(c)
        for a, e in m:
            term = term * mk_pow(_replace_atom(a, mapping), e)
        res = res + term
    return res


def _replace_atom(a, mapping):
    if a in mapping:
        return mapping[a]
    k = a[0]
    if k == "log":
        return mk_log(_replace_atom(a[1], mapping))
    if k == "paren":
        return replace_atoms(Poly.thaw(a[1]), mapping)
    if k == "abs":
        return mk_abs(replace_atoms(Poly.thaw(a[1]), mapping))
    if k == "sign":
        return mk_sign(replace_atoms(Poly.thaw(a[1]), mapping))
    if k == "ind":
        return mk_ind(replace_atoms(Poly.thaw(a[2]), mapping), a[1])
    if k == "fni":
        args = tuple(x if isinstance(x, str) else tuple(replace_atoms(Poly.thaw(fz), mapping).frozen() for fz in x) for x in a[2])
        return Poly.atom(("fni", a[1], args, a[3]))
    if k == "fn":
        raise Unsupported("replace_atoms in a symbolic function atom")
    if k == "sum":
        raise Unsupported("replace_atoms under a symbolic sum")
    return Poly.atom(a)


def on_simplex(p, sizes, var="y"):
    """substitute the last column of the row-stochastic matrix: y[n, K-1] = 1 - sum_{k < K-1} y[n, k]"""
    mp = {}
    last = sizes["K"] - 1
    for n in range(sizes["N"]):
        rest = Poly.const(1)
        for k in range(last):
            rest = rest - Poly.atom(mk_var(var, [cidx("N", n), cidx("K", k)]))
        mp[mk_var(var, [cidx("N", n), cidx("K", last)])] = rest
    return replace_atoms(p, mp)


def instance_zero(p, free, sizes_list=((2, 2), (3, 2), (2, 3)), simplex=True):
    """is the term zero at each of the small sizes (for every value of its free indices)? -> (True, None) or (False, witness)"""
    for n, k in sizes_list:
        sizes = {"N": n, "K": k}
        ranges = [range(sizes[dim_of(i)]) for i in free]
        for combo in itertools.product(*ranges):
            env = {i: cidx(dim_of(i), v) for i, v in zip(free, combo)}
            q = instantiate(p, sizes, env)
            if simplex:
                q = on_simplex(q, sizes)
            if not is_zero(q):
                return False, {"N": n, "K": k, "indices": env, "residual": repr(q)[:300]}
    return True, None


def replace_tensor(p, name, fn):
    """replace every entry name[i, j, ...] by fn((i, j, ...)) (a Poly), also under sums and inside atoms"""
    res = Poly()
    for m, c in p.t.items():
        term = Poly.const(c)
        for a, e in m:
            term = term * mk_pow(_replace_tensor_atom(a, name, fn), e)
        res = res + term
    return res


def _replace_tensor_atom(a, name, fn):
    k = a[0]
    if k == "var":
        return fn(a[2]) if a[1] == name else Poly.atom(a)
    if k in ("sym", "const", "delta", "offdiag", "lt"):
        return Poly.atom(a)
    if k == "log":
        return mk_log(_replace_tensor_atom(a[1], name, fn))
    if k == "sum":
        ren = {i: fresh(d) for i, d in a[1]}
        body = subst(Poly({a[2]: Fr(1)}), ren)
        return mk_sum([(ren[i], d) for i, d in a[1]], replace_tensor(body, name, fn))
    if k == "paren":
        return replace_tensor(Poly.thaw(a[1]), name, fn)
    if k == "abs":
        return mk_abs(replace_tensor(Poly.thaw(a[1]), name, fn))
    if k == "sign":
        return mk_sign(replace_tensor(Poly.thaw(a[1]), name, fn))
    if k == "exp":
        return mk_exp(replace_tensor(Poly.thaw(a[1]), name, fn))
    if k in ("step", "stepge"):
        return mk_step(replace_tensor(Poly.thaw(a[1]), name, fn), strict=(k == "step"))
    if k == "ind":
        return mk_ind(replace_tensor(Poly.thaw(a[2]), name, fn), a[1])
    if k == "fn":
        args = tuple(x if isinstance(x, str) else replace_tensor(Poly.thaw(x), name, fn).frozen() for x in a[2])
        if a[1] == "emd2" and len(args) >= 2 and args[0] == args[1]:
            return Poly()           # the transport cost between identical distributions is zero
        return Poly.atom(("fn", a[1], args) + tuple(a[3:]))
    raise Unsupported(f"replace_tensor in atom {k}")
