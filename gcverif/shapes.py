"""Undo behaviour-preserving restructurings, towards the shape of the reference tree.

The rules were written, and validated against seeded defects and benign twins, on the shape the functions have in the reference
tree (/repo HEAD when `ref_locals.json` was generated). A refactor that only re-spells the control flow or introduces a temporary
must not change any verdict. Before any rule runs, each function is brought back - by rewrites that are each semantics-preserving
on their own - to the spelling the reference uses:

  * a private helper that does not exist in the reference and is a plain "statements; return expr" function is inlined at its call sites;
  * an `if` whose test is the negation of the reference's test gets its branches swapped; guard clauses (`if c: return ...` followed
    by the rest) and `else` branches after a terminating body are converted into each other as the reference has them; a conditional
    expression and a two-branch assignment likewise;
  * a local that the reference does not have, bound once to a pure expression whose operands are not changed before its uses, is
    inlined (copy propagation);
  * `v = E; return v` is restored where the reference returns a temporary and the current code returns the expression;
  * `x.append(e)` / `x.extend(l)` and `x += [e]` / `x += l` are spelled as in the reference.

The reference table only chooses BETWEEN EQUIVALENT SPELLINGS; it never takes part in a judgement. Where a function cannot be
related to the reference nothing is rewritten and the rules see the code as written."""
import ast
import copy

from .renames import _ref, binding_sequence, qualnames

PURE_FUNCS = {"len", "int", "float", "abs", "min", "max", "tuple", "range", "bool", "str", "np.sqrt", "np.log", "np.exp", "np.abs", "np.prod", "np.sum", "np.mean", "np.max",
              "np.min", "np.arange", "np.ceil", "np.floor", "np.sign", "np.square", "np.transpose", "np.expand_dims", "np.ones", "np.zeros", "np.eye", "np.full",
              "np.array", "np.asarray", "np.argsort", "np.argmax", "np.argmin", "np.maximum", "np.minimum", "np.linalg.norm", "np.all", "np.any", "np.isnan", "np.log2",
              "np.cos", "np.sin", "np.outer", "np.dot", "np.matmul", "np.diag", "np.unique", "np.where", "np.clip", "np.logical_not", "np.logical_and", "np.logical_or",
              "isinstance", "getattr", "hasattr", "sorted", "sum", "list", "set", "enumerate", "zip", "math.sqrt", "math.ceil", "math.floor", "math.log"}
PURE_METHODS = {"sum", "min", "max", "mean", "prod", "any", "all", "argmax", "argmin", "transpose", "reshape", "astype", "copy", "dot", "flatten", "ravel", "squeeze", "get",
                "keys", "values", "items", "startswith", "endswith", "lower", "upper", "format", "tolist", "cumsum", "std", "var", "argsort", "nonzero", "item"}


def _ntext(node):
    from .pm import norm_src
    return str(norm_src(node))


def _strip(node):
    for n in ast.walk(node):
        for a in ("_ns", "_cn"):
            if hasattr(n, a):
                delattr(n, a)


def negate(test):
    t = copy.deepcopy(test)
    _strip(t)
    if isinstance(t, ast.UnaryOp) and isinstance(t.op, ast.Not):
        return t.operand
    if isinstance(t, ast.Compare) and len(t.ops) == 1:
        flip = {ast.Is: ast.IsNot, ast.IsNot: ast.Is, ast.Eq: ast.NotEq, ast.NotEq: ast.Eq, ast.In: ast.NotIn, ast.NotIn: ast.In}
        for k, v in flip.items():
            if type(t.ops[0]) is k:
                t.ops = [v()]
                return t
    return ast.copy_location(ast.UnaryOp(op=ast.Not(), operand=t), test)


def terminates(body):
    return bool(body) and isinstance(body[-1], (ast.Return, ast.Raise, ast.Continue, ast.Break))


def _is_if_assign(st):
    return (isinstance(st, ast.If) and len(st.body) == 1 and len(st.orelse) == 1 and isinstance(st.body[0], ast.Assign) and isinstance(st.orelse[0], ast.Assign)
            and len(st.body[0].targets) == 1 and len(st.orelse[0].targets) == 1 and ast.dump(st.body[0].targets[0]) == ast.dump(st.orelse[0].targets[0]))


def blocks_of(f):
    """every statement list of the function (nested functions / classes excluded)"""
    out = []

    def rec(stmts):
        out.append(stmts)
        for s in stmts:
            if isinstance(s, (ast.FunctionDef, ast.AsyncFunctionDef, ast.ClassDef)):
                continue
            for fld in ("body", "orelse", "finalbody"):
                b = getattr(s, fld, None)
                if isinstance(b, list) and b and isinstance(b[0], ast.stmt):
                    rec(b)
            if isinstance(s, ast.Try):
                for h in s.handlers:
                    rec(h.body)
    rec(f.body)
    return out


def own_nodes(f):
    """nodes of f without those of nested function / class definitions"""
    stack = [s_ for s_ in f.body if not isinstance(s_, (ast.FunctionDef, ast.AsyncFunctionDef, ast.ClassDef))]
    while stack:
        n = stack.pop()
        yield n
        for c in ast.iter_child_nodes(n):
            if isinstance(c, (ast.FunctionDef, ast.AsyncFunctionDef, ast.ClassDef, ast.Lambda)):
                continue
            stack.append(c)


# ------------------------------------------------------------------------------------------------ description (also used by the generator)
def describe(f):
    ifs, ifexps, growth = [], [], {}
    for n in own_nodes(f):
        if isinstance(n, ast.If):
            ifs.append({"test": _ntext(n.test), "else": bool(n.orelse), "body_term": terminates(n.body), "else_term": terminates(n.orelse), "assign": _is_if_assign(n),
                        "line": n.lineno})
        elif isinstance(n, ast.IfExp):
            ifexps.append(_ntext(n.test))
        elif isinstance(n, ast.Expr) and isinstance(n.value, ast.Call) and isinstance(n.value.func, ast.Attribute) and n.value.func.attr in ("append", "extend") \
                and len(n.value.args) == 1 and not n.value.keywords:
            growth.setdefault(_ntext(n.value.func.value), set()).add("method")
        elif isinstance(n, ast.AugAssign) and isinstance(n.op, ast.Add) and isinstance(n.value, (ast.List, ast.ListComp)):
            growth.setdefault(_ntext(n.target), set()).add("aug")
    for_iters = sorted(_ntext(n.iter) for n in own_nodes(f) if isinstance(n, ast.For))
    ifs.sort(key=lambda d: d["line"])
    for d in ifs:
        del d["line"]
    ret_temp = None
    body = [s for s in f.body]
    if len(body) >= 2 and isinstance(body[-1], ast.Return) and isinstance(body[-1].value, ast.Name) and isinstance(body[-2], ast.Assign) and len(body[-2].targets) == 1 \
            and isinstance(body[-2].targets[0], ast.Name) and body[-2].targets[0].id == body[-1].value.id:
        ret_temp = body[-1].value.id
    return {"ifs": ifs, "ifexps": sorted(ifexps), "growth": {k: sorted(v) for k, v in growth.items()}, "ret_temp": ret_temp, "for_iters": for_iters,
            "has_while": any(isinstance(n, ast.While) for n in own_nodes(f))}


# ------------------------------------------------------------------------------------------------ 1. helpers
def _helper_shape(fn):
    """(kind, stmts, ret expr, stored params) for an inlinable helper, else None. kind 'expr' (single return), 'stmts' (statements then one
    final return) or 'proc' (no return at all)"""
    if fn.decorator_list or fn.args.vararg or fn.args.kwarg or fn.args.kwonlyargs or fn.args.posonlyargs:
        return None
    body = list(fn.body)
    if body and isinstance(body[0], ast.Expr) and isinstance(body[0].value, ast.Constant) and isinstance(body[0].value.value, str):
        body = body[1:]
    if not body:
        return None
    has_ret = isinstance(body[-1], ast.Return) and body[-1].value is not None
    tail_candidate = False
    for n in ast.walk(fn):
        if isinstance(n, (ast.Yield, ast.YieldFrom, ast.Await, ast.Global, ast.Nonlocal, ast.FunctionDef, ast.AsyncFunctionDef, ast.Lambda)) and n is not fn:
            return None
        if isinstance(n, ast.Return) and not (has_ret and n is body[-1]):
            tail_candidate = True
        if isinstance(n, ast.Call) and isinstance(n.func, ast.Name) and n.func.id == fn.name:
            return None
    params = [a.arg for a in fn.args.args]
    stored = {n.id for n in ast.walk(fn) if isinstance(n, ast.Name) and isinstance(n.ctx, ast.Store) and n.id in params}
    if tail_candidate:
        # several returns: inlinable where the call is itself returned (`return helper(...)`), provided every path of the helper ends in a
        # return with a value or a raise (its returns then become the caller's returns)
        def _all_return(stmts):
            if not stmts:
                return False
            last = stmts[-1]
            if isinstance(last, ast.Return):
                return last.value is not None
            if isinstance(last, ast.Raise):
                return True
            if isinstance(last, ast.If):
                return _all_return(last.body) and _all_return(last.orelse)
            return False
        if not _all_return(body) or any(isinstance(n, ast.Return) and n.value is None for n in ast.walk(fn)):
            return None
        return ("tail", body, None, stored)
    if not has_ret:
        return ("proc", body, None, stored)
    return ("expr" if len(body) == 1 else "stmts", body[:-1], body[-1].value, stored)


def _simple(e):
    if isinstance(e, (ast.Name, ast.Constant)):
        return True
    if isinstance(e, ast.Attribute):
        return _simple(e.value)
    if isinstance(e, ast.Subscript):
        return _simple(e.value) and _simple(e.slice)
    if isinstance(e, ast.UnaryOp):
        return _simple(e.operand)
    return False


def _has_call(e):
    return any(isinstance(n, ast.Call) for n in ast.walk(e))


class _Subst(ast.NodeTransformer):
    def __init__(self, mapping):
        self.mapping = mapping

    def visit_Name(self, node):
        if node.id in self.mapping and isinstance(node.ctx, ast.Load):
            return ast.copy_location(copy.deepcopy(self.mapping[node.id]), node)
        if node.id in self.mapping and isinstance(self.mapping[node.id], ast.Name):
            return ast.copy_location(ast.Name(id=self.mapping[node.id].id, ctx=node.ctx), node)
        return node


def _bind_args(fn, call, is_method):
    params = [a.arg for a in fn.args.args]
    defaults = dict(zip(params[len(params) - len(fn.args.defaults):], fn.args.defaults))
    mapping = {}
    pos = params[1:] if is_method else params
    if len(call.args) > len(pos) or any(isinstance(a, ast.Starred) for a in call.args):
        return None
    for p, a in zip(pos, call.args):
        mapping[p] = a
    for k in call.keywords:
        if k.arg is None or k.arg not in pos or k.arg in mapping:
            return None
        mapping[k.arg] = k.value
    for p in pos:
        if p not in mapping:
            if p in defaults:
                mapping[p] = defaults[p]
            else:
                return None
    if is_method:
        mapping[params[0]] = call.func.value
    return mapping


def _defs_with_parents(tree):
    """[(qualname, function node, parent node)] for every function of the module (methods, nested functions)"""
    out = []

    def rec(owner, body, prefix):
        for s_ in body:
            if isinstance(s_, ast.ClassDef):
                rec(s_, s_.body, prefix + s_.name + ".")
            elif isinstance(s_, (ast.FunctionDef, ast.AsyncFunctionDef)):
                out.append((prefix + s_.name, s_, owner))
                rec(s_, s_.body, prefix + s_.name + ".")
    rec(tree, tree.body, "")
    return out


def _same_expr(a, b):
    return ast.dump(a, include_attributes=False).replace("Store()", "Load()") == ast.dump(b, include_attributes=False).replace("Store()", "Load()")


def inline_helpers(tree, relpath):
    """inline the helpers that the reference does not have: private module-level functions, private methods (called through self, also from
    subclasses defined in the module) and functions nested in the function that calls them"""
    ref = _ref().get(relpath)
    if ref is None or "__functions__" not in ref:
        return []
    known = set(ref["__functions__"])
    done = []
    for _round in range(3):
        progress = False
        for qn, fn, owner in _defs_with_parents(tree):
            if qn in known or fn.name.startswith("__"):
                continue
            nested = isinstance(owner, (ast.FunctionDef, ast.AsyncFunctionDef))
            is_method = isinstance(owner, ast.ClassDef)
            if not nested and not fn.name.startswith("_"):
                continue
            shape = _helper_shape(fn)
            if shape is None:
                continue
            kind, stmts, ret, stored = shape
            if is_method and not fn.args.args:
                continue

            def is_call(n):
                if not isinstance(n, ast.Call):
                    return False
                if is_method:
                    return isinstance(n.func, ast.Attribute) and n.func.attr == fn.name and isinstance(n.func.value, ast.Name) and n.func.value.id in ("self", "cls")
                return isinstance(n.func, ast.Name) and n.func.id == fn.name
            scope = owner if nested else tree
            sites = [n for n in ast.walk(scope) if is_call(n)]
            refs = [n for n in ast.walk(scope) if (isinstance(n, ast.Name) and n.id == fn.name and not is_method) or (isinstance(n, ast.Attribute) and n.attr == fn.name and is_method)]
            if not sites or len(refs) != len(sites):
                continue                     # used as a value somewhere (or never): leave
            hosts = [(owner.name, owner)] if nested else [(q_, f_) for q_, f_, _ in _defs_with_parents(tree) if f_ is not fn]
            plan, ok = [], True
            for host_qn, host in hosts:
                for block in blocks_of(host):
                    for i, st in enumerate(block):
                        if st is fn or isinstance(st, (ast.FunctionDef, ast.AsyncFunctionDef, ast.ClassDef)):
                            continue
                        if isinstance(st, (ast.If, ast.While)):
                            inner = [n for n in ast.walk(st.test) if is_call(n)]
                        elif isinstance(st, ast.For):
                            inner = [n for n in ast.walk(st.iter) if is_call(n)]
                        elif isinstance(st, (ast.With, ast.Try)):
                            inner = []
                        else:
                            inner = [n for n in ast.walk(st) if is_call(n)]
                        for c in inner:
                            if any(p[4] is c for p in plan):
                                continue
                            m = _bind_args(fn, c, is_method)
                            if m is None:
                                ok = False
                                continue
                            body_mod = ast.Module(body=list(stmts) + ([ast.Expr(value=ret)] if ret is not None else []), type_ignores=[])
                            uses = {p: sum(1 for n in ast.walk(body_mod) if isinstance(n, ast.Name) and n.id == p) for p in m}
                            if any(_has_call(a_) and uses[p] > 1 for p, a_ in m.items()):
                                ok = False
                                continue
                            if any(p in stored and not isinstance(m[p], ast.Name) for p in m):
                                ok = False
                                continue
                            if kind == "expr":
                                plan.append(("expr", block, i, st, c, m))
                            else:
                                if kind == "tail":
                                    if not (isinstance(st, ast.Return) and st.value is c and all(_simple(a_) for a_ in m.values())):
                                        ok = False
                                        continue
                                    plan.append((kind, block, i, st, c, m))
                                    continue
                                direct = (isinstance(st, (ast.Assign, ast.Return, ast.Expr)) and st.value is c) or (
                                    kind == "stmts" and isinstance(st, ast.If) and st.test is c and not any(
                                        isinstance(p_, ast.If) and p_.orelse == [st] for p_ in ast.walk(host)))
                                if not direct or not all(_simple(a_) for a_ in m.values()) or (kind == "proc" and not isinstance(st, ast.Expr)):
                                    ok = False
                                    continue
                                plan.append((kind, block, i, st, c, m))
            if not ok or len(plan) != len(sites):
                continue
            for entry in plan:
                k, block, i, st, c, m = entry
                if k == "expr":
                    _replace_child(st, c, _Subst(m).visit(copy.deepcopy(ret)))
                    continue
                new_stmts = [_Subst(m).visit(copy.deepcopy(s_)) for s_ in stmts]
                for s_ in new_stmts:
                    for n in ast.walk(s_):
                        if hasattr(n, "lineno"):
                            n.lineno = st.lineno
                            n.end_lineno = getattr(st, "end_lineno", st.lineno)
                tail = []
                if k == "stmts" and not isinstance(st, ast.Expr):
                    new_ret = _Subst(m).visit(copy.deepcopy(ret))
                    if isinstance(st, ast.If):
                        st.test = ast.copy_location(new_ret, c)
                    else:
                        _replace_child(st, c, new_ret)
                    tail = [st]
                    if isinstance(st, ast.Assign) and len(st.targets) == 1:
                        t = st.targets[0]
                        if _same_expr(t, st.value):
                            tail = []            # x = x / (a, b) = (a, b): the helper's locals carry the caller's names
                        elif isinstance(t, ast.Tuple) and isinstance(st.value, ast.Tuple) and len(t.elts) == len(st.value.elts):
                            pairs = [(a_, b_) for a_, b_ in zip(t.elts, st.value.elts) if not _same_expr(a_, b_)]
                            if not pairs:
                                tail = []
                            else:
                                # (a, b, c) = (x, b, z): plain assignments for the positions that differ (no target is read by a later value)
                                tnames = {ast.unparse(a_) for a_, _ in pairs}
                                if not any(isinstance(n, ast.Name) and n.id in tnames for _, b_ in pairs for n in ast.walk(b_)):
                                    tail = [ast.copy_location(ast.Assign(targets=[a_], value=b_, lineno=st.lineno), st) for a_, b_ in pairs]
                idx = next(j for j, x in enumerate(block) if x is st)
                block[idx:idx + 1] = new_stmts + tail
                if not block:
                    block.append(ast.copy_location(ast.Pass(), st))
            for node in ast.walk(tree):
                b_ = getattr(node, "body", None)
                if isinstance(b_, list) and any(x is fn for x in b_):
                    b_[:] = [x for x in b_ if x is not fn]
                    if not b_:
                        b_.append(ast.Pass())
            done.append(qn)
            progress = True
            break
        if not progress:
            break
    if done:
        ast.fix_missing_locations(tree)
    return done


def _replace_child(parent, old, new):
    for node in ast.walk(parent):
        for fld, val in ast.iter_fields(node):
            if val is old:
                setattr(node, fld, ast.copy_location(new, old))
                return True
            if isinstance(val, list):
                for j, x in enumerate(val):
                    if x is old:
                        val[j] = ast.copy_location(new, old)
                        return True
    return False


# ------------------------------------------------------------------------------------------------ 2. branches
def align_branches(f, r):
    ref_ifs = list(r.get("ifs", []))
    ref_ifexps = list(r.get("ifexps", []))
    used = [False] * len(ref_ifs)
    changed = []

    def find(text):
        for j, d in enumerate(ref_ifs):
            if not used[j] and d["test"] == text:
                return j
        return None

    def do_block(block):
        i = 0
        while i < len(block):
            st = block[i]
            if isinstance(st, (ast.FunctionDef, ast.AsyncFunctionDef, ast.ClassDef)):
                i += 1
                continue
            if isinstance(st, ast.If):
                T, NT = _ntext(st.test), _ntext(negate(st.test))
                j = find(T)
                swapped = False
                if j is None:
                    j = find(NT)
                    if j is not None:
                        rest = block[i + 1:]
                        if st.orelse:
                            st.test = negate(st.test)
                            st.body, st.orelse = st.orelse, st.body
                            swapped = True
                        elif terminates(st.body) and rest and not any(isinstance(x, (ast.FunctionDef, ast.ClassDef)) for x in rest):
                            st.test = negate(st.test)
                            st.body, st.orelse = rest, st.body
                            del block[i + 1:]
                            swapped = True
                        else:
                            j = None
                        if swapped:
                            changed.append(("swap", st.lineno))
                if j is None and _is_if_assign(st) and (T in ref_ifexps or NT in ref_ifexps):
                    # two-branch assignment where the reference has a conditional expression
                    a, b = st.body[0].value, st.orelse[0].value
                    test = st.test
                    if T not in ref_ifexps:
                        test, a, b = negate(test), b, a
                    new = ast.copy_location(ast.Assign(targets=st.body[0].targets, value=ast.copy_location(ast.IfExp(test=test, body=a, orelse=b), st), lineno=st.lineno), st)
                    block[i] = new
                    changed.append(("ifexp", st.lineno))
                    i += 1
                    continue
                if j is not None:
                    used[j] = True
                    d = ref_ifs[j]
                    rest = block[i + 1:]
                    if d["else"] and not st.orelse and terminates(st.body) and rest:
                        st.orelse = rest
                        del block[i + 1:]
                        changed.append(("unflatten", st.lineno))
                    elif not d["else"] and st.orelse and terminates(st.body):
                        block[i + 1:i + 1] = st.orelse
                        st.orelse = []
                        changed.append(("flatten", st.lineno))
                    elif not d["else"] and st.orelse and terminates(st.orelse) and not terminates(st.body) and d["body_term"] is False:
                        pass
            elif isinstance(st, ast.Assign) and isinstance(st.value, ast.IfExp) and len(st.targets) == 1:
                T, NT = _ntext(st.value.test), _ntext(negate(st.value.test))
                if T not in ref_ifexps and NT not in ref_ifexps:
                    j = find(T)
                    jn = find(NT) if j is None else None
                    k = j if j is not None else jn
                    if k is not None and ref_ifs[k]["assign"]:
                        used[k] = True
                        e = st.value
                        test, a, b = (e.test, e.body, e.orelse) if j is not None else (negate(e.test), e.orelse, e.body)
                        mk = lambda v: ast.copy_location(ast.Assign(targets=copy.deepcopy(st.targets), value=v, lineno=st.lineno), st)
                        block[i] = ast.copy_location(ast.If(test=test, body=[mk(a)], orelse=[mk(b)]), st)
                        changed.append(("ifstmt", st.lineno))
            # recurse
            st = block[i]
            for fld in ("body", "orelse", "finalbody"):
                b = getattr(st, fld, None)
                if isinstance(b, list) and b and isinstance(b[0], ast.stmt) and not isinstance(st, (ast.FunctionDef, ast.AsyncFunctionDef, ast.ClassDef)):
                    do_block(b)
            if isinstance(st, ast.Try):
                for h in st.handlers:
                    do_block(h.body)
            i += 1
    do_block(f.body)
    # polarity of the remaining conditional expressions
    for n in own_nodes(f):
        if isinstance(n, ast.IfExp):
            T, NT = _ntext(n.test), _ntext(negate(n.test))
            if T not in ref_ifexps and NT in ref_ifexps:
                n.test = negate(n.test)
                n.body, n.orelse = n.orelse, n.body
                changed.append(("ifexp-swap", n.lineno))
    return changed


# ------------------------------------------------------------------------------------------------ 3. temporaries
def _pure(e):
    for n in ast.walk(e):
        if isinstance(n, ast.Call):
            fn = n.func
            name = ast.unparse(fn)
            if name in PURE_FUNCS:
                continue
            if isinstance(fn, ast.Attribute) and fn.attr in PURE_METHODS and not (isinstance(fn.value, ast.Name) and fn.value.id in ("random_state", "generator", "rng")):
                continue
            return False
        if isinstance(n, (ast.Lambda, ast.Yield, ast.YieldFrom, ast.Await, ast.NamedExpr, ast.Starred)):
            return False
        if isinstance(n, (ast.ListComp, ast.SetComp, ast.DictComp, ast.GeneratorExp)):
            return False
    return True


def _paths(e):
    """dotted / subscripted access paths read by e, as root-first text prefixes: self.depths[father] -> {'self', 'self.depths'}"""
    out = set()
    for n in ast.walk(e):
        if isinstance(n, ast.Name):
            out.add(n.id)
        elif isinstance(n, ast.Attribute):
            try:
                out.add(ast.unparse(n))
            except Exception:
                pass
    return out


def _mutations(st):
    """access paths (text) that the statement may modify: assignment targets (their base paths), receivers of method calls in a bare expression statement,
    first argument of np.copyto / np.fill_diagonal / np.put"""
    out = set()

    def base(t):
        while isinstance(t, ast.Subscript):
            t = t.value
        return ast.unparse(t) if isinstance(t, (ast.Name, ast.Attribute)) else None
    for n in ast.walk(st):
        if isinstance(n, (ast.Assign, ast.AugAssign, ast.AnnAssign)):
            tg = n.targets if isinstance(n, ast.Assign) else [n.target]
            for t in tg:
                for x in ([t] if not isinstance(t, (ast.Tuple, ast.List)) else t.elts):
                    b = base(x)
                    if b:
                        out.add(b)
        elif isinstance(n, (ast.For, ast.AsyncFor)):
            for x in ast.walk(n.target):
                if isinstance(x, ast.Name):
                    out.add(x.id)
        elif isinstance(n, ast.Expr) and isinstance(n.value, ast.Call):
            fn = n.value.func
            if isinstance(fn, ast.Attribute):
                name = ast.unparse(fn)
                if name in ("np.copyto", "np.fill_diagonal", "np.put", "np.place", "np.putmask") and n.value.args:
                    b = base(n.value.args[0])
                    if b:
                        out.add(b)
                elif not name.startswith(("np.", "warnings.")):
                    b = base(fn.value)
                    if b:
                        out.add(b)
    return out


def split_tuple_assignments(f, ref_names):
    """a, b = x, y  ->  a = x; b = y   when a target is a local the reference does not have and no target is read by a value"""
    n = 0
    for block in blocks_of(f):
        i = 0
        while i < len(block):
            st = block[i]
            if isinstance(st, ast.Assign) and len(st.targets) == 1 and isinstance(st.targets[0], ast.Tuple) and isinstance(st.value, ast.Tuple) \
                    and len(st.targets[0].elts) == len(st.value.elts) and all(isinstance(t, ast.Name) for t in st.targets[0].elts) \
                    and any(t.id not in ref_names for t in st.targets[0].elts):
                tn = {t.id for t in st.targets[0].elts}
                if not any(isinstance(x, ast.Name) and x.id in tn for v in st.value.elts for x in ast.walk(v)):
                    block[i:i + 1] = [ast.copy_location(ast.Assign(targets=[t], value=v, lineno=st.lineno), st) for t, v in zip(st.targets[0].elts, st.value.elts)]
                    n += 1
                    continue
            i += 1
    if n:
        ast.fix_missing_locations(f)
    return n


def inline_temporaries(f, r):
    split_tuple_assignments(f, {n for n, _ in r.get("locals", [])})
    seq, params = binding_sequence(f)
    ref_names = [n for n, _ in r.get("locals", [])]
    cur_names = [n for n, _ in seq]
    new = [n for n in cur_names if n not in ref_names]
    if not new:
        return []
    k = len(cur_names) - len(ref_names)
    stmts_in_order = sorted((s for s in own_nodes(f) if isinstance(s, ast.stmt)), key=lambda s: (s.lineno, s.col_offset))
    from .flow import CFG
    try:
        cfg = CFG(f)
    except Exception:
        return []

    def candidate(v):
        stores = [n for n in own_nodes(f) if isinstance(n, ast.Name) and n.id == v and isinstance(n.ctx, ast.Store)]
        if len(stores) != 1:
            return None
        d = next((s for s in stmts_in_order if isinstance(s, ast.Assign) and len(s.targets) == 1 and s.targets[0] is stores[0]), None)
        value = d.value if d is not None else None
        keep_def = False
        if d is None:
            # a, b = X.shape : b stands for X.shape[1]
            d = next((s for s in stmts_in_order if isinstance(s, ast.Assign) and len(s.targets) == 1 and isinstance(s.targets[0], ast.Tuple)
                      and any(e is stores[0] for e in s.targets[0].elts) and isinstance(s.value, ast.Attribute) and s.value.attr == "shape"), None)
            if d is None:
                return None
            pos = next(i for i, e in enumerate(d.targets[0].elts) if e is stores[0])
            value = ast.copy_location(ast.Subscript(value=copy.deepcopy(d.value), slice=ast.Constant(value=pos), ctx=ast.Load()), d.value)
            ast.fix_missing_locations(value)
            keep_def = True
        if not _pure(value):
            return None
        # a temporary that holds a freshly built object and is then modified in place (v.remove(x), v[i] = ..., v += ...) is a variable with state,
        # not a name for a value: re-evaluating its defining expression at each use would build a new object each time
        if not isinstance(value, (ast.Name, ast.Attribute, ast.Constant)) and any(
                v in _mutations(s_) for s_ in ast.walk(f) if isinstance(s_, ast.stmt) and s_ is not d and not isinstance(s_, (ast.FunctionDef, ast.ClassDef, ast.For, ast.While, ast.If, ast.With, ast.Try))):
            return None
        uses = [n for n in own_nodes(f) if isinstance(n, ast.Name) and n.id == v and isinstance(n.ctx, ast.Load)]
        if any((u.lineno, u.col_offset) < (d.lineno, d.col_offset) for u in uses):
            return None
        paths = _paths(value)
        # nested functions / lambdas reading v: only if nothing the expression reads is ever re-bound or modified in f after the definition
        nested_uses = [n for fn in ast.walk(f) if isinstance(fn, (ast.Lambda, ast.FunctionDef)) and fn is not f for n in ast.walk(fn)
                       if isinstance(n, ast.Name) and n.id == v]
        if nested_uses:
            if any(isinstance(n.ctx, ast.Store) for n in nested_uses):
                return None
            for s in ast.walk(f):
                if isinstance(s, ast.stmt) and s is not d and (_mutations(s) & paths) and not (isinstance(s, ast.FunctionDef) or s.lineno < d.lineno):
                    return None
                if isinstance(s, (ast.FunctionDef, ast.Lambda)) and s is not f:
                    a = s.args
                    if {x.arg for x in a.args + a.kwonlyargs + a.posonlyargs} & {p.split(".")[0] for p in paths}:
                        return None
            uses = uses + [n for n in nested_uses if isinstance(n.ctx, ast.Load)]
        if not uses:
            return None
        # no statement that may change what the expression reads can reach a use without passing through the definition again
        use_stmts = set()
        for stn in cfg.nodes:
            for h in CFG.header_exprs(stn):
                if any(x is u for x in ast.walk(h) for u in uses):
                    use_stmts.add(stn)
        if d not in cfg.nodes:
            return None
        for stn in cfg.nodes:
            if stn is d:
                continue
            muts = set()
            if isinstance(stn, ast.For):
                muts = {x.id for x in ast.walk(stn.target) if isinstance(x, ast.Name)}
            elif not isinstance(stn, (ast.If, ast.While, ast.With, ast.Try, ast.FunctionDef, ast.ClassDef)):
                muts = _mutations(stn)
            if not (muts & paths):
                continue
            reach = cfg.reachable_from(stn, avoid=(d,))
            if use_stmts & reach:
                return None
        return d, uses, value, keep_def

    cands = {v: candidate(v) for v in new}
    good = [v for v in new if cands[v] is not None]
    if not good:
        return []
    chosen = None
    if set(cur_names) - set(good) <= set(ref_names) or set(ref_names) <= set(cur_names):
        # every other local is a local of the reference: the new ones are added temporaries (other locals may have disappeared)
        good = sorted(good, key=lambda v_: cands[v_][0].lineno)
        for v in good:
            d, uses, value, keep_def = cands[v]
            for u in uses:
                _replace_in(f, u, copy.deepcopy(value))
            for block in blocks_of(f):
                if d in block and not keep_def:
                    block.remove(d)
                    if not block:
                        block.append(ast.copy_location(ast.Pass(), d))
        ast.fix_missing_locations(f)
        return good
    if len(good) < k or k <= 0:
        # the numbers of locals do not tell (one temporary added, another removed, a third renamed): a new local whose binding statement has a
        # shape that NO local of the reference has cannot be a renamed local of the reference - it is an added temporary and is inlined
        try:
            from .renames import binding_skeletons
            sk = dict(zip([n for n, _ in seq], binding_skeletons(f)))
            ref_sk = set(r.get("skel") or [])
        except Exception:
            sk, ref_sk = {}, set()
        added = [v for v in good if ref_sk and sk.get(v) is not None and sk[v] not in ref_sk and isinstance(cands[v][2], (ast.Call, ast.Attribute, ast.Subscript))
                 and not cands[v][3]]
        for v in sorted(added, key=lambda v_: cands[v_][0].lineno):
            d, uses, value, keep_def = cands[v]
            for u in uses:
                _replace_in(f, u, copy.deepcopy(value))
            for block in blocks_of(f):
                if d in block:
                    block.remove(d)
                    if not block:
                        block.append(ast.copy_location(ast.Pass(), d))
        if added:
            ast.fix_missing_locations(f)
        return added
    if len(good) == k:
        chosen = good
    else:
        import itertools
        best = None
        combos = list(itertools.islice(itertools.combinations(good, k), 300))
        for combo in combos:
            rest = [(n, kd) for n, kd in seq if n not in combo]
            if [kd for _, kd in rest] != [kd for _, kd in r["locals"]]:
                continue
            score = sum(1 for (n, _), (rn, _) in zip(rest, r["locals"]) if n == rn)
            if best is None or score > best[0]:
                best = (score, combo)
        if best is not None:
            chosen = list(best[1])
    if not chosen:
        return []
    rest = [(n, kd) for n, kd in seq if n not in chosen]
    if [kd for _, kd in rest] != [kd for _, kd in r["locals"]]:
        return []
    for v in sorted(chosen, key=lambda v_: cands[v_][0].lineno):
        d, uses, value, keep_def = cands[v]
        # uses inside the definition of another chosen temporary are replaced as well (they are nodes of the same tree)
        for u in uses:
            _replace_in(f, u, copy.deepcopy(value))
        for block in blocks_of(f):
            if d in block and not keep_def:
                block.remove(d)
                if not block:
                    block.append(ast.copy_location(ast.Pass(), d))
    ast.fix_missing_locations(f)
    return chosen


def _replace_in(f, old, new):
    for node in ast.walk(f):
        for fld, val in ast.iter_fields(node):
            if val is old:
                setattr(node, fld, ast.copy_location(new, old))
                _fix_lines(new, old)
                return
            if isinstance(val, list):
                for j, x in enumerate(val):
                    if x is old:
                        val[j] = ast.copy_location(new, old)
                        _fix_lines(new, old)
                        return


def _fix_lines(new, old):
    for n in ast.walk(new):
        if hasattr(n, "lineno"):
            n.lineno = old.lineno
            n.end_lineno = getattr(old, "end_lineno", old.lineno)
            n.col_offset = old.col_offset
            n.end_col_offset = getattr(old, "end_col_offset", old.col_offset)


# ------------------------------------------------------------------------------------------------ 4. returned temporary, 5. list growth
def restore_returned_temp(f, r):
    v = r.get("ret_temp")
    if not v:
        return False
    names = {n.id for n in ast.walk(f) if isinstance(n, ast.Name)} | {a.arg for a in f.args.args}
    last = f.body[-1] if f.body else None
    if v in names or not isinstance(last, ast.Return) or last.value is None or isinstance(last.value, ast.Name):
        return False
    asg = ast.copy_location(ast.Assign(targets=[ast.copy_location(ast.Name(id=v, ctx=ast.Store()), last)], value=last.value, lineno=last.lineno), last)
    last.value = ast.copy_location(ast.Name(id=v, ctx=ast.Load()), last)
    f.body.insert(len(f.body) - 1, asg)
    ast.fix_missing_locations(f)
    return True


def align_growth(f, r):
    g = r.get("growth", {})
    n_changed = 0
    for block in blocks_of(f):
        for i, st in enumerate(block):
            if isinstance(st, ast.Expr) and isinstance(st.value, ast.Call) and isinstance(st.value.func, ast.Attribute) and st.value.func.attr in ("append", "extend") \
                    and len(st.value.args) == 1 and not st.value.keywords:
                recv = st.value.func.value
                forms = g.get(_ntext(recv))
                if forms == ["aug"]:
                    arg = st.value.args[0]
                    val = ast.copy_location(ast.List(elts=[arg], ctx=ast.Load()), arg) if st.value.func.attr == "append" else arg
                    tgt = copy.deepcopy(recv)
                    for n in ast.walk(tgt):
                        if hasattr(n, "ctx"):
                            n.ctx = ast.Load()
                    tgt.ctx = ast.Store()
                    block[i] = ast.copy_location(ast.AugAssign(target=tgt, op=ast.Add(), value=val), st)
                    n_changed += 1
            elif isinstance(st, ast.AugAssign) and isinstance(st.op, ast.Add) and isinstance(st.value, ast.List):
                forms = g.get(_ntext(st.target))
                if forms == ["method"]:
                    recv = copy.deepcopy(st.target)
                    recv.ctx = ast.Load()
                    if len(st.value.elts) == 1:
                        call = ast.Call(func=ast.Attribute(value=recv, attr="append", ctx=ast.Load()), args=[st.value.elts[0]], keywords=[])
                    else:
                        call = ast.Call(func=ast.Attribute(value=recv, attr="extend", ctx=ast.Load()), args=[st.value], keywords=[])
                    block[i] = ast.copy_location(ast.Expr(value=call), st)
                    n_changed += 1
    if n_changed:
        ast.fix_missing_locations(f)
    return n_changed


# ------------------------------------------------------------------------------------------------ 6. loops

def fold_default_override(f, r):
    """`v = A` directly followed by `if C: v = B` (no else; C does not read v; A pure)  ->  `v = B[v := A] if C else A`, when the reference
    binds a value under the same test (or its negation) with a conditional expression.  Also `v = []` + `if C: v.append(x)` -> `v = [x] if C else []`."""
    ref_tests = set(r.get("ifexps") or [])
    if not ref_tests:
        return 0
    n_done = 0
    for block in blocks_of(f):
        i = 0
        while i + 1 < len(block):
            a, b = block[i], block[i + 1]
            i += 1
            if not (isinstance(a, ast.Assign) and len(a.targets) == 1 and isinstance(a.targets[0], ast.Name) and isinstance(b, ast.If) and not b.orelse and len(b.body) == 1):
                continue
            v = a.targets[0].id
            if any(isinstance(n, ast.Name) and n.id == v for n in ast.walk(b.test)) or not _pure(a.value):
                continue
            if _ntext(b.test) not in ref_tests and _ntext(negate(b.test)) not in ref_tests:
                continue
            inner = b.body[0]
            new_val = None
            if isinstance(inner, ast.Assign) and len(inner.targets) == 1 and isinstance(inner.targets[0], ast.Name) and inner.targets[0].id == v:
                new_val = _Subst({v: a.value}).visit(copy.deepcopy(inner.value))
            elif isinstance(inner, ast.Expr) and isinstance(inner.value, ast.Call) and isinstance(inner.value.func, ast.Attribute) and inner.value.func.attr == "append" \
                    and isinstance(inner.value.func.value, ast.Name) and inner.value.func.value.id == v and len(inner.value.args) == 1 and isinstance(a.value, ast.List) and not a.value.elts:
                new_val = ast.List(elts=[copy.deepcopy(inner.value.args[0])], ctx=ast.Load())
            if new_val is None:
                continue
            a.value = ast.copy_location(ast.IfExp(test=b.test, body=new_val, orelse=a.value), a.value)
            ast.fix_missing_locations(a)
            del block[i]
            n_done += 1
    return n_done


def normalise_loops(f, r):
    """loops the reference does not have in this form:
       for i, v in enumerate(S): ... v ...        ->  for i in range(len(S)): ... S[i] ...      (S a name / attribute not re-bound in the loop)
       for v in (a, b, c): body   /  for k, v in enumerate((a, b, c)): body   ->  the body once per element (no break / continue / else)"""
    ref_iters = set(r.get("for_iters", []))
    log = []
    cur_iters = {_ntext(n.iter) for n in own_nodes(f) if isinstance(n, ast.For)}
    for block in blocks_of(f):
        i = 0
        while i < len(block):
            st = block[i]
            if isinstance(st, (ast.Assign, ast.Return)) and isinstance(st.value, ast.ListComp) and len(st.value.generators) == 1 and not st.value.generators[0].is_async \
                    and (isinstance(st, ast.Return) or (len(st.targets) == 1 and isinstance(st.targets[0], ast.Name))):
                # v = [E for t in it if c]   ->   v = []; for t in it: if c: v += [E]     where the reference has the loop over `it`
                g = st.value.generators[0]
                it_text = _ntext(g.iter)
                vname = st.targets[0].id if isinstance(st, ast.Assign) else (r.get("ret_temp") or (list(r.get("growth", {}))[0] if len(r.get("growth", {})) == 1 else None))
                if vname is not None and isinstance(st, ast.Return) and any(isinstance(n, ast.Name) and n.id == vname for n in own_nodes(f)):
                    vname = None
                tn = {n.id for n in ast.walk(g.target) if isinstance(n, ast.Name)}
                clash = any(isinstance(n, ast.Name) and n.id in tn for n in own_nodes(f) if not any(n is x for x in ast.walk(st)))
                if it_text in ref_iters and it_text not in cur_iters and vname and not clash:
                    mk = lambda node: ast.copy_location(node, st)
                    grow = mk(ast.AugAssign(target=mk(ast.Name(id=vname, ctx=ast.Store())), op=ast.Add(), value=mk(ast.List(elts=[st.value.elt], ctx=ast.Load()))))
                    body = [grow]
                    for c in reversed(g.ifs):
                        body = [mk(ast.If(test=c, body=body, orelse=[]))]
                    loop = mk(ast.For(target=g.target, iter=g.iter, body=body, orelse=[]))
                    init = mk(ast.Assign(targets=[mk(ast.Name(id=vname, ctx=ast.Store()))], value=mk(ast.List(elts=[], ctx=ast.Load())), lineno=st.lineno))
                    new = [init, loop] + ([mk(ast.Return(value=mk(ast.Name(id=vname, ctx=ast.Load()))))] if isinstance(st, ast.Return) else [])
                    block[i:i + 1] = new
                    cur_iters.add(it_text)
                    log.append(("comprehension->loop", st.lineno))
                    i += len(new)
                    continue
            if not isinstance(st, ast.For) or st.orelse or _ntext(st.iter) in ref_iters:
                i += 1
                continue
            it = st.iter
            # for v in range(0, N, b): BODY   ->   v = 0; while v < N: BODY; v += b      (b > 0: a range with a non-positive step yields nothing or raises;
            # N and b are not changed by BODY; BODY has no `continue`, which would skip the step of the while form)
            if isinstance(it, ast.Call) and isinstance(it.func, ast.Name) and it.func.id == "range" and len(it.args) == 3 and not it.keywords and isinstance(st.target, ast.Name) \
                    and isinstance(it.args[0], ast.Constant) and it.args[0].value == 0 and not any(isinstance(n, ast.Continue) for n in ast.walk(st)) \
                    and r.get("has_while"):
                v = st.target.id
                stored = {n.id for b_ in st.body for n in ast.walk(b_) if isinstance(n, ast.Name) and isinstance(n.ctx, ast.Store)}
                used = {n.id for a_ in it.args[1:] for n in ast.walk(a_) if isinstance(n, ast.Name)}
                if v not in stored and not (stored & used) and all(_pure(a_) for a_ in it.args[1:]):
                    mk = lambda node: ast.copy_location(node, st)
                    init = mk(ast.Assign(targets=[mk(ast.Name(id=v, ctx=ast.Store()))], value=mk(ast.Constant(value=0)), lineno=st.lineno))
                    step = mk(ast.AugAssign(target=mk(ast.Name(id=v, ctx=ast.Store())), op=ast.Add(), value=copy.deepcopy(it.args[2])))
                    loop = mk(ast.While(test=mk(ast.Compare(left=mk(ast.Name(id=v, ctx=ast.Load())), ops=[ast.Lt()], comparators=[copy.deepcopy(it.args[1])])),
                                        body=list(st.body) + [step], orelse=[]))
                    block[i:i + 1] = [init, loop]
                    log.append(("range(0, N, b)->while", st.lineno))
                    i += 2
                    continue
            enum = isinstance(it, ast.Call) and isinstance(it.func, ast.Name) and it.func.id == "enumerate" and len(it.args) == 1 and not it.keywords
            seq = it.args[0] if enum else it
            tnames = [n.id for n in ast.walk(st.target) if isinstance(n, ast.Name)]
            body_mod = ast.Module(body=st.body, type_ignores=[])
            stores_in_body = {n.id for n in ast.walk(body_mod) if isinstance(n, ast.Name) and isinstance(n.ctx, ast.Store)}
            used_after = any(isinstance(n, ast.Name) and n.id in tnames and n.lineno > getattr(st, "end_lineno", st.lineno) for n in own_nodes(f))
            jumps = any(isinstance(n, (ast.Break, ast.Continue)) for n in ast.walk(body_mod))
            if isinstance(seq, (ast.Tuple, ast.List)) and 1 <= len(seq.elts) <= 8 and not jumps and not used_after and not (set(tnames) & stores_in_body) \
                    and all(_simple(e) for e in seq.elts):
                if enum and isinstance(st.target, ast.Tuple) and len(st.target.elts) == 2 and all(isinstance(e, ast.Name) for e in st.target.elts):
                    kname, vname = st.target.elts[0].id, st.target.elts[1].id
                elif not enum and isinstance(st.target, ast.Name):
                    kname, vname = None, st.target.id
                else:
                    i += 1
                    continue
                new = []
                for k, e in enumerate(seq.elts):
                    m = {vname: e}
                    if kname:
                        m[kname] = ast.Constant(value=k)
                    for s_ in st.body:
                        c = _Subst(m).visit(copy.deepcopy(s_))
                        new.append(c)
                block[i:i + 1] = new
                log.append(("unrolled", st.lineno))
                i += len(new)
                continue
            if enum and isinstance(st.target, ast.Tuple) and len(st.target.elts) == 2 and all(isinstance(e, ast.Name) for e in st.target.elts) \
                    and isinstance(seq, (ast.Name, ast.Attribute)) and _simple(seq) and not used_after:
                kname, vname = st.target.elts[0].id, st.target.elts[1].id
                roots = {n.id for n in ast.walk(seq) if isinstance(n, ast.Name)}
                if vname not in stores_in_body and kname not in stores_in_body and not (roots & stores_in_body):
                    sub = ast.Subscript(value=copy.deepcopy(seq), slice=ast.Name(id=kname, ctx=ast.Load()), ctx=ast.Load())
                    st.body = [_Subst({vname: sub}).visit(s_) for s_ in st.body]
                    st.target = ast.copy_location(ast.Name(id=kname, ctx=ast.Store()), st.target)
                    st.iter = ast.copy_location(ast.Call(func=ast.Name(id="range", ctx=ast.Load()), args=[ast.Call(func=ast.Name(id="len", ctx=ast.Load()), args=[copy.deepcopy(seq)],
                                                                                                                  keywords=[])], keywords=[]), it)
                    log.append(("enumerate", st.lineno))
            i += 1
    if log:
        ast.fix_missing_locations(f)
    return log


# ------------------------------------------------------------------------------------------------ driver
def undo_restructurings(tree, relpath):
    """-> {qualname: [what was undone]}"""
    ref = _ref().get(relpath)
    if ref is None:
        return {}
    log = {}
    for _round in range(2):
        _undo_round(tree, relpath, ref, log)
    _strip(tree)
    return log


def _undo_round(tree, relpath, ref, log):
    helpers = inline_helpers(tree, relpath)
    if helpers:
        log.setdefault("<module>", []).extend(f"inlined helper {h}" for h in helpers)
    for qn, f in qualnames(tree):
        r = ref.get(qn)
        if not isinstance(r, dict) or "ifs" not in r:
            continue
        did = []
        nf = fold_default_override(f, r)
        if nf:
            did.append(f"default-then-override x{nf}")
            _strip(f)
        tv = inline_temporaries(f, r)
        if tv:
            did.append(f"inlined temporaries {tv}")
            _strip(f)
        lp = normalise_loops(f, r)
        if lp:
            did.append(f"loops {lp}")
            _strip(f)
        ch = align_branches(f, r)
        if ch:
            did.append(f"branches {ch}")
        _strip(f)
        tv = inline_temporaries(f, r)
        if tv:
            did.append(f"inlined temporaries {tv}")
        if restore_returned_temp(f, r):
            did.append(f"restored returned temporary {r['ret_temp']}")
        ng = align_growth(f, r)
        if ng:
            did.append(f"list growth x{ng}")
        if did:
            log.setdefault(qn, []).extend(did)
    _strip(tree)
