"""Undo behaviour-preserving restructurings, towards the shape of the reference tree.

The rules were written, and validated against seeded defects and benign twins, on the shape the functions have in the reference
tree (/repo HEAD when `ref_locals.json` was generated). A refactor that only re-spells the control flow or introduces a temporary
must not change any verdict. Before any rule runs, each function is brought back - by rewrites that are each semantics-preserving
on their own - to the spelling the reference uses:

  * a private helper that does not exist in the reference and is a plain "statements; return expr" function is inlined at its call sites;
  * an `if` whose test is the negation of the reference's test gets its branches swapped; guard clauses (`if c: return ...` followed
    by the rest) and `else` branches after a terminating body are converted into each other as the reference has them; a conditional
    expression and a two-branch assignment likewise;
  * a local that the reference does not have, bound once to a pure expression whose operands are not changed before its uses, is
    inlined (copy propagation);
  * `v = E; return v` is restored where the reference returns a temporary and the current code returns the expression;
  * `x.append(e)` / `x.extend(l)` and `x += [e]` / `x += l` are spelled as in the reference.

The reference table only chooses BETWEEN EQUIVALENT SPELLINGS; it never takes part in a judgement. Where a function cannot be
related to the reference nothing is rewritten and the rules see the code as written."""
import ast
import copy

from .renames import _ref, binding_sequence, qualnames

PURE_FUNCS = {"len", "int", "float", "abs", "min", "max", "tuple", "range", "bool", "str", "np.sqrt", "np.log", "np.exp", "np.abs", "np.prod", "np.sum", "np.mean", "np.max",
              "np.min", "np.arange", "np.ceil", "np.floor", "np.sign", "np.square", "np.transpose", "np.expand_dims", "np.ones", "np.zeros", "np.eye", "np.full",
              "np.array", "np.asarray", "np.argsort", "np.argmax", "np.argmin", "np.maximum", "np.minimum", "np.linalg.norm", "np.all", "np.any", "np.isnan", "np.log2",
              "np.cos", "np.sin", "np.outer", "np.dot", "np.matmul", "np.diag", "np.unique", "np.where", "np.clip", "np.logical_not", "np.logical_and", "np.logical_or",
              "isinstance", "getattr", "hasattr", "sorted", "sum", "list", "set", "enumerate", "zip", "math.sqrt", "math.ceil", "math.floor", "math.log"}
PURE_METHODS = {"sum", "min", "max", "mean", "prod", "any", "all", "argmax", "argmin", "transpose", "reshape", "astype", "copy", "dot", "flatten", "ravel", "squeeze", "get",
                "keys", "values", "items", "startswith", "endswith", "lower", "upper", "format", "tolist", "cumsum", "std", "var", "argsort", "nonzero", "item"}


def _ntext(node):
    from .pm import norm_src
    return str(norm_src(node))


def _strip(node):
    for n in ast.walk(node):
        for a in ("_ns", "_cn"):
            if hasattr(n, a):
                delattr(n, a)


def negate(test):
    t = copy.deepcopy(test)
    _strip(t)
    if isinstance(t, ast.UnaryOp) and isinstance(t.op, ast.Not):
        return t.operand
    if isinstance(t, ast.Compare) and len(t.ops) == 1:
        flip = {ast.Is: ast.IsNot, ast.IsNot: ast.Is, ast.Eq: ast.NotEq, ast.NotEq: ast.Eq, ast.In: ast.NotIn, ast.NotIn: ast.In}
        for k, v in flip.items():
            if type(t.ops[0]) is k:
                t.ops = [v()]
                return t
    return ast.copy_location(ast.UnaryOp(op=ast.Not(), operand=t), test)


def terminates(body):
    return bool(body) and isinstance(body[-1], (ast.Return, ast.Raise, ast.Continue, ast.Break))


def _is_if_assign(st):
    return (isinstance(st, ast.If) and len(st.body) == 1 and len(st.orelse) == 1 and isinstance(st.body[0], ast.Assign) and isinstance(st.orelse[0], ast.Assign)
            and len(st.body[0].targets) == 1 and len(st.orelse[0].targets) == 1 and ast.dump(st.body[0].targets[0]) == ast.dump(st.orelse[0].targets[0]))


def blocks_of(f):
    """every statement list of the function (nested functions / classes excluded)"""
    out = []

    def rec(stmts):
        out.append(stmts)
        for s in stmts:
            if isinstance(s, (ast.FunctionDef, ast.AsyncFunctionDef, ast.ClassDef)):
                continue
            for fld in ("body", "orelse", "finalbody"):
                b = getattr(s, fld, None)
                if isinstance(b, list) and b and isinstance(b[0], ast.stmt):
                    rec(b)
            if isinstance(s, ast.Try):
                for h in s.handlers:
                    rec(h.body)
    rec(f.body)
    return out


def own_nodes(f):
    """nodes of f without those of nested function / class definitions"""
    stack = list(f.body)
    while stack:
        n = stack.pop()
        yield n
        for c in ast.iter_child_nodes(n):
            if isinstance(c, (ast.FunctionDef, ast.AsyncFunctionDef, ast.ClassDef, ast.Lambda)):
                continue
            stack.append(c)


# ------------------------------------------------------------------------------------------------ description (also used by the generator)
def describe(f):
    ifs, ifexps, growth = [], [], {}
    for n in own_nodes(f):
        if isinstance(n, ast.If):
            ifs.append({"test": _ntext(n.test), "else": bool(n.orelse), "body_term": terminates(n.body), "else_term": terminates(n.orelse), "assign": _is_if_assign(n),
                        "line": n.lineno})
        elif isinstance(n, ast.IfExp):
            ifexps.append(_ntext(n.test))
        elif isinstance(n, ast.Expr) and isinstance(n.value, ast.Call) and isinstance(n.value.func, ast.Attribute) and n.value.func.attr in ("append", "extend") \
                and len(n.value.args) == 1 and not n.value.keywords:
            growth.setdefault(_ntext(n.value.func.value), set()).add("method")
        elif isinstance(n, ast.AugAssign) and isinstance(n.op, ast.Add) and isinstance(n.value, (ast.List, ast.ListComp)):
            growth.setdefault(_ntext(n.target), set()).add("aug")
    ifs.sort(key=lambda d: d["line"])
    for d in ifs:
        del d["line"]
    ret_temp = None
    body = [s for s in f.body]
    if len(body) >= 2 and isinstance(body[-1], ast.Return) and isinstance(body[-1].value, ast.Name) and isinstance(body[-2], ast.Assign) and len(body[-2].targets) == 1 \
            and isinstance(body[-2].targets[0], ast.Name) and body[-2].targets[0].id == body[-1].value.id:
        ret_temp = body[-1].value.id
    return {"ifs": ifs, "ifexps": sorted(ifexps), "growth": {k: sorted(v) for k, v in growth.items()}, "ret_temp": ret_temp}


# ------------------------------------------------------------------------------------------------ 1. helpers
def _helper_shape(fn):
    """(kind, stmts, ret expr) for an inlinable helper, else None. kind 'expr' (single return) or 'stmts'"""
    if fn.decorator_list or fn.args.vararg or fn.args.kwarg or fn.args.kwonlyargs or fn.args.posonlyargs:
        return None
    body = list(fn.body)
    if body and isinstance(body[0], ast.Expr) and isinstance(body[0].value, ast.Constant) and isinstance(body[0].value.value, str):
        body = body[1:]
    if not body or not isinstance(body[-1], ast.Return) or body[-1].value is None:
        return None
    for n in ast.walk(fn):
        if isinstance(n, (ast.Yield, ast.YieldFrom, ast.Await, ast.Global, ast.Nonlocal, ast.FunctionDef, ast.AsyncFunctionDef, ast.Lambda)) and n is not fn:
            return None
        if isinstance(n, ast.Return) and n is not body[-1]:
            return None
        if isinstance(n, ast.Call) and isinstance(n.func, ast.Name) and n.func.id == fn.name:
            return None
    params = [a.arg for a in fn.args.args]
    for n in ast.walk(fn):
        if isinstance(n, ast.Name) and isinstance(n.ctx, ast.Store) and n.id in params:
            return None
    return ("expr" if len(body) == 1 else "stmts", body[:-1], body[-1].value)


def _simple(e):
    if isinstance(e, (ast.Name, ast.Constant)):
        return True
    if isinstance(e, ast.Attribute):
        return _simple(e.value)
    if isinstance(e, ast.Subscript):
        return _simple(e.value) and _simple(e.slice)
    if isinstance(e, ast.UnaryOp):
        return _simple(e.operand)
    return False


def _has_call(e):
    return any(isinstance(n, ast.Call) for n in ast.walk(e))


class _Subst(ast.NodeTransformer):
    def __init__(self, mapping):
        self.mapping = mapping

    def visit_Name(self, node):
        if node.id in self.mapping and isinstance(node.ctx, ast.Load):
            return ast.copy_location(copy.deepcopy(self.mapping[node.id]), node)
        return node


def _bind_args(fn, call, is_method):
    params = [a.arg for a in fn.args.args]
    defaults = dict(zip(params[len(params) - len(fn.args.defaults):], fn.args.defaults))
    mapping = {}
    pos = params[1:] if is_method else params
    if len(call.args) > len(pos) or any(isinstance(a, ast.Starred) for a in call.args):
        return None
    for p, a in zip(pos, call.args):
        mapping[p] = a
    for k in call.keywords:
        if k.arg is None or k.arg not in pos or k.arg in mapping:
            return None
        mapping[k.arg] = k.value
    for p in pos:
        if p not in mapping:
            if p in defaults:
                mapping[p] = defaults[p]
            else:
                return None
    if is_method:
        mapping[params[0]] = call.func.value
    return mapping


def inline_helpers(tree, relpath):
    ref = _ref().get(relpath)
    if ref is None or "__functions__" not in ref:
        return []
    known = set(ref["__functions__"])
    done = []
    # candidates: new private functions at module level or in a class body
    cands = {}
    for qn, fn in qualnames(tree):
        if qn in known or not fn.name.startswith("_") or fn.name.startswith("__") or qn.count(".") > 1:
            continue
        shape = _helper_shape(fn)
        if shape is not None:
            cands[qn] = (fn, shape)
    if not cands:
        return []
    for qn, (fn, (kind, stmts, ret)) in cands.items():
        is_method = "." in qn
        if is_method and (not fn.args.args):
            continue
        cls = qn.split(".")[0] if is_method else None

        def is_call(n):
            if not isinstance(n, ast.Call):
                return False
            if is_method:
                return isinstance(n.func, ast.Attribute) and n.func.attr == fn.name and isinstance(n.func.value, ast.Name) and n.func.value.id in ("self", "cls")
            return isinstance(n.func, ast.Name) and n.func.id == fn.name
        sites = [n for n in ast.walk(tree) if is_call(n)]
        refs = [n for n in ast.walk(tree) if (isinstance(n, ast.Name) and n.id == fn.name and not is_method) or (isinstance(n, ast.Attribute) and n.attr == fn.name and is_method)]
        if not sites or len(refs) != len(sites):
            continue                     # used as a value somewhere: leave
        plan = []
        ok = True
        for host_qn, host in qualnames(tree):
            if host is fn:
                continue
            if is_method and not host_qn.startswith(cls + "."):
                continue
            for block in blocks_of(host):
                for i, st in enumerate(block):
                    inner = [n for n in ast.walk(st) if is_call(n)] if not isinstance(st, (ast.If, ast.For, ast.While, ast.With, ast.Try)) else \
                        [n for n in ast.walk(st.test if isinstance(st, (ast.If, ast.While)) else st.iter if isinstance(st, ast.For) else ast.Module(body=[], type_ignores=[])) if is_call(n)]
                    for c in inner:
                        m = _bind_args(fn, c, is_method)
                        if m is None:
                            ok = False
                            continue
                        uses = {p: sum(1 for n in ast.walk(ast.Module(body=list(stmts) + [ast.Expr(value=ret)], type_ignores=[])) if isinstance(n, ast.Name) and n.id == p) for p in m}
                        if any(_has_call(a) and uses[p] > 1 for p, a in m.items()):
                            ok = False
                            continue
                        if kind == "expr":
                            plan.append(("expr", block, i, st, c, m))
                        else:
                            direct = (isinstance(st, (ast.Assign, ast.Return, ast.Expr)) and st.value is c)
                            if not direct or not all(_simple(a) for a in m.values()):
                                ok = False
                                continue
                            plan.append(("stmts", block, i, st, c, m))
        if not ok or len(plan) != len(sites):
            continue
        # apply (statement-level ones from the end of each block backwards so that indices stay valid)
        for entry in sorted(plan, key=lambda e: -e[2]):
            k, block, i, st, c, m = entry
            new_ret = _Subst(m).visit(copy.deepcopy(ret))
            if k == "expr":
                _replace_child(st, c, new_ret)
            else:
                new_stmts = [_Subst(m).visit(copy.deepcopy(s)) for s in stmts]
                for s in new_stmts:
                    for n in ast.walk(s):
                        if hasattr(n, "lineno"):
                            n.lineno = st.lineno
                            n.end_lineno = getattr(st, "end_lineno", st.lineno)
                if isinstance(st, ast.Expr):
                    tail = []
                else:
                    _replace_child(st, c, new_ret)
                    tail = [st]
                idx = block.index(st)
                block[idx:idx + 1] = new_stmts + tail
        # drop the helper
        for owner in ast.walk(tree):
            b = getattr(owner, "body", None)
            if isinstance(b, list) and fn in b:
                b.remove(fn)
                if not b:
                    b.append(ast.Pass())
        done.append(qn)
    if done:
        ast.fix_missing_locations(tree)
    return done


def _replace_child(parent, old, new):
    for node in ast.walk(parent):
        for fld, val in ast.iter_fields(node):
            if val is old:
                setattr(node, fld, ast.copy_location(new, old))
                return True
            if isinstance(val, list):
                for j, x in enumerate(val):
                    if x is old:
                        val[j] = ast.copy_location(new, old)
                        return True
    return False


# ------------------------------------------------------------------------------------------------ 2. branches
def align_branches(f, r):
    ref_ifs = list(r.get("ifs", []))
    ref_ifexps = list(r.get("ifexps", []))
    used = [False] * len(ref_ifs)
    changed = []

    def find(text):
        for j, d in enumerate(ref_ifs):
            if not used[j] and d["test"] == text:
                return j
        return None

    def do_block(block):
        i = 0
        while i < len(block):
            st = block[i]
            if isinstance(st, (ast.FunctionDef, ast.AsyncFunctionDef, ast.ClassDef)):
                i += 1
                continue
            if isinstance(st, ast.If):
                T, NT = _ntext(st.test), _ntext(negate(st.test))
                j = find(T)
                swapped = False
                if j is None:
                    j = find(NT)
                    if j is not None:
                        rest = block[i + 1:]
                        if st.orelse:
                            st.test = negate(st.test)
                            st.body, st.orelse = st.orelse, st.body
                            swapped = True
                        elif terminates(st.body) and rest and not any(isinstance(x, (ast.FunctionDef, ast.ClassDef)) for x in rest):
                            st.test = negate(st.test)
                            st.body, st.orelse = rest, st.body
                            del block[i + 1:]
                            swapped = True
                        else:
                            j = None
                        if swapped:
                            changed.append(("swap", st.lineno))
                if j is None and _is_if_assign(st) and (T in ref_ifexps or NT in ref_ifexps):
                    # two-branch assignment where the reference has a conditional expression
                    a, b = st.body[0].value, st.orelse[0].value
                    test = st.test
                    if T not in ref_ifexps:
                        test, a, b = negate(test), b, a
                    new = ast.copy_location(ast.Assign(targets=st.body[0].targets, value=ast.copy_location(ast.IfExp(test=test, body=a, orelse=b), st), lineno=st.lineno), st)
                    block[i] = new
                    changed.append(("ifexp", st.lineno))
                    i += 1
                    continue
                if j is not None:
                    used[j] = True
                    d = ref_ifs[j]
                    rest = block[i + 1:]
                    if d["else"] and not st.orelse and terminates(st.body) and rest:
                        st.orelse = rest
                        del block[i + 1:]
                        changed.append(("unflatten", st.lineno))
                    elif not d["else"] and st.orelse and terminates(st.body):
                        block[i + 1:i + 1] = st.orelse
                        st.orelse = []
                        changed.append(("flatten", st.lineno))
                    elif not d["else"] and st.orelse and terminates(st.orelse) and not terminates(st.body) and d["body_term"] is False:
                        pass
            elif isinstance(st, ast.Assign) and isinstance(st.value, ast.IfExp) and len(st.targets) == 1:
                T, NT = _ntext(st.value.test), _ntext(negate(st.value.test))
                if T not in ref_ifexps and NT not in ref_ifexps:
                    j = find(T)
                    jn = find(NT) if j is None else None
                    k = j if j is not None else jn
                    if k is not None and ref_ifs[k]["assign"]:
                        used[k] = True
                        e = st.value
                        test, a, b = (e.test, e.body, e.orelse) if j is not None else (negate(e.test), e.orelse, e.body)
                        mk = lambda v: ast.copy_location(ast.Assign(targets=copy.deepcopy(st.targets), value=v, lineno=st.lineno), st)
                        block[i] = ast.copy_location(ast.If(test=test, body=[mk(a)], orelse=[mk(b)]), st)
                        changed.append(("ifstmt", st.lineno))
            # recurse
            st = block[i]
            for fld in ("body", "orelse", "finalbody"):
                b = getattr(st, fld, None)
                if isinstance(b, list) and b and isinstance(b[0], ast.stmt) and not isinstance(st, (ast.FunctionDef, ast.AsyncFunctionDef, ast.ClassDef)):
                    do_block(b)
            if isinstance(st, ast.Try):
                for h in st.handlers:
                    do_block(h.body)
            i += 1
    do_block(f.body)
    # polarity of the remaining conditional expressions
    for n in own_nodes(f):
        if isinstance(n, ast.IfExp):
            T, NT = _ntext(n.test), _ntext(negate(n.test))
            if T not in ref_ifexps and NT in ref_ifexps:
                n.test = negate(n.test)
                n.body, n.orelse = n.orelse, n.body
                changed.append(("ifexp-swap", n.lineno))
    return changed


# ------------------------------------------------------------------------------------------------ 3. temporaries
def _pure(e):
    for n in ast.walk(e):
        if isinstance(n, ast.Call):
            fn = n.func
            name = ast.unparse(fn)
            if name in PURE_FUNCS:
                continue
            if isinstance(fn, ast.Attribute) and fn.attr in PURE_METHODS and not (isinstance(fn.value, ast.Name) and fn.value.id in ("random_state", "generator", "rng")):
                continue
            return False
        if isinstance(n, (ast.Lambda, ast.Yield, ast.YieldFrom, ast.Await, ast.NamedExpr, ast.Starred)):
            return False
        if isinstance(n, (ast.ListComp, ast.SetComp, ast.DictComp, ast.GeneratorExp)):
            return False
    return True


def _paths(e):
    """dotted / subscripted access paths read by e, as root-first text prefixes: self.depths[father] -> {'self', 'self.depths'}"""
    out = set()
    for n in ast.walk(e):
        if isinstance(n, ast.Name):
            out.add(n.id)
        elif isinstance(n, ast.Attribute):
            try:
                out.add(ast.unparse(n))
            except Exception:
                pass
    return out


def _mutations(st):
    """access paths (text) that the statement may modify: assignment targets (their base paths), receivers of method calls in a bare expression statement,
    first argument of np.copyto / np.fill_diagonal / np.put"""
    out = set()

    def base(t):
        while isinstance(t, ast.Subscript):
            t = t.value
        return ast.unparse(t) if isinstance(t, (ast.Name, ast.Attribute)) else None
    for n in ast.walk(st):
        if isinstance(n, (ast.Assign, ast.AugAssign, ast.AnnAssign)):
            tg = n.targets if isinstance(n, ast.Assign) else [n.target]
            for t in tg:
                for x in ([t] if not isinstance(t, (ast.Tuple, ast.List)) else t.elts):
                    b = base(x)
                    if b:
                        out.add(b)
        elif isinstance(n, (ast.For, ast.AsyncFor)):
            for x in ast.walk(n.target):
                if isinstance(x, ast.Name):
                    out.add(x.id)
        elif isinstance(n, ast.Expr) and isinstance(n.value, ast.Call):
            fn = n.value.func
            if isinstance(fn, ast.Attribute):
                name = ast.unparse(fn)
                if name in ("np.copyto", "np.fill_diagonal", "np.put", "np.place", "np.putmask") and n.value.args:
                    b = base(n.value.args[0])
                    if b:
                        out.add(b)
                elif not name.startswith(("np.", "warnings.")):
                    b = base(fn.value)
                    if b:
                        out.add(b)
    return out


def inline_temporaries(f, r):
    seq, params = binding_sequence(f)
    ref_names = [n for n, _ in r.get("locals", [])]
    cur_names = [n for n, _ in seq]
    new = [n for n in cur_names if n not in ref_names]
    if not new:
        return []
    k = len(cur_names) - len(ref_names)
    stmts_in_order = sorted((s for s in own_nodes(f) if isinstance(s, ast.stmt)), key=lambda s: (s.lineno, s.col_offset))
    from .flow import CFG
    try:
        cfg = CFG(f)
    except Exception:
        return []

    def candidate(v):
        stores = [n for n in own_nodes(f) if isinstance(n, ast.Name) and n.id == v and isinstance(n.ctx, ast.Store)]
        if len(stores) != 1:
            return None
        d = next((s for s in stmts_in_order if isinstance(s, ast.Assign) and len(s.targets) == 1 and s.targets[0] is stores[0]), None)
        value = d.value if d is not None else None
        keep_def = False
        if d is None:
            # a, b = X.shape : b stands for X.shape[1]
            d = next((s for s in stmts_in_order if isinstance(s, ast.Assign) and len(s.targets) == 1 and isinstance(s.targets[0], ast.Tuple)
                      and any(e is stores[0] for e in s.targets[0].elts) and isinstance(s.value, ast.Attribute) and s.value.attr == "shape"), None)
            if d is None:
                return None
            pos = next(i for i, e in enumerate(d.targets[0].elts) if e is stores[0])
            value = ast.copy_location(ast.Subscript(value=copy.deepcopy(d.value), slice=ast.Constant(value=pos), ctx=ast.Load()), d.value)
            ast.fix_missing_locations(value)
            keep_def = True
        if not _pure(value):
            return None
        uses = [n for n in own_nodes(f) if isinstance(n, ast.Name) and n.id == v and isinstance(n.ctx, ast.Load)]
        if any((u.lineno, u.col_offset) < (d.lineno, d.col_offset) for u in uses):
            return None
        paths = _paths(value)
        # nested functions / lambdas reading v: only if nothing the expression reads is ever re-bound or modified in f after the definition
        nested_uses = [n for fn in ast.walk(f) if isinstance(fn, (ast.Lambda, ast.FunctionDef)) and fn is not f for n in ast.walk(fn)
                       if isinstance(n, ast.Name) and n.id == v]
        if nested_uses:
            if any(isinstance(n.ctx, ast.Store) for n in nested_uses):
                return None
            for s in ast.walk(f):
                if isinstance(s, ast.stmt) and s is not d and (_mutations(s) & paths) and not (isinstance(s, ast.FunctionDef) or s.lineno < d.lineno):
                    return None
                if isinstance(s, (ast.FunctionDef, ast.Lambda)) and s is not f:
                    a = s.args
                    if {x.arg for x in a.args + a.kwonlyargs + a.posonlyargs} & {p.split(".")[0] for p in paths}:
                        return None
            uses = uses + [n for n in nested_uses if isinstance(n.ctx, ast.Load)]
        if not uses:
            return None
        # no statement that may change what the expression reads can reach a use without passing through the definition again
        use_stmts = set()
        for stn in cfg.nodes:
            for h in CFG.header_exprs(stn):
                if any(x is u for x in ast.walk(h) for u in uses):
                    use_stmts.add(stn)
        if d not in cfg.nodes:
            return None
        for stn in cfg.nodes:
            if stn is d:
                continue
            muts = set()
            if isinstance(stn, ast.For):
                muts = {x.id for x in ast.walk(stn.target) if isinstance(x, ast.Name)}
            elif not isinstance(stn, (ast.If, ast.While, ast.With, ast.Try, ast.FunctionDef, ast.ClassDef)):
                muts = _mutations(stn)
            if not (muts & paths):
                continue
            reach = cfg.reachable_from(stn, avoid=(d,))
            if use_stmts & reach:
                return None
        return d, uses, value, keep_def

    cands = {v: candidate(v) for v in new}
    good = [v for v in new if cands[v] is not None]
    if not good:
        return []
    chosen = None
    if set(cur_names) - set(good) <= set(ref_names):
        # every other local is a local of the reference: the new ones are added temporaries (other locals may have disappeared)
        good = sorted(good, key=lambda v_: cands[v_][0].lineno)
        for v in good:
            d, uses, value, keep_def = cands[v]
            for u in uses:
                _replace_in(f, u, copy.deepcopy(value))
            for block in blocks_of(f):
                if d in block and not keep_def:
                    block.remove(d)
                    if not block:
                        block.append(ast.copy_location(ast.Pass(), d))
        ast.fix_missing_locations(f)
        return good
    if len(good) < k or k <= 0:
        return []
    if len(good) == k:
        chosen = good
    else:
        import itertools
        best = None
        combos = list(itertools.islice(itertools.combinations(good, k), 300))
        for combo in combos:
            rest = [(n, kd) for n, kd in seq if n not in combo]
            if [kd for _, kd in rest] != [kd for _, kd in r["locals"]]:
                continue
            score = sum(1 for (n, _), (rn, _) in zip(rest, r["locals"]) if n == rn)
            if best is None or score > best[0]:
                best = (score, combo)
        if best is not None:
            chosen = list(best[1])
    if not chosen:
        return []
    rest = [(n, kd) for n, kd in seq if n not in chosen]
    if [kd for _, kd in rest] != [kd for _, kd in r["locals"]]:
        return []
    for v in sorted(chosen, key=lambda v_: cands[v_][0].lineno):
        d, uses, value, keep_def = cands[v]
        # uses inside the definition of another chosen temporary are replaced as well (they are nodes of the same tree)
        for u in uses:
            _replace_in(f, u, copy.deepcopy(value))
        for block in blocks_of(f):
            if d in block and not keep_def:
                block.remove(d)
                if not block:
                    block.append(ast.copy_location(ast.Pass(), d))
    ast.fix_missing_locations(f)
    return chosen


def _replace_in(f, old, new):
    for node in ast.walk(f):
        for fld, val in ast.iter_fields(node):
            if val is old:
                setattr(node, fld, ast.copy_location(new, old))
                _fix_lines(new, old)
                return
            if isinstance(val, list):
                for j, x in enumerate(val):
                    if x is old:
                        val[j] = ast.copy_location(new, old)
                        _fix_lines(new, old)
                        return


def _fix_lines(new, old):
    for n in ast.walk(new):
        if hasattr(n, "lineno"):
            n.lineno = old.lineno
            n.end_lineno = getattr(old, "end_lineno", old.lineno)
            n.col_offset = old.col_offset
            n.end_col_offset = getattr(old, "end_col_offset", old.col_offset)


# ------------------------------------------------------------------------------------------------ 4. returned temporary, 5. list growth
def restore_returned_temp(f, r):
    v = r.get("ret_temp")
    if not v:
        return False
    names = {n.id for n in ast.walk(f) if isinstance(n, ast.Name)} | {a.arg for a in f.args.args}
    last = f.body[-1] if f.body else None
    if v in names or not isinstance(last, ast.Return) or last.value is None or isinstance(last.value, ast.Name):
        return False
    asg = ast.copy_location(ast.Assign(targets=[ast.copy_location(ast.Name(id=v, ctx=ast.Store()), last)], value=last.value, lineno=last.lineno), last)
    last.value = ast.copy_location(ast.Name(id=v, ctx=ast.Load()), last)
    f.body.insert(len(f.body) - 1, asg)
    ast.fix_missing_locations(f)
    return True


def align_growth(f, r):
    g = r.get("growth", {})
    n_changed = 0
    for block in blocks_of(f):
        for i, st in enumerate(block):
            if isinstance(st, ast.Expr) and isinstance(st.value, ast.Call) and isinstance(st.value.func, ast.Attribute) and st.value.func.attr in ("append", "extend") \
                    and len(st.value.args) == 1 and not st.value.keywords:
                recv = st.value.func.value
                forms = g.get(_ntext(recv))
                if forms == ["aug"]:
                    arg = st.value.args[0]
                    val = ast.copy_location(ast.List(elts=[arg], ctx=ast.Load()), arg) if st.value.func.attr == "append" else arg
                    tgt = copy.deepcopy(recv)
                    for n in ast.walk(tgt):
                        if hasattr(n, "ctx"):
                            n.ctx = ast.Load()
                    tgt.ctx = ast.Store()
                    block[i] = ast.copy_location(ast.AugAssign(target=tgt, op=ast.Add(), value=val), st)
                    n_changed += 1
            elif isinstance(st, ast.AugAssign) and isinstance(st.op, ast.Add) and isinstance(st.value, ast.List):
                forms = g.get(_ntext(st.target))
                if forms == ["method"]:
                    recv = copy.deepcopy(st.target)
                    recv.ctx = ast.Load()
                    if len(st.value.elts) == 1:
                        call = ast.Call(func=ast.Attribute(value=recv, attr="append", ctx=ast.Load()), args=[st.value.elts[0]], keywords=[])
                    else:
                        call = ast.Call(func=ast.Attribute(value=recv, attr="extend", ctx=ast.Load()), args=[st.value], keywords=[])
                    block[i] = ast.copy_location(ast.Expr(value=call), st)
                    n_changed += 1
    if n_changed:
        ast.fix_missing_locations(f)
    return n_changed


# ------------------------------------------------------------------------------------------------ driver
def undo_restructurings(tree, relpath):
    """-> {qualname: [what was undone]}"""
    ref = _ref().get(relpath)
    if ref is None:
        return {}
    log = {}
    helpers = inline_helpers(tree, relpath)
    if helpers:
        log["<module>"] = [f"inlined helper {h}" for h in helpers]
    for qn, f in qualnames(tree):
        r = ref.get(qn)
        if not isinstance(r, dict) or "ifs" not in r:
            continue
        did = []
        ch = align_branches(f, r)
        if ch:
            did.append(f"branches {ch}")
        _strip(f)
        tv = inline_temporaries(f, r)
        if tv:
            did.append(f"inlined temporaries {tv}")
        if restore_returned_temp(f, r):
            did.append(f"restored returned temporary {r['ret_temp']}")
        ng = align_growth(f, r)
        if ng:
            did.append(f"list growth x{ng}")
        if did:
            log[qn] = did
    _strip(tree)
    return log
