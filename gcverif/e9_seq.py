"""E9 - linear sequence maps: the abstract value of a 1-D array is its coefficient matrix with respect to one symbolic input
vector, for every length n in SIZES.

Used for the index arithmetic that E8 does not model (offsets): cumulative sums, paddings, constant slices, reversals and
re-indexing by a sorting permutation. No array of the program is ever given a numerical value: a vector `v` derived from the
input `u` is represented by M with v[i] = sum_j M[i][j] * u[j]; `np.cumsum`, slicing, `np.concatenate` with zeros ... act on
the ROWS of M. The matrices are built for n = 1..7 (all the operations have affine index arithmetic with offsets of at most a
few units, so the pattern of M is stable beyond); two programs are compared by comparing their matrices for every n.

A sorting permutation is kept symbolic: `in_perm` = e means that the input is first gathered by pi^e (pi = argsort of the
input), `out_perm` = e that the result is finally gathered by pi^e.
"""
import ast
from fractions import Fraction as Fr

SIZES = tuple(range(1, 8))


class Unsupported(Exception):
    pass


class Different(Exception):
    """a construct that is understood and wrong whatever the rest (e.g. a mean over samples where a sum is needed)"""


class Perm:
    def __init__(self, exp):
        self.exp = exp


class Grid2:
    """the [N, n+1] array of per-sample quantities the backward pass starts from; cols = Seq selecting/combining its columns"""

    def __init__(self, cols):
        self.cols = cols


class Seq:
    def __init__(self, mats, src, in_perm=0, out_perm=0, scalar=False):
        self.mats = mats            # {n: [row, ...]} ; row = [Fraction] * len(src at n)
        self.src = src
        self.in_perm = in_perm
        self.out_perm = out_perm
        self.scalar = scalar

    @staticmethod
    def input(src, extra=0):
        """identity on an input of length n + extra"""
        mats = {}
        for n in SIZES:
            m = n + extra
            mats[n] = [[Fr(int(i == j)) for j in range(m)] for i in range(m)]
        return Seq(mats, src)

    def is_pure_input(self):
        if self.in_perm or self.out_perm or self.scalar:
            return False
        for n, rows in self.mats.items():
            if not rows or len(rows) != len(rows[0]):
                return False
            if any(rows[i][j] != int(i == j) for i in range(len(rows)) for j in range(len(rows))):
                return False
        return True

    def map_rows(self, fn, scalar=None):
        return Seq({n: fn(rows, n) for n, rows in self.mats.items()}, self.src, self.in_perm, self.out_perm, self.scalar if scalar is None else scalar)

    def width(self, n):
        return n + (1 if self.src == "g" else 0)

    def scale(self, c):
        return self.map_rows(lambda rows, n: [[c * x for x in r] for r in rows])


class Ramp:
    """np.arange(k) (entries sign * (i + offset)); its length is that of the sequence it multiplies"""
    def __init__(self, sign=1, offset=0):
        self.sign, self.offset = sign, offset


def _need_plain(s, what):
    if s.out_perm:
        raise Unsupported(f"{what} after the result was re-indexed by the sorting permutation")


def zeros(k, like):
    return Seq({n: [[Fr(0)] * like.width(n) for _ in range(k)] for n in SIZES}, like.src, like.in_perm, 0)


def combine(a, b, sign):
    if a.src != b.src or a.in_perm != b.in_perm or a.out_perm != b.out_perm:
        raise Unsupported("operands derived from different inputs / different orders")
    mats = {}
    for n in SIZES:
        ra, rb = a.mats[n], b.mats[n]
        if a.scalar and not b.scalar:
            ra = ra * len(rb)
        elif b.scalar and not a.scalar:
            rb = rb * len(ra)
        if len(ra) != len(rb):
            raise Different(f"operands of lengths {len(ra)} and {len(rb)} are combined when n = {n}")
        mats[n] = [[x + sign * y for x, y in zip(r1, r2)] for r1, r2 in zip(ra, rb)]
    return Seq(mats, a.src, a.in_perm, a.out_perm, a.scalar and b.scalar)


def _const(node):
    if isinstance(node, ast.Constant) and isinstance(node.value, (int, float)) and not isinstance(node.value, bool):
        return Fr(node.value).limit_denominator(10 ** 6)
    if isinstance(node, ast.UnaryOp) and isinstance(node.op, ast.USub):
        c = _const(node.operand)
        return None if c is None else -c
    return None


def _int(node):
    c = _const(node)
    if c is not None and c.denominator == 1:
        return int(c)
    return None


def _src(node):
    return ast.unparse(node)


class SeqInterp:
    """evaluates the statements of one function body over Seq / Perm / Grid2 values; anything else is Unknown (using it raises)"""

    def __init__(self, env, attr_hook=None):
        self.env = dict(env)
        self.attr_hook = attr_hook or (lambda src: None)

    # ------------------------------------------------------------------ statements
    def run(self, stmts):
        for st in stmts:
            self.stmt(st)

    def stmt(self, st):
        if isinstance(st, ast.Assign) and len(st.targets) == 1:
            t = st.targets[0]
            if isinstance(t, ast.Name):
                self.env[t.id] = self.try_ev(st.value)
                return
            if isinstance(t, ast.Subscript) and isinstance(t.value, ast.Name):
                # scatter through a permutation: out = empty; out[perm] = v  <=>  out = v[perm^-1]
                idx = self.try_ev(t.slice)
                v = self.try_ev(st.value)
                if isinstance(idx, Perm) and isinstance(v, Seq):
                    self.env[t.value.id] = self.gather(v, Perm(-idx.exp))
                else:
                    self.env[t.value.id] = None
                return
            if isinstance(t, ast.Tuple):
                for e in t.elts:
                    if isinstance(e, ast.Name):
                        self.env[e.id] = None
                return
        elif isinstance(st, ast.AugAssign) and isinstance(st.target, ast.Name):
            fake = ast.BinOp(left=ast.Name(id=st.target.id, ctx=ast.Load()), op=st.op, right=st.value)
            self.env[st.target.id] = self.try_ev(fake)
            return
        elif isinstance(st, (ast.Expr, ast.Pass, ast.Return)):
            return
        elif isinstance(st, (ast.If, ast.For, ast.While, ast.With, ast.Try)):
            # any name bound inside becomes unknown
            for n in ast.walk(st):
                if isinstance(n, ast.Name) and isinstance(n.ctx, ast.Store):
                    self.env[n.id] = None
            return

    def try_ev(self, node):
        try:
            return self.ev(node)
        except Unsupported:
            return None

    # ------------------------------------------------------------------ expressions
    def ev(self, node):
        c = _const(node)
        if c is not None:
            return c
        if isinstance(node, ast.Name):
            if node.id in self.env:
                v = self.env[node.id]
                if v is None:
                    raise Unsupported(f"`{node.id}` is outside the sequence subset")
                return v
            raise Unsupported(f"`{node.id}` unknown")
        if isinstance(node, ast.Attribute) or (isinstance(node, ast.Subscript) and isinstance(node.value, ast.Attribute)):
            h = self.attr_hook(_src(node))
            if h is not None:
                return h
        if isinstance(node, ast.UnaryOp) and isinstance(node.op, ast.USub):
            v = self.ev(node.operand)
            return self.neg(v)
        if isinstance(node, ast.UnaryOp) and isinstance(node.op, ast.UAdd):
            return self.ev(node.operand)
        if isinstance(node, ast.BinOp):
            return self.binop(node)
        if isinstance(node, ast.Subscript):
            return self.subscript(node)
        if isinstance(node, ast.Call):
            return self.call(node)
        raise Unsupported(_src(node)[:60])

    def neg(self, v):
        if isinstance(v, Fr):
            return -v
        if isinstance(v, Seq):
            return v.scale(Fr(-1))
        if isinstance(v, Ramp):
            return Ramp(-v.sign, v.offset)
        raise Unsupported("negation of a non-sequence")

    def binop(self, node):
        a, b = self.ev(node.left), self.ev(node.right)
        op = node.op
        if isinstance(a, Fr) and isinstance(b, Fr):
            if isinstance(op, ast.Add):
                return a + b
            if isinstance(op, ast.Sub):
                return a - b
            if isinstance(op, ast.Mult):
                return a * b
            if isinstance(op, ast.Div) and b != 0:
                return a / b
            raise Unsupported("constant arithmetic")
        if isinstance(op, (ast.Add, ast.Sub)):
            if isinstance(a, Seq) and isinstance(b, Seq):
                return combine(a, b, 1 if isinstance(op, ast.Add) else -1)
            if isinstance(a, Seq) and b == 0:
                return a
            if isinstance(b, Seq) and a == 0:
                return b if isinstance(op, ast.Add) else self.neg(b)
            raise Unsupported("a sequence plus a non-zero constant is not linear")
        if isinstance(op, ast.Mult) and ((isinstance(a, Seq) and isinstance(b, Ramp)) or (isinstance(b, Seq) and isinstance(a, Ramp))):
            sq, rp = (a, b) if isinstance(a, Seq) else (b, a)
            _need_plain(sq, "an element-wise product with np.arange")
            return sq.map_rows(lambda rows, n: [[Fr(rp.sign * (i + rp.offset)) * x for x in r] for i, r in enumerate(rows)])
        if isinstance(op, ast.Mult):
            if isinstance(a, Seq) and isinstance(b, Fr):
                return a.scale(b)
            if isinstance(b, Seq) and isinstance(a, Fr):
                return b.scale(a)
        if isinstance(op, ast.Div) and isinstance(a, Seq) and isinstance(b, Fr) and b != 0:
            return a.scale(1 / b)
        raise Unsupported(_src(node)[:60])

    def gather(self, v, p):
        if v.scalar:
            raise Unsupported("a scalar is indexed by a permutation")
        if v.is_pure_input():
            return Seq(v.mats, v.src, p.exp, 0)
        if v.out_perm:
            raise Unsupported("two successive re-indexings")
        return Seq(v.mats, v.src, v.in_perm, p.exp)

    def slice_rows(self, v, sl):
        _need_plain(v, "a slice")
        lo = None if sl.lower is None else _int(sl.lower)
        hi = None if sl.upper is None else _int(sl.upper)
        stp = None if sl.step is None else _int(sl.step)
        if (sl.lower is not None and lo is None) or (sl.upper is not None and hi is None) or (sl.step is not None and stp not in (1, -1)):
            raise Unsupported("a slice with non-constant bounds")
        return v.map_rows(lambda rows, n: rows[slice(lo, hi, stp)])

    def subscript(self, node):
        base = self.ev(node.value)
        sl = node.slice
        if isinstance(base, Grid2):
            if isinstance(sl, ast.Tuple) and len(sl.elts) == 2 and isinstance(sl.elts[0], ast.Slice) and sl.elts[0].lower is None and sl.elts[0].upper is None \
                    and sl.elts[0].step is None and isinstance(sl.elts[1], ast.Slice):
                return Grid2(self.slice_rows(base.cols, sl.elts[1]))
            raise Unsupported("per-sample array indexed otherwise than [:, a:b]")
        if not isinstance(base, Seq):
            raise Unsupported("subscript of a non-sequence")
        if isinstance(sl, ast.Slice):
            return self.slice_rows(base, sl)
        if isinstance(sl, ast.Tuple):
            # [None, :] / [:, None] / [np.newaxis, :]
            kinds = []
            for e in sl.elts:
                if (isinstance(e, ast.Constant) and e.value is None) or _src(e) == "np.newaxis":
                    kinds.append("new")
                elif isinstance(e, ast.Slice) and e.lower is None and e.upper is None and e.step is None:
                    kinds.append("all")
                else:
                    kinds.append("?")
            if sorted(kinds) == ["all", "new"]:
                return base
            raise Unsupported("multi-axis subscript")
        i = _int(sl)
        if i is not None:
            _need_plain(base, "an element")
            def pick(rows, n):
                if not (-len(rows) <= i < len(rows)):
                    raise Different(f"element {i} of a vector of length {len(rows)} when n = {n}")
                return [rows[i]]
            return base.map_rows(pick, scalar=True)
        idx = self.ev(sl)
        if isinstance(idx, Perm):
            return self.gather(base, idx)
        raise Unsupported("subscript by a computed index")

    def call(self, node):
        f = node.func
        name = _src(f)
        kw = {k.arg: k.value for k in node.keywords if k.arg}
        args = list(node.args)
        # method spelling -> function spelling
        if isinstance(f, ast.Attribute) and not (isinstance(f.value, ast.Name) and f.value.id in ("np", "numpy")):
            meth = f.attr
            recv = f.value
            if meth in ("cumsum", "sum", "mean", "reshape", "copy", "ravel", "flatten", "squeeze", "argsort", "astype"):
                name = "np." + meth
                args = [recv] + args
        if name in ("np.cumsum",):
            v = self.ev(args[0])
            self._axis_ok(args[1:], kw)
            if not isinstance(v, Seq) or v.scalar:
                raise Unsupported("cumsum of a non-sequence")
            _need_plain(v, "a cumulative sum")
            def cs(rows, n):
                out, acc = [], None
                for r in rows:
                    acc = list(r) if acc is None else [x + y for x, y in zip(acc, r)]
                    out.append(list(acc))
                return out
            return v.map_rows(cs)
        if name in ("np.sum", "np.mean"):
            v = self.ev(args[0])
            ax = args[1] if len(args) > 1 else kw.get("axis")
            if isinstance(v, Grid2):
                if ax is None or _int(ax) != 0:
                    raise Unsupported("per-sample array reduced otherwise than over axis 0")
                if name == "np.mean":
                    raise Different("the per-sample gradients are averaged, not summed, over the samples (the bias is shared by all samples: its gradient is the sum)")
                return base_cols(v)
            if isinstance(v, Seq) and not v.scalar:
                if ax is not None and _int(ax) not in (0, -1):
                    raise Unsupported("axis")
                if name == "np.mean":
                    raise Unsupported("mean of a sequence")
                _need_plain(v, "a sum")
                return v.map_rows(lambda rows, n: [[sum(col) for col in zip(*rows)]] if rows else [[Fr(0)] * v.width(n)], scalar=True)
            raise Unsupported("sum of a non-sequence")
        if name in ("np.concatenate", "np.hstack", "np.append", "np.r_"):
            if name == "np.append":
                parts = args[:2]
            else:
                if not args or not isinstance(args[0], (ast.List, ast.Tuple)):
                    raise Unsupported("concatenate of a computed list")
                parts = args[0].elts
                self._axis_ok(args[1:], kw)
            vals = [self.zero_block(p) for p in parts]
            seqs = [v for v in vals if isinstance(v, Seq)]
            if len(seqs) != 1:
                raise Unsupported("concatenation of several derived sequences")
            like = seqs[0]
            _need_plain(like, "a concatenation")
            def cat(rows_of, n):
                out = []
                for v in vals:
                    if isinstance(v, int):
                        out += [[Fr(0)] * like.width(n) for _ in range(v)]
                    else:
                        out += v.mats[n]
                return out
            return Seq({n: cat(None, n) for n in SIZES}, like.src, like.in_perm, 0)
        if name in ("np.flip", "np.flipud"):
            v = self.ev(args[0])
            if not isinstance(v, Seq):
                raise Unsupported("flip")
            _need_plain(v, "a reversal")
            return v.map_rows(lambda rows, n: rows[::-1])
        if name in ("np.negative",):
            return self.neg(self.ev(args[0]))
        if name == "np.arange" and len(args) == 1 and not kw:
            return Ramp(1, 0)
        if name == "np.arange" and len(args) == 2 and not kw and _int(args[0]) is not None:
            return Ramp(1, _int(args[0]))
        if name in ("np.reshape", "np.copy", "np.ravel", "np.flatten", "np.squeeze", "np.asarray", "np.array", "np.expand_dims", "np.atleast_2d", "np.astype"):
            v = self.ev(args[0])
            if isinstance(v, Seq):
                return v
            raise Unsupported(name)
        if name == "np.sort":
            v = self.ev(args[0])
            if isinstance(v, Seq) and v.is_pure_input():
                return Seq(v.mats, v.src, 1, 0)
            raise Unsupported("sort of a derived sequence")
        if name == "np.argsort":
            v = self.ev(args[0])
            if isinstance(v, Perm):
                return Perm(-v.exp)
            if isinstance(v, Seq) and v.is_pure_input():
                return Perm(1)
            raise Unsupported("argsort of a derived sequence")
        raise Unsupported(name[:40])

    def zero_block(self, p):
        """np.zeros(k) / [0] / [0.0] / np.zeros((k,)) / 0 -> k ; otherwise a Seq"""
        if isinstance(p, ast.Call) and _src(p.func) == "np.zeros" and p.args:
            a = p.args[0]
            if isinstance(a, ast.Tuple) and len(a.elts) == 1:
                a = a.elts[0]
            k = _int(a)
            if k is not None and k >= 0:
                return k
            raise Unsupported("zeros of a non-constant length")
        if isinstance(p, (ast.List, ast.Tuple)) and all(_const(e) == 0 for e in p.elts):
            return len(p.elts)
        if _const(p) == 0:
            return 1
        if isinstance(p, ast.Call) and _src(p.func) in ("np.array", "np.asarray") and p.args:
            return self.zero_block(p.args[0])
        v = self.ev(p)
        if isinstance(v, Seq) and not v.scalar:
            return v
        raise Unsupported("concatenated block")

    @staticmethod
    def _axis_ok(rest, kw):
        ax = rest[0] if rest else kw.get("axis")
        if ax is not None and _int(ax) not in (0, -1):
            raise Unsupported("axis")


def base_cols(g):
    return g.cols


# ------------------------------------------------------------------------------------------------ comparisons
def describe(seq, n):
    return "[" + "; ".join(" ".join(str(x) for x in r) for r in seq.mats[n]) + "]"


def is_neg_lower_strict(seq):
    """b[j] = -(sum of the j first entries of the (sorted) input): rows j = 0..n, columns l = 0..n-1, entry -[l < j]"""
    for n in SIZES:
        rows = seq.mats[n]
        if len(rows) != n + 1:
            return False, f"for n = {n} cut points the bias vector has {len(rows)} entries, not n + 1"
        for j in range(n + 1):
            for l in range(n):
                want = Fr(-1) if l < j else Fr(0)
                if rows[j][l] != want:
                    return False, f"for n = {n}: the bias of bin {j} depends on the sorted cut {l} with coefficient {rows[j][l]}, expected {want}"
    return True, ""


def is_minus_transpose(back, fwd):
    """back[l][j] == -fwd[j][l] for every n -> (ok, detail)"""
    for n in SIZES:
        F, B = fwd.mats[n], back.mats[n]
        if len(B) != n:
            return False, f"for n = {n} cut points the update has {len(B)} entries"
        for l in range(n):
            if len(B[l]) != len(F):
                return False, f"for n = {n} the update is built from {len(B[l])} bin gradients, the forward pass has {len(F)} bins"
            for j in range(len(F)):
                if B[l][j] != -F[j][l]:
                    return False, (f"for n = {n} cut points: d bias[{j}] / d sorted cut[{l}] = {F[j][l]}, so the ascent direction of that cut carries the gradient of bin {j} with "
                                   f"coefficient {F[j][l]} and the update (negated) {-F[j][l]}; the code uses {B[l][j]}")
    return True, ""
