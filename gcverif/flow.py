"""Statement-level control-flow graph, dominators, reaching definitions and slices for one function.

Nodes are ast statements; compound statements are represented by their header (If/While -> the test,
For -> the iteration binding, With -> the context expression, Try -> a no-op header).
"""
import ast
from collections import defaultdict

ENTRY, EXIT = "ENTRY", "EXIT"


def attr_chain(node):
    """'self.optimiser_.learning_rate' for an Attribute chain rooted at a Name, else None"""
    parts = []
    while isinstance(node, ast.Attribute):
        parts.append(node.attr)
        node = node.value
    if isinstance(node, ast.Name):
        parts.append(node.id)
        return ".".join(reversed(parts))
    return None


class CFG:
    def __init__(self, func):
        self.func = func
        self.succ = defaultdict(list)    # node -> [(succ, label)]
        self.pred = defaultdict(list)
        self.nodes = []
        self.loop_of = {}                # stmt -> innermost enclosing loop header
        self.parent_if = {}              # stmt -> list of (If/While node, branch bool) enclosing
        exits = self._block(func.body, [(ENTRY, None)], [], ())
        for e, lab in exits:
            self._edge(e, EXIT, lab)
        self._returns_to_exit()
        self.all = [ENTRY] + self.nodes + [EXIT]

    # ---- construction
    def _edge(self, a, b, label=None):
        self.succ[a].append((b, label))
        self.pred[b].append((a, label))

    def _add(self, st, ctx):
        self.nodes.append(st)
        self.parent_if[st] = ctx

    def _block(self, body, ins, loops, ctx):
        """ins: list of (node,label) whose control flows into the first stmt. returns list of fall-through exits"""
        cur = ins
        for st in body:
            if not cur:
                # unreachable code: still index it
                pass
            cur = self._stmt(st, cur, loops, ctx)
        return cur

    def _stmt(self, st, ins, loops, ctx):
        self._add(st, ctx)
        if loops:
            self.loop_of[st] = loops[-1][0]
        for a, lab in ins:
            self._edge(a, st, lab)
        if isinstance(st, ast.If):
            t = self._block(st.body, [(st, True)], loops, ctx + ((st, True),))
            if st.orelse:
                f = self._block(st.orelse, [(st, False)], loops, ctx + ((st, False),))
            else:
                f = [(st, False)]
            return t + f
        if isinstance(st, (ast.While, ast.For)):
            brk = []
            loops2 = loops + [(st, brk)]
            body_exit = self._block(st.body, [(st, True)], loops2, ctx + ((st, True),))
            for a, lab in body_exit:
                self._edge(a, st, lab)
            out = [(st, False)]
            if st.orelse:
                out = self._block(st.orelse, out, loops, ctx)
            return out + brk
        if isinstance(st, ast.Break):
            loops[-1][1].append((st, None))
            return []
        if isinstance(st, ast.Continue):
            self._edge(st, loops[-1][0], None)
            return []
        if isinstance(st, (ast.Return, ast.Raise)):
            return []
        if isinstance(st, ast.With):
            return self._block(st.body, [(st, None)], loops, ctx)
        if isinstance(st, ast.Try):
            b = self._block(st.body, [(st, None)], loops, ctx)
            outs = list(b)
            for h in st.handlers:
                # an exception may come from anywhere in the body: approximate by edges from the try header
                outs += self._block(h.body, [(st, "except")], loops, ctx)
            if st.orelse:
                outs = self._block(st.orelse, b, loops, ctx) + [o for o in outs if o not in b]
            if st.finalbody:
                outs = self._block(st.finalbody, outs, loops, ctx)
            return outs
        if isinstance(st, (ast.FunctionDef, ast.ClassDef)):
            return [(st, None)]
        return [(st, None)]

    def _returns_to_exit(self):
        for n in self.nodes:
            if isinstance(n, (ast.Return, ast.Raise)):
                self._edge(n, EXIT, "raise" if isinstance(n, ast.Raise) else "return")

    # ---- expression parts evaluated AT a node (headers only evaluate their test/iter)
    @staticmethod
    def header_exprs(st):
        if isinstance(st, (ast.If, ast.While)):
            return [st.test]
        if isinstance(st, ast.For):
            return [st.iter]
        if isinstance(st, ast.With):
            return [i.context_expr for i in st.items]
        if isinstance(st, ast.Try):
            return []
        if isinstance(st, (ast.FunctionDef, ast.ClassDef)):
            return []
        return [st]

    # ---- defs / uses
    @staticmethod
    def defs(st):
        """names (and attribute chains) strongly or weakly defined at st -> {name: 'strong'|'weak'}"""
        out = {}

        def target(t, kind="strong"):
            if isinstance(t, ast.Name):
                out[t.id] = kind
            elif isinstance(t, (ast.Tuple, ast.List)):
                for e in t.elts:
                    target(e, kind)
            elif isinstance(t, ast.Starred):
                target(t.value, kind)
            elif isinstance(t, ast.Attribute):
                c = attr_chain(t)
                if c:
                    out[c] = kind
            elif isinstance(t, ast.Subscript):
                base = t.value
                while isinstance(base, ast.Subscript):
                    base = base.value
                c = attr_chain(base) if isinstance(base, ast.Attribute) else (base.id if isinstance(base, ast.Name) else None)
                if c:
                    out.setdefault(c, "weak")
        if isinstance(st, ast.Assign):
            for t in st.targets:
                target(t)
        elif isinstance(st, ast.AugAssign):
            target(st.target, "weak" if not isinstance(st.target, ast.Name) else "aug")
        elif isinstance(st, ast.AnnAssign) and st.value is not None:
            target(st.target)
        elif isinstance(st, ast.For):
            target(st.target)
        elif isinstance(st, ast.With):
            for i in st.items:
                if i.optional_vars is not None:
                    target(i.optional_vars)
        elif isinstance(st, (ast.FunctionDef, ast.ClassDef)):
            out[st.name] = "strong"
        elif isinstance(st, (ast.Import, ast.ImportFrom)):
            for a in st.names:
                out[(a.asname or a.name).split(".")[0]] = "strong"
        # walrus and in-place mutators inside expressions
        for e in CFG.header_exprs(st):
            for n in ast.walk(e):
                if isinstance(n, ast.NamedExpr):
                    out[n.target.id] = "strong"
                if isinstance(n, ast.Call) and isinstance(n.func, ast.Attribute) and n.func.attr in (
                        "append", "extend", "remove", "sort", "fill", "update", "pop", "insert") :
                    c = attr_chain(n.func.value)
                    if c:
                        out.setdefault(c, "weak")
                if isinstance(n, ast.Call) and (attr_chain(n.func) or "").endswith("copyto") and n.args:
                    c = attr_chain(n.args[0])
                    if c:
                        out.setdefault(c, "weak")
        return out

    @staticmethod
    def uses(st):
        """names and attribute chains read at st"""
        out = set()
        exprs = CFG.header_exprs(st)
        for e in exprs:
            bound = set()
            for n in ast.walk(e):
                if isinstance(n, ast.comprehension):
                    for m in ast.walk(n.target):
                        if isinstance(m, ast.Name):
                            bound.add(m.id)
                elif isinstance(n, ast.Lambda):
                    for a in n.args.args:
                        bound.add(a.arg)
            for n in ast.walk(e):
                if isinstance(n, ast.Name) and isinstance(n.ctx, ast.Load):
                    if n.id not in bound:
                        out.add(n.id)
                elif isinstance(n, ast.Attribute) and isinstance(n.ctx, ast.Load):
                    c = attr_chain(n)
                    if c and c.split(".")[0] not in bound:
                        out.add(c)
                        # prefixes too (self.optimiser_ for self.optimiser_.learning_rate)
                        parts = c.split(".")
                        for i in range(1, len(parts)):
                            out.add(".".join(parts[:i]))
        if isinstance(st, ast.AugAssign):
            c = attr_chain(st.target) if isinstance(st.target, ast.Attribute) else (
                st.target.id if isinstance(st.target, ast.Name) else None)
            if c:
                out.add(c)
            for n in ast.walk(st.target):
                if isinstance(n, ast.Name):
                    out.add(n.id)
        # subscript stores read the base and the index
        for t in getattr(st, "targets", []) or ([st.target] if isinstance(st, (ast.AugAssign, ast.AnnAssign)) else []):
            for n in ast.walk(t):
                if isinstance(n, ast.Subscript):
                    for m in ast.walk(n):
                        if isinstance(m, ast.Name):
                            out.add(m.id)
                        elif isinstance(m, ast.Attribute):
                            c = attr_chain(m)
                            if c:
                                out.add(c)
        return out

    # ---- dominators
    def _dom(self, start, succ, pred):
        nodes = self.all
        dom = {n: set(nodes) for n in nodes}
        dom[start] = {start}
        changed = True
        order = nodes
        while changed:
            changed = False
            for n in order:
                if n == start:
                    continue
                ps = [p for p, _ in pred[n]]
                if not ps:
                    new = {n}
                else:
                    new = set.intersection(*(dom[p] for p in ps)) | {n}
                if new != dom[n]:
                    dom[n] = new
                    changed = True
        return dom

    def dominators(self):
        if not hasattr(self, "_domc"):
            self._domc = self._dom(ENTRY, self.succ, self.pred)
        return self._domc

    def postdominators(self):
        if not hasattr(self, "_pdomc"):
            self._pdomc = self._dom(EXIT, self.pred, self.succ)
        return self._pdomc

    def dominates(self, a, b):
        return a in self.dominators()[b]

    def reachable_from(self, a, avoid=()):
        seen, todo = set(), [a]
        while todo:
            n = todo.pop()
            for s, _ in self.succ[n]:
                if s not in seen and s not in avoid:
                    seen.add(s)
                    todo.append(s)
        return seen

    # ---- reaching definitions
    def reaching(self):
        """node -> {var: frozenset(def nodes)} holding at entry of node. ENTRY defines parameters."""
        if hasattr(self, "_rd"):
            return self._rd
        params = {a.arg for a in self.func.args.posonlyargs + self.func.args.args + self.func.args.kwonlyargs}
        if self.func.args.vararg:
            params.add(self.func.args.vararg.arg)
        if self.func.args.kwarg:
            params.add(self.func.args.kwarg.arg)
        IN = {n: {} for n in self.all}
        OUT = {n: {} for n in self.all}
        OUT[ENTRY] = {p: frozenset([ENTRY]) for p in params}
        dcache = {n: self.defs(n) for n in self.nodes}
        changed = True
        while changed:
            changed = False
            for n in self.nodes + [EXIT]:
                merged = {}
                for p, _ in self.pred[n]:
                    for v, ds in OUT[p].items():
                        merged[v] = merged.get(v, frozenset()) | ds
                IN[n] = merged
                if n == EXIT:
                    continue
                out = dict(merged)
                for v, kind in dcache[n].items():
                    if kind == "strong":
                        out[v] = frozenset([n])
                        # a strong def of a name kills attr chains rooted at it
                        for w in list(out):
                            if w.startswith(v + "."):
                                del out[w]
                    else:
                        out[v] = out.get(v, frozenset()) | frozenset([n])
                if out != OUT[n]:
                    OUT[n] = out
                    changed = True
        self._rd = IN
        self._params = params
        return IN

    def definitely_assigned(self, at_least_once=()):
        """node -> set of names assigned on every path from ENTRY to the entry of node (params included).
        at_least_once: loop headers proven to run their body at least once (their exit edge then carries what one
        full iteration assigns)."""
        at_least_once = set(at_least_once)
        if hasattr(self, "_da") and not at_least_once:
            return self._da
        self.reaching()
        universe = set(self._params)
        dcache = {}
        for n in self.nodes:
            dcache[n] = {v for v, k in self.defs(n).items() if k in ("strong", "aug")}
            universe |= dcache[n]
        IN = {n: set(universe) for n in self.all}
        IN[ENTRY] = set()

        inside = {}
        for h in at_least_once:
            inside[h] = {x for x in ast.walk(h) if isinstance(x, ast.stmt) and x is not h}

        def out(n, label):
            if n == ENTRY:
                return set(self._params)
            if n in at_least_once and label is False:
                backs = [(p, lab) for p, lab in self.pred[n] if p in inside[n]]
                if backs:
                    return set.intersection(*(out(p, lab) for p, lab in backs)) | IN[n] | \
                        (dcache.get(n, set()) if isinstance(n, ast.For) else set())
            if isinstance(n, ast.For) and label is False:
                return IN[n]          # zero iterations: the target stays unbound
            return IN[n] | dcache.get(n, set())
        changed = True
        while changed:
            changed = False
            for n in self.nodes + [EXIT]:
                ps = self.pred[n]
                if not ps:
                    new = set(universe)
                else:
                    new = set.intersection(*(out(p, lab) for p, lab in ps))
                if new != IN[n]:
                    IN[n] = new
                    changed = True
        if not at_least_once:
            self._da = IN
        return IN

    def maybe_unbound(self, node, var):
        """True if some path from ENTRY reaches node without any definition of var."""
        return var not in self.definitely_assigned()[node]

    # ---- slices
    def backward_slice(self, node, names=None, interproc=None):
        """statements that may influence the values of `names` used at `node` (data dependence only).
        returns (set of stmts, set of external names/attr chains read with no local def = inputs)"""
        rd = self.reaching()
        work = []
        seen_pairs = set()
        stmts = set()
        inputs = set()
        start_names = names if names is not None else self.uses(node)
        for v in start_names:
            work.append((node, v))
        while work:
            n, v = work.pop()
            if (id(n), v) in seen_pairs:
                continue
            seen_pairs.add((id(n), v))
            ds = rd[n].get(v, frozenset()) if n in rd else frozenset()
            if not ds:
                inputs.add(v)
                # an attribute chain: also consider defs of its root
                if "." in v:
                    root = v.split(".")[0]
                    for d in rd[n].get(root, ()):
                        if d is not ENTRY:
                            stmts.add(d)
                            for u in self.uses(d):
                                work.append((d, u))
                continue
            for d in ds:
                if d is ENTRY:
                    inputs.add(v)
                    continue
                stmts.add(d)
                for u in self.uses(d):
                    work.append((d, u))
        return stmts, inputs

    def control_conditions(self, node):
        """list of (header stmt, branch) that control `node` syntactically (innermost last)"""
        return list(self.parent_if.get(node, ()))


def enclosing_function(node):
    p = getattr(node, "_parent", None)
    while p is not None and not isinstance(p, (ast.FunctionDef, ast.AsyncFunctionDef, ast.Lambda)):
        p = getattr(p, "_parent", None)
    return p


def walk_shallow(node):
    """walk without descending into nested function/class definitions"""
    todo = list(ast.iter_child_nodes(node))
    while todo:
        n = todo.pop()
        yield n
        if isinstance(n, (ast.FunctionDef, ast.AsyncFunctionDef, ast.ClassDef, ast.Lambda)):
            continue
        todo.extend(ast.iter_child_nodes(n))


# ------------------------------------------------------------------------------------------------ conditions known to hold at a node
def _atom(test, pol):
    """-> list of constraints: ('lit', text, polarity) or ('nand', [(text, pol), ...]) meaning "not all of these hold" """
    from .pm import norm_src
    if isinstance(test, ast.UnaryOp) and isinstance(test.op, ast.Not):
        return _atom(test.operand, not pol)
    if isinstance(test, ast.BoolOp):
        conj = isinstance(test.op, ast.And)
        if conj == pol:
            # (a and b) true / (a or b) false: every operand has the polarity
            out = []
            for v in test.values:
                out += _atom(v, pol)
            return out
        # (a and b) false / (a or b) true: at least one operand has the polarity `pol` -> not all have `not pol`
        lits = []
        for v in test.values:
            sub = _atom(v, not pol)
            if len(sub) != 1 or sub[0][0] != "lit":
                return []
            lits.append((sub[0][1], sub[0][2]))
        return [("nand", lits)]
    if isinstance(test, ast.Compare) and len(test.ops) == 1:
        flip = {ast.IsNot: ast.Is, ast.NotEq: ast.Eq, ast.NotIn: ast.In}
        for k, v in flip.items():
            if isinstance(test.ops[0], k):
                pos = ast.Compare(left=test.left, ops=[v()], comparators=test.comparators)
                return [("lit", str(norm_src(ast.fix_missing_locations(ast.copy_location(pos, test)))), not pol)]
    return [("lit", str(norm_src(test)), pol)]


def implied_literals(node):
    """{(canonical atom text, polarity)} known to hold whenever `node` executes, from the enclosing branches (elif chains included) and
    from the guard clauses (`if c: return/raise/continue/break`) that precede it in the enclosing blocks. `x is not None` is the atom
    `x is None` with polarity False; a failed conjunction whose other operands are known gives the remaining operand."""
    cons = []
    child = node
    p = getattr(node, "_parent", None)
    while p is not None and not isinstance(p, (ast.FunctionDef, ast.AsyncFunctionDef, ast.Lambda, ast.ClassDef, ast.Module)):
        if isinstance(p, (ast.If, ast.While)) and child is not p.test:
            in_body = any(child is s for s in p.body)
            in_else = any(child is s for s in p.orelse)
            if in_body:
                cons += _atom(p.test, True)
            elif in_else and isinstance(p, ast.If):
                cons += _atom(p.test, False)
        # guard clauses before `child` in the block of p that contains it
        for fld in ("body", "orelse", "finalbody"):
            blk = getattr(p, fld, None)
            if isinstance(blk, list) and any(child is s for s in blk):
                for s in blk:
                    if s is child:
                        break
                    if isinstance(s, ast.If) and not s.orelse and s.body and isinstance(s.body[-1], (ast.Return, ast.Raise, ast.Continue, ast.Break)):
                        cons += _atom(s.test, False)
        child = p
        p = getattr(p, "_parent", None)
    if isinstance(p, (ast.FunctionDef, ast.AsyncFunctionDef)):
        for s in p.body:
            if s is child:
                break
            if isinstance(s, ast.If) and not s.orelse and s.body and isinstance(s.body[-1], (ast.Return, ast.Raise)):
                cons += _atom(s.test, False)
    lits = {(c[1], c[2]) for c in cons if c[0] == "lit"}
    changed = True
    while changed:
        changed = False
        for c in cons:
            if c[0] != "nand":
                continue
            unknown = [l for l in c[1] if l not in lits]
            if len(unknown) == 1 and all((l in lits) for l in c[1] if l is not unknown[0]):
                neg = (unknown[0][0], not unknown[0][1])
                if neg not in lits:
                    lits.add(neg)
                    changed = True
    return lits


# ------------------------------------------------------------------------------------------------ outcomes of a loop-free function, path by path
class NotLoopFree(Exception):
    pass


def return_cases(func, max_paths=128):
    """Enumerate the paths of a loop-free function body. -> list of (kind, value, literals) with kind 'return' / 'raise' / 'fall',
    value = the returned (raised) expression with the locals assigned on the path substituted (an ast expression or None), literals =
    frozenset of (atom text, polarity) that hold on the path (same normal form as implied_literals). Whether the function ends in guard
    clauses, nested if/else or assigns a result variable returned at the end makes no difference."""
    import copy as _copy

    class Sub(ast.NodeTransformer):
        def __init__(self, env):
            self.env = env

        def visit_Name(self, n):
            if isinstance(n.ctx, ast.Load) and n.id in self.env:
                return _copy.deepcopy(self.env[n.id])
            return n

    def subst(e, env):
        if e is None:
            return None
        c = _copy.deepcopy(e)
        for n in ast.walk(c):
            for a in ("_ns", "_cn", "_parent"):
                if hasattr(n, a):
                    delattr(n, a)
        return ast.fix_missing_locations(Sub(env).visit(c))

    out = []

    def lits_of(test, pol, env):
        return [(c[1], c[2]) for c in _atom(subst(test, env), pol) if c[0] == "lit"]

    def run(stmts, env, lits):
        """-> list of (env, lits) that fall through"""
        states = [(env, lits)]
        for st in stmts:
            nxt = []
            for env_, lits_ in states:
                if len(out) > max_paths:
                    raise NotLoopFree("too many paths")
                if isinstance(st, ast.Return):
                    out.append(("return", subst(st.value, env_), frozenset(lits_)))
                elif isinstance(st, ast.Raise):
                    out.append(("raise", subst(st.exc, env_), frozenset(lits_)))
                elif isinstance(st, ast.If):
                    for pol, body in ((True, st.body), (False, st.orelse)):
                        new = lits_of(st.test, pol, env_)
                        if any((t, not p) in lits_ for t, p in new):
                            continue            # contradicts what is known on this path
                        nxt += run(body, dict(env_), set(lits_) | set(new))
                elif isinstance(st, (ast.For, ast.While, ast.AsyncFor)):
                    raise NotLoopFree("loop")
                elif isinstance(st, (ast.With, ast.AsyncWith)):
                    nxt += run(st.body, env_, lits_)
                elif isinstance(st, ast.Try):
                    raise NotLoopFree("try")
                elif isinstance(st, ast.Assign) and len(st.targets) == 1 and isinstance(st.targets[0], ast.Name):
                    e2 = dict(env_)
                    e2[st.targets[0].id] = subst(st.value, env_)
                    nxt.append((e2, lits_))
                elif isinstance(st, ast.AugAssign) and isinstance(st.target, ast.Name):
                    e2 = dict(env_)
                    cur = e2.get(st.target.id, ast.Name(id=st.target.id, ctx=ast.Load()))
                    e2[st.target.id] = ast.fix_missing_locations(ast.BinOp(left=_copy.deepcopy(cur), op=st.op, right=subst(st.value, env_)))
                    nxt.append((e2, lits_))
                else:
                    e2 = env_
                    for n in ast.walk(st):
                        if isinstance(n, ast.Name) and isinstance(n.ctx, ast.Store) and n.id in e2:
                            e2 = dict(e2)
                            del e2[n.id]
                    nxt.append((e2, lits_))
            states = nxt
        return states

    for env, lits in run(func.body, {}, set()):
        out.append(("fall", None, frozenset(lits)))
    return out
