"""Class-specialised call resolution: what does a call inside a method reach, for a given concrete class."""
import ast

from .pm import AnalysisError, norm_src, PKG
from .flow import attr_chain
from .astutil import self_name


def resolve_call(pm, K, C, func, call):
    """Resolve `call` found in `func`, a method defined in class C, executed on an instance of concrete class K.
    returns (kind, target) with kind in:
      'method'  -> (class, FunctionDef) GemClus or installed method on self
      'function'-> (unit, FunctionDef) GemClus module function
      'class'   -> ClassInfo (constructor call of a GemClus class)
      'ext'     -> (module, symbol, resolved) function/class of an installed package
      None      -> unknown
    """
    f = call.func
    sn = self_name(func) if C is not None else None
    unit = C.unit if C is not None else None
    if isinstance(f, ast.Attribute):
        # self.m(...)
        if isinstance(f.value, ast.Name) and sn and f.value.id == sn and K is not None:
            c, m = pm.resolve_method(K, f.attr)
            if m is not None:
                return "method", (c, m)
            return None, None
        # super().m(...)
        if isinstance(f.value, ast.Call) and isinstance(f.value.func, ast.Name) and f.value.func.id == "super" and K is not None:
            c, m = pm.resolve_method(K, f.attr, after=C)
            if m is not None:
                return "method", (c, m)
            return None, None
        # Base.m(self, ...)
        if isinstance(f.value, ast.Name) and unit is not None:
            ci = _local_class(pm, unit, f.value.id)
            if ci is not None:
                c, m = pm.resolve_method(ci, f.attr)
                if m is not None:
                    return "method", (c, m)
        return None, None
    if isinstance(f, ast.Name):
        return resolve_name(pm, unit or func_unit(pm, func), f.id)
    return None, None


def func_unit(pm, func):
    for u in pm.units.values():
        for f in u.functions.values():
            if f is func:
                return u
        for n in ast.walk(u.tree):
            if n is func:
                return u
    raise AnalysisError("function not in any unit")


def _local_class(pm, unit, name):
    if name in unit.classes:
        return pm.classes.get(name)
    if name in unit.imports:
        mod, sym = unit.imports[name]
        if mod and mod.startswith(PKG):
            return pm._resolve_gem_class(mod, sym)
    return None


def resolve_name(pm, unit, name, depth=0):
    if name in unit.functions and "." not in name:
        return "function", (unit, unit.functions[name])
    if name in unit.classes:
        return "class", pm.classes[name]
    if name in unit.imports:
        mod, sym = unit.imports[name]
        if sym is None:
            return "module", mod
        if mod and mod.startswith(PKG):
            u2 = pm.units.get(mod)
            if u2 is not None and depth < 6:
                r = resolve_name(pm, u2, sym, depth + 1)
                if r[0] is not None:
                    return r
            # a shim defined in a try/except (validate_data) is indexed in functions
            return None, None
        return "ext", (mod, sym, pm.ext_symbol(mod, sym))
    return None, None


def reachable_methods(pm, K, start, max_depth=8):
    """GemClus methods/functions reachable from method `start` (name) on class K through self/super/module calls.
    returns list of (defining class or None, unit, FunctionDef)"""
    c0, f0 = pm.resolve_method(K, start)
    if f0 is None or c0.external:
        return []
    seen, out, todo = set(), [], [(c0, c0.unit, f0, 0)]
    while todo:
        C, unit, f, d = todo.pop()
        if id(f) in seen:
            continue
        seen.add(id(f))
        out.append((C, unit, f))
        if d >= max_depth:
            continue
        for n in ast.walk(f):
            if not isinstance(n, ast.Call):
                continue
            if C is not None:
                kind, tgt = resolve_call(pm, K, C, f, n)
            else:
                kind, tgt = (resolve_name(pm, unit, n.func.id) if isinstance(n.func, ast.Name) else (None, None))
            if kind == "method":
                c2, m2 = tgt
                if not c2.external:
                    todo.append((c2, c2.unit, m2, d + 1))
            elif kind == "function":
                u2, f2 = tgt
                todo.append((None, u2, f2, d + 1))
    return out
