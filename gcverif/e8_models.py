"""E8 applied to the estimators: the gradients returned by _compute_grads are the chain rule through the model's own forward
function (_infer), with the sign that makes the optimiser ascend the objective, plus the gradient of the model's penalty."""
import ast

from . import e8_index as X
from .e8_index import Poly, Unsupported, subst, diff, is_zero, mk_sum, replace_tensor, fresh
from .e8_numpy import TermInterp, input_array, scalar, TArr, ph
from .pm import norm_src

# learned tensors and their axes (N samples, D input features / training points, H hidden units, K clusters)
WEIGHT_AXES = {"W_": ["D", "K"], "b_": [1, "K"], "W1_": ["D", "H"], "b1_": [1, "H"], "W2_": ["H", "K"], "b2_": [1, "K"], "W_skip_": ["D", "K"],
               "logits_": ["N", "K"]}
# extra tensors read by some models
EXTRA_AXES = {"_training_kernel": ["D", "D"]}
# penalty subtracted from the GEMINI by the model (objective = GEMINI - penalty), as a term builder
PENALTIES = {
    "RIM": "reg * np.sum(W_ * W_)",
    "KernelRIM": "reg * np.sum(W_ * (_training_kernel @ W_))",
}

ASSUMPTIONS = [
    "softmax(z)[n,k] = exp(z[n,k]) / sum_l exp(z[n,l]); np.maximum(z, 0) = z * [z > 0] with derivative [z > 0]; the retained activation self.H_ is the one "
    "computed by _infer on the same batch (C03-b / C12-c)",
    "the regularised objectives: RIM = MI - reg * ||W||_F^2, KernelRIM = MI - reg * trace(W^T K W) with K the symmetric training kernel",
]


def find_method(ci, name):
    for C in ci.mro:
        if name in C.methods:
            return C, C.methods[name]
    return None, None


class ModelTerms:
    def __init__(self, pm, cname):
        self.pm = pm
        self.ci = pm.classes[cname]
        self.cname = cname
        self.attrs = {}
        X.SYMMETRIC.add("_training_kernel")

    def attr_default(self, key):
        name = key.split(".", 1)[1] if "." in key else key
        if name in WEIGHT_AXES:
            return input_array(name, WEIGHT_AXES[name])
        if name in EXTRA_AXES:
            return input_array(name, EXTRA_AXES[name])
        if name in ("reg",):
            return TArr((), Poly.sym(name))
        return None

    def effective_gradients(self, weights, grads):
        """the gradients handed to the optimiser: _update_weights may add the penalty gradient before the step"""
        seen = []
        C, f = find_method(self.ci, "_update_weights")
        if f is None:
            return grads
        params = [a.arg for a in f.args.args]
        env = {params[0]: None, params[1]: weights, params[2]: list(grads)}
        I = TermInterp(env, self.attrs, mode="model", attr_default=self.attr_default)
        I.on_update = lambda w, g: seen.append(list(g))
        I.run(f)
        if len(seen) != 1:
            raise Unsupported("_update_weights does not hand the gradients to optimiser_.update_params exactly once")
        return seen[0]

    def run_method(self, name, args, start_after=None):
        mro = self.ci.mro
        if start_after is not None:
            mro = mro[mro.index(start_after) + 1:]
        for C in mro:
            if name in C.methods:
                f = C.methods[name]
                params = [a.arg for a in f.args.args]
                env = {params[0]: None}
                defaults = f.args.defaults
                for i, p_ in enumerate(params[1:]):
                    if i < len(args):
                        env[p_] = args[i]
                    else:
                        dflt = defaults[i - (len(params) - 1 - len(defaults))] if i >= len(params) - 1 - len(defaults) else None
                        env[p_] = ast.literal_eval(dflt) if dflt is not None else None
                I = TermInterp(env, self.attrs, mode="model", attr_default=self.attr_default,
                               super_call=lambda m, a, C=C: self.run_method(m, a, start_after=C))
                return I.run(f)
        raise Unsupported(f"method {name} not found")

    def weights(self):
        C, f = find_method(self.ci, "_get_weights")
        if f is None:
            raise Unsupported("_get_weights not found")
        rets = [n for n in ast.walk(f) if isinstance(n, ast.Return)]
        if len(rets) != 1 or not isinstance(rets[0].value, ast.List):
            raise Unsupported("_get_weights does not return a list literal")
        names = []
        for e in rets[0].value.elts:
            if isinstance(e, ast.Attribute) and isinstance(e.value, ast.Name) and e.attr in WEIGHT_AXES:
                names.append(e.attr)
            else:
                raise Unsupported(f"weight expression {norm_src(e)}")
        return names


def check_model_gradient(pm, cname):
    """-> list of (weight name, status, detail) ; status: exact | different | undecided"""
    X.SIMPLEX["on"] = False
    M = ModelTerms(pm, cname)
    names = M.weights()
    x_in = input_array("X", ["N", "D"])
    Y = M.run_method("_infer", [x_in, True])
    Y = scalar(Y)
    if tuple(Y.shape) != ("N", "K"):
        raise Unsupported(f"_infer returns axes {list(Y.shape)}")
    grads = M.run_method("_compute_grads", [x_in, input_array("y", ["N", "K"]), input_array("g", ["N", "K"])])
    if isinstance(grads, (list, tuple)) and len(grads) == len(names):
        grads = M.effective_gradients([M.attr_default("self." + n_) for n_ in names], list(grads))
    if not isinstance(grads, (list, tuple)) or len(grads) != len(names):
        return [("*", "different", f"_compute_grads returns {len(grads) if isinstance(grads, (list, tuple)) else type(grads).__name__} arrays for {len(names)} weights {names}")]
    # penalty term of the regularised objective
    pen = None
    for C in M.ci.mro:
        if C.name in PENALTIES:
            env = {k: input_array(k, v) for k, v in list(WEIGHT_AXES.items()) + list(EXTRA_AXES.items())}
            env["reg"] = TArr((), Poly.sym("reg"))
            fn = ast.parse("def pen():\n    return " + PENALTIES[C.name]).body[0]
            pen = scalar(TermInterp(env, {}, mode="model").run(fn)).term
            break

    def y_entry(idx):
        return subst(Y.term, {ph("N", 0): idx[0], ph("K", 1): idx[1]})
    out = []
    for name, g in zip(names, grads):
        axes = WEIGHT_AXES[name]
        g = scalar(g)
        if [d for d in g.shape] != axes:
            out.append((name, "different", f"gradient axes {list(g.shape)} for a weight of axes {axes}"))
            continue
        tgt = tuple(fresh(d) for d in axes if d != 1)
        # reference: - sum_{n,k} g[n,k] dY[n,k]/dtheta + d penalty/dtheta
        n, k = fresh("N"), fresh("K")
        dY = diff(y_entry((n, k)), name, _full_target(axes, tgt))
        ref = -mk_sum([(n, "N"), (k, "K")], Poly.atom(X.mk_var("g", (n, k))) * dY)
        if pen is not None:
            ref = ref + diff(pen, name, _full_target(axes, tgt))
        mp = {}
        it = iter(tgt)
        for pos, d in enumerate(axes):
            if d != 1:
                mp[ph(d, pos)] = next(it)
        code = subst(g.term, mp)
        code = replace_tensor(code, "y", lambda idx: y_entry(idx))
        D_ = code - ref
        if is_zero(D_):
            out.append((name, "exact", ""))
        else:
            out.append((name, "different", f"code - chain rule = {repr(D_)[:220]}"))
    return out


def _full_target(axes, tgt):
    """target index tuple for diff: tensors of axes [1, K] are stored with a placeholder only on their symbolic axes"""
    return tuple(tgt)
