"""E8 applied to the estimators: the gradients returned by _compute_grads are the chain rule through the model's own forward
function (_infer), with the sign that makes the optimiser ascend the objective, plus the gradient of the model's penalty."""
import ast

from . import e8_index as X
from .e8_index import Poly, Unsupported, subst, diff, is_zero, mk_sum, replace_tensor, fresh
from .e8_numpy import TermInterp, input_array, scalar, TArr, ph
from .pm import norm_src

# learned tensors and their axes (N samples, D input features / training points, H hidden units, K clusters)
WEIGHT_AXES = {"W_": ["D", "K"], "b_": [1, "K"], "W1_": ["D", "H"], "b1_": [1, "H"], "W2_": ["H", "K"], "b2_": [1, "K"], "W_skip_": ["D", "K"],
               "logits_": ["N", "K"]}
# extra tensors read by some models
EXTRA_AXES = {"_training_kernel": ["D", "D"]}
# penalty subtracted from the GEMINI by the model (objective = GEMINI - penalty), as a term builder
PENALTIES = {
    "RIM": "reg * np.sum(W_ * W_)",
    "KernelRIM": "reg * np.sum(W_ * (_training_kernel @ W_))",
}

ASSUMPTIONS = [
    "softmax(z)[n,k] = exp(z[n,k]) / sum_l exp(z[n,l]); np.maximum(z, 0) = z * [z > 0] with derivative [z > 0]; the retained activation self.H_ is the one "
    "computed by _infer on the same batch (C03-b / C12-c)",
    "the regularised objectives: RIM = MI - reg * ||W||_F^2, KernelRIM = MI - reg * trace(W^T K W) with K the symmetric training kernel",
]


def find_method(ci, name):
    for C in ci.mro:
        if name in C.methods:
            return C, C.methods[name]
    return None, None


class ModelTerms:
    def __init__(self, pm, cname):
        self.pm = pm
        self.ci = pm.classes[cname]
        self.cname = cname
        self.attrs = {}
        X.SYMMETRIC.add("_training_kernel")

    def attr_default(self, key):
        name = key.split(".", 1)[1] if "." in key else key
        if name in WEIGHT_AXES:
            return input_array(name, WEIGHT_AXES[name])
        if name in EXTRA_AXES:
            return input_array(name, EXTRA_AXES[name])
        if name in ("reg",):
            return TArr((), Poly.sym(name))
        return None

    def effective_gradients(self, weights, grads):
        """the gradients handed to the optimiser: _update_weights may add the penalty gradient before the step"""
        seen = []
        C, f = find_method(self.ci, "_update_weights")
        if f is None:
            return grads

        def run(C_, f_, w_, g_):
            params = [a.arg for a in f_.args.args]
            env = {params[0]: None, params[1]: w_, params[2]: list(g_)}

            def sup(m, a):
                # super()._update_weights(weights, gradients): the inherited step, with the same observation of update_params
                mro = self.ci.mro
                for B in mro[mro.index(C_) + 1:]:
                    if m in B.methods:
                        if m != "_update_weights" or len(a) != 2:
                            raise Unsupported(f"super().{m} inside _update_weights")
                        return run(B, B.methods[m], a[0], a[1])
                raise Unsupported(f"super().{m} not found")
            I = TermInterp(env, self.attrs, mode="model", attr_default=self.attr_default, super_call=sup)
            I.on_update = lambda w, g: seen.append(list(g))
            return I.run(f_)
        run(C, f, weights, grads)
        if len(seen) != 1:
            raise Unsupported("_update_weights does not hand the gradients to optimiser_.update_params exactly once")
        return seen[0]

    def resolve_func(self, name):
        """the unique module-level function of the package with this name (a helper shared between modules), else None"""
        hits = [st for u in self.pm.units.values() for st in u.tree.body if isinstance(st, ast.FunctionDef) and st.name == name]
        return hits[0] if len(hits) == 1 else None

    def run_method(self, name, args, start_after=None):
        mro = self.ci.mro
        if start_after is not None:
            mro = mro[mro.index(start_after) + 1:]
        for C in mro:
            if name in C.methods:
                f = C.methods[name]
                params = [a.arg for a in f.args.args]
                env = {params[0]: None}
                defaults = f.args.defaults
                for i, p_ in enumerate(params[1:]):
                    if i < len(args):
                        env[p_] = args[i]
                    else:
                        dflt = defaults[i - (len(params) - 1 - len(defaults))] if i >= len(params) - 1 - len(defaults) else None
                        env[p_] = ast.literal_eval(dflt) if dflt is not None else None
                I = TermInterp(env, self.attrs, mode="model", attr_default=self.attr_default,
                               super_call=lambda m, a, C=C: self.run_method(m, a, start_after=C))
                I.func_resolver = self.resolve_func
                return I.run(f)
        raise Unsupported(f"method {name} not found")

    def weights(self):
        C, f = find_method(self.ci, "_get_weights")
        if f is None:
            raise Unsupported("_get_weights not found")
        rets = [n for n in ast.walk(f) if isinstance(n, ast.Return)]
        if len(rets) != 1 or not isinstance(rets[0].value, ast.List):
            raise Unsupported("_get_weights does not return a list literal")
        names = []
        for e in rets[0].value.elts:
            if isinstance(e, ast.Attribute) and isinstance(e.value, ast.Name) and e.attr in WEIGHT_AXES:
                names.append(e.attr)
            else:
                raise Unsupported(f"weight expression {norm_src(e)}")
        return names


def check_model_gradient(pm, cname):
    """-> list of (weight name, status, detail) ; status: exact | different | undecided"""
    X.SIMPLEX["on"] = False
    M = ModelTerms(pm, cname)
    names = M.weights()
    x_in = input_array("X", ["N", "D"])
    Y = M.run_method("_infer", [x_in, True])
    Y = scalar(Y)
    if tuple(Y.shape) != ("N", "K"):
        raise Unsupported(f"_infer returns axes {list(Y.shape)}")
    grads = M.run_method("_compute_grads", [x_in, input_array("y", ["N", "K"]), input_array("g", ["N", "K"])])
    if isinstance(grads, (list, tuple)) and len(grads) == len(names):
        grads = M.effective_gradients([M.attr_default("self." + n_) for n_ in names], list(grads))
    if not isinstance(grads, (list, tuple)) or len(grads) != len(names):
        return [("*", "different", f"_compute_grads returns {len(grads) if isinstance(grads, (list, tuple)) else type(grads).__name__} arrays for {len(names)} weights {names}")]
    # penalty term of the regularised objective
    pen = None
    for C in M.ci.mro:
        if C.name in PENALTIES:
            env = {k: input_array(k, v) for k, v in list(WEIGHT_AXES.items()) + list(EXTRA_AXES.items())}
            env["reg"] = TArr((), Poly.sym("reg"))
            fn = ast.parse("def pen():\n    return " + PENALTIES[C.name]).body[0]
            pen = scalar(TermInterp(env, {}, mode="model").run(fn)).term
            break

    def y_entry(idx):
        return subst(Y.term, {ph("N", 0): idx[0], ph("K", 1): idx[1]})
    out = []
    for name, g in zip(names, grads):
        axes = WEIGHT_AXES[name]
        g = scalar(g)
        if [d for d in g.shape] != axes:
            out.append((name, "different", f"gradient axes {list(g.shape)} for a weight of axes {axes}"))
            continue
        tgt = tuple(fresh(d) for d in axes if d != 1)
        # reference: - sum_{n,k} g[n,k] dY[n,k]/dtheta + d penalty/dtheta
        n, k = fresh("N"), fresh("K")
        dY = diff(y_entry((n, k)), name, _full_target(axes, tgt))
        ref = -mk_sum([(n, "N"), (k, "K")], Poly.atom(X.mk_var("g", (n, k))) * dY)
        if pen is not None:
            ref = ref + diff(pen, name, _full_target(axes, tgt))
        mp = {}
        it = iter(tgt)
        for pos, d in enumerate(axes):
            if d != 1:
                mp[ph(d, pos)] = next(it)
        code = subst(g.term, mp)
        code = replace_tensor(code, "y", lambda idx: y_entry(idx))
        D_ = code - ref
        if is_zero(D_):
            out.append((name, "exact", ""))
        else:
            out.append((name, "different", f"code - chain rule = {repr(D_)[:220]}"))
    return out


def _full_target(axes, tgt):
    """target index tuple for diff: tensors of axes [1, K] are stored with a placeholder only on their symbolic axes"""
    return tuple(tgt)


# ------------------------------------------------------------------------------------------------ Douglas (local chain rules)
def douglas_local(pm):
    """two fragments of Douglas._compute_grads judged with declared inputs (the Kronecker / cumsum / sort parts are outside the
    translated subset):
      (1) leaf scores: y = softmax(L @ S) with L = self._leaf -> direction of S is -(L^T (softmax backprop of g))
      (2) one soft binning: B = softmax(z / T); given weighted_grad = g * B, the gradient on z is sum_l g[n,l] dB[n,l]/dz[n,j]
    -> list of (site, status, detail)"""
    import copy
    from .e8_index import mk_exp, mk_pow, mk_var
    from .e8_numpy import binop, reduce_sum
    X.SIMPLEX["on"] = False
    ci = pm.classes["Douglas"]
    f = ci.methods["_compute_grads"]
    inf = ci.methods["_infer"]
    out = []
    params = [a.arg for a in f.args.args]
    # ---- structural facts about _infer that the declared inputs rely on
    src = [norm_src(s_) for s_ in ast.walk(inf) if isinstance(s_, (ast.Assign, ast.Return))]
    ok_forward = any(s_.replace(" ", "") in ("y_pred=leaf@self.leaf_scores_",) for s_ in src) and "return softmax(y_pred)" in src and "self._leaf = leaf" in src \
        and "self._all_binnings = all_binnings" in src
    if not ok_forward:
        return [("Douglas: forward structure", "undecided", "the last steps of _infer are not `y_pred = leaf @ self.leaf_scores_; return softmax(y_pred)` with the retained "
                 "leaf / binnings")]
    # ---- (1) leaf scores
    L = input_array("L", ["N", "A"])
    S = input_array("S", ["A", "K"])
    from .e8_numpy import matmul
    zL = matmul(L, S)
    ez = TArr(zL.shape, mk_exp(zL.term))
    Y = binop("div", ez, reduce_sum(ez, 1, True))
    attrs = {f"{params[0]}._leaf": L, f"{params[0]}.leaf_scores_": S}
    env = {params[0]: None, params[1]: input_array("X", ["N", "D"]), params[2]: input_array("y", ["N", "K"]), params[3]: input_array("g", ["N", "K"])}
    I = TermInterp(env, attrs, mode="model")
    first = None
    try:
        for st in f.body:
            I.stmt(st)
            if isinstance(st, ast.Assign) and norm_src(st.targets[0]) == "updates":
                first = I.env["updates"]
                break
    except Unsupported as e:
        return [("Douglas: direction of leaf_scores_", "undecided", f"outside the translated subset before `updates` is built: {e}")]
    if not (isinstance(first, list) and first and isinstance(first[0], TArr)):
        return [("Douglas: direction of leaf_scores_", "undecided", "no `updates = [...]` list")]
    g0 = first[0]
    if list(g0.shape) != ["A", "K"]:
        out.append(("Douglas: direction of leaf_scores_", "different", f"axes {list(g0.shape)}, expected [A, K] (leaves x clusters)"))
    else:
        a, k = fresh("A"), fresh("K")
        n, l = fresh("N"), fresh("K")
        y_entry = lambda idx: subst(Y.term, {ph("N", 0): idx[0], ph("K", 1): idx[1]})
        ref = -mk_sum([(n, "N"), (l, "K")], Poly.atom(mk_var("g", (n, l))) * diff(y_entry((n, l)), "S", (a, k)))
        code = replace_tensor(subst(g0.term, {ph("A", 0): a, ph("K", 1): k}), "y", y_entry)
        out.append(("Douglas: direction of leaf_scores_", "exact" if is_zero(code - ref) else "different",
                    "" if is_zero(code - ref) else f"code - chain rule = {repr(code - ref)[:200]}"))
    # ---- (1b) gradient on the leaf memberships: the [N, A] array that the Kronecker marginalisation starts from
    site_g = "Douglas: gradient on the leaf memberships"
    cands = []
    for st in f.body:
        if isinstance(st, ast.Assign) and len(st.targets) == 1 and isinstance(st.targets[0], ast.Name):
            v_ = I.env.get(st.targets[0].id)
            if isinstance(v_, TArr) and list(v_.shape) == ["N", "A"] and st.targets[0].id not in [c_[0] for c_ in cands]:
                cands.append((st.targets[0].id, v_))
        if isinstance(st, ast.Assign) and norm_src(st.targets[0]) == "updates":
            break
    if not cands:
        out.append((site_g, "undecided", "no [samples x leaves] array is computed before the updates are built"))
    else:
        n, a = fresh("N"), fresh("A")
        n2, l = fresh("N"), fresh("K")
        ref = mk_sum([(n2, "N"), (l, "K")], Poly.atom(mk_var("g", (n2, l))) * diff(y_entry((n2, l)), "L", (n, a)))
        verdicts = []
        for name_, arr in cands:
            code = replace_tensor(subst(arr.term, {ph("N", 0): n, ph("A", 1): a}), "y", y_entry)
            verdicts.append((name_, is_zero(code - ref), code - ref))
        good = [v_ for v_ in verdicts if v_[1]]
        if good:
            out.append((site_g, "exact", f"name={good[0][0]}"))
        else:
            out.append((site_g, "different", f"`{verdicts[0][0]}` - chain rule = {repr(verdicts[0][2])[:200]}"))
    # ---- (2) the softmax of one binning, inside the loop over the features
    loops = [n_ for n_ in f.body if isinstance(n_, ast.For)]
    site = "Douglas: gradient on the bin logits"
    if len(loops) != 1:
        out.append((site, "undecided", "no single loop over the features"))
        return out
    stmts = [s_ for s_ in loops[0].body if isinstance(s_, (ast.Assign, ast.AugAssign)) and norm_src(s_.targets[0] if isinstance(s_, ast.Assign) else s_.target) == "bin_grad"]
    if not stmts:
        out.append((site, "undecided", "no assignment to bin_grad"))
        return out
    z = input_array("z", ["N", "B"])
    T = TArr((), Poly.sym("T"))
    zt = binop("div", z, T)
    eb = TArr(zt.shape, mk_exp(zt.term))
    B = binop("div", eb, reduce_sum(eb, 1, True))
    gB = input_array("gB", ["N", "B"])
    idx_name = loops[0].target.elts[0].id if isinstance(loops[0].target, ast.Tuple) and isinstance(loops[0].target.elts[0], ast.Name) else "i"

    class BinInterp(TermInterp):
        def subscript(self, e):
            if norm_src(e) == f"{params[0]}._all_binnings[{idx_name}]":
                return B
            return TermInterp.subscript(self, e)
    J = BinInterp({params[0]: None, "weighted_grad": binop("mul", gB, B), idx_name: 0}, {f"{params[0]}.temperature": T}, mode="model")
    try:
        for st in stmts:
            J.stmt(st)
    except Unsupported as e:
        out.append((site, "undecided", f"outside the translated subset: {e}"))
        return out
    bg = J.env.get("bin_grad")
    if not isinstance(bg, TArr) or list(bg.shape) != ["N", "B"]:
        out.append((site, "different", f"bin_grad has axes {list(getattr(bg, 'shape', []))}, expected [N, B]"))
        return out
    n, j, l = fresh("N"), fresh("B"), fresh("B")
    b_entry = lambda idx: subst(B.term, {ph("N", 0): idx[0], ph("B", 1): idx[1]})
    ref = mk_sum([(l, "B")], Poly.atom(mk_var("gB", (n, l))) * diff(b_entry((n, l)), "z", (n, j)))
    # d/dz[n,j] of B[n,l] carries delta(n,n) = 1 for the same row
    code = subst(bg.term, {ph("N", 0): n, ph("B", 1): j})
    out.append((site, "exact" if is_zero(code - ref) else "different", "" if is_zero(code - ref) else f"code - chain rule = {repr(code - ref)[:200]}"))
    return out


def douglas_kronecker(pm):
    """the merged leaf axis must enumerate (features merged so far, new feature) in this order, the order in which
    _compute_grads un-flattens it (one axis per entry of cut_points_list_, in list order). -> (status, detail)"""
    X.SIMPLEX["on"] = False
    ci = pm.classes["Douglas"]
    f = ci.methods.get("_merge_leaf")
    if f is None:
        raise Unsupported("_merge_leaf not found")
    params = [a.arg for a in f.args.args]
    a_in, b_in = input_array("a", ["N", "A"]), input_array("b", ["N", "B"])
    I = TermInterp({params[0]: None, params[1]: a_in, params[2]: b_in}, {}, mode="model")
    ret = None
    for st in f.body:
        if isinstance(st, ast.Return):
            ret = st
            break
        I.stmt(st)
    if ret is None:
        raise Unsupported("no return")
    v = ret.value
    # <expr>.reshape((-1, prod)) / np.reshape(<expr>, (-1, prod))
    inner = None
    if isinstance(v, ast.Call) and isinstance(v.func, ast.Attribute) and v.func.attr == "reshape":
        inner = v.func.value
    elif isinstance(v, ast.Call) and norm_src(v.func) in ("np.reshape",) and v.args:
        inner = v.args[0]
    if inner is None:
        raise Unsupported(f"the merged leaf is not flattened by a reshape: {norm_src(v)[:60]}")
    prod = I.ev(inner)
    if not isinstance(prod, TArr) or prod.ndim != 3:
        raise Unsupported("the value flattened is not a 3-d product")
    from .e8_index import mk_var
    want = Poly.atom(mk_var("a", (ph("N", 0), ph("A", 1)))) * Poly.atom(mk_var("b", (ph("N", 0), ph("B", 2))))
    if list(prod.shape) == ["N", "A", "B"] and prod.term == want:
        return "exact", "leaf[n, (i, j)] = first[n, i] * second[n, j], first operand major"
    if list(prod.shape) == ["N", "B", "A"]:
        return "different", ("the product is laid out [N, new feature, merged features]: the flattened leaf axis enumerates the NEW feature first, while _compute_grads "
                             "reshapes it with one axis per feature in list order - every cut point receives the gradient of another feature's marginal")
    return "different", f"the product has axes {list(prod.shape)} and entries {prod.term!r}, not first[n,i] * second[n,j]"
