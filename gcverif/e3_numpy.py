"""Transfer functions of the named-axis interpreter for numpy / scikit-learn / POT / builtins (the trusted table)."""
import ast

from .e3_axes import (Ax, UNK, ONE, Arr, Num, Tup, Lst, Dct, NoneV, StrV, Obj, Fun, Gen, Top, is_top, join)
from .pm import norm_src


# ------------------------------------------------------------------------------------------ helpers
def dim_to_ax(v):
    if isinstance(v, Num):
        if v.dimof is not None:
            return v.dimof
        if isinstance(v.const, int) and not isinstance(v.const, bool):
            return Ax(v.const)
    return UNK


def shape_to_axes(v):
    if isinstance(v, Tup):
        return [dim_to_ax(x) for x in v.items]
    if isinstance(v, Lst) and v.items is not None:
        return [dim_to_ax(x) for x in v.items]
    if isinstance(v, Num):
        return [dim_to_ax(v)]
    return None


def elem_of_dtype(kwargs, default="f"):
    d = kwargs.get("dtype")
    if isinstance(d, StrV) and d.const:
        if "int" in d.const:
            return "i"
        if "bool" in d.const:
            return "b"
        return "f"
    if isinstance(d, Fun) and d.kind == "builtin":
        return {"int": "i", "bool": "b", "float": "f"}.get(d.target, default)
    return default


def get_axis(args, kwargs, pos, name="axis"):
    v = kwargs.get(name)
    if v is None and len(args) > pos:
        v = args[pos]
    if v is None or isinstance(v, NoneV):
        return None
    if isinstance(v, Num) and isinstance(v.const, int):
        return v.const
    if isinstance(v, Tup):
        out = []
        for x in v.items:
            if isinstance(x, Num) and isinstance(x.const, int):
                out.append(x.const)
            else:
                return "unknown"
        return tuple(out)
    return "unknown"


def get_flag(kwargs, name, args=None, pos=None):
    v = kwargs.get(name)
    if v is None and args is not None and pos is not None and len(args) > pos:
        v = args[pos]
    if isinstance(v, Num) and v.const is not None:
        return bool(v.const)
    return False if v is None else None


def reduce_axes(I, x, axis, keepdims, node, op, cls="reduce", result_elem=None, index_result=False):
    if is_top(x):
        return Top("reduce of Top")
    if isinstance(x, Num):
        return x
    if isinstance(x, Lst):
        return Top("reduce of list")
    if not isinstance(x, Arr):
        return Top("reduce")
    elem = result_elem or x.elem
    n = len(x.axes)
    if axis is None:
        for a in x.axes:
            I.usage(node, op, a, cls)
        if index_result:
            return Num("i")
        if keepdims:
            return Arr([ONE] * n, elem)
        return Num(elem if elem != "b" or op in ("all", "any") else "i")
    if axis == "unknown" or keepdims is None:
        return Top("reduce with unknown axis")
    axs = (axis,) if isinstance(axis, int) else tuple(axis)
    norm = []
    for a in axs:
        if a < -n or a >= n:
            I.event("axis-mismatch", node, f"{op} over axis {a} of a rank-{n} array {x!r}")
            return Top("bad axis")
        norm.append(a % n)
    out = []
    space = None
    for i, a in enumerate(x.axes):
        if i in norm:
            I.usage(node, op, a, cls)
            if index_result:
                space = a
            if keepdims:
                out.append(ONE)
        else:
            out.append(a)
    if not out:
        return Num(elem, space=space)
    return Arr(out, "i" if index_result else elem, space if index_result else None)


def unary_same(x):
    if isinstance(x, Arr):
        return Arr(x.axes, "f" if x.elem != "f" else x.elem)
    if isinstance(x, Num):
        return Num("f")
    return Top("unary of " + type(x).__name__)


def factors(ax):
    if ax.one:
        return []
    if ax.unknown:
        return None
    if isinstance(ax.name, int):
        return [ax.name]
    return sorted(ax.name.split("*")) if "*" in ax.name and "(" not in ax.name.replace("(", "", 0) else [ax.name]


def product_ax(axes):
    fs = []
    for a in axes:
        f = _fact(a)
        if f is None:
            return UNK
        fs += f
    if not fs:
        return ONE
    if len(fs) == 1:
        return Ax(fs[0])
    return Ax("*".join(sorted(map(str, fs))))


def _fact(a):
    if a.one:
        return []
    if a.unknown:
        return None
    if isinstance(a.name, int):
        return [a.name]
    return _split_top_star(a.name)


def _split_top_star(s):
    parts, depth, cur = [], 0, []
    for ch in s:
        if ch == "(":
            depth += 1
        elif ch == ")":
            depth -= 1
        if ch == "*" and depth == 0:
            parts.append("".join(cur))
            cur = []
        else:
            cur.append(ch)
    parts.append("".join(cur))
    return parts


def do_reshape(I, x, shape, node):
    if not isinstance(x, Arr):
        return Top("reshape of non-array")
    tgt = shape.items if isinstance(shape, (Tup,)) else (shape.items if isinstance(shape, Lst) and shape.items is not None else None)
    if tgt is None:
        return Top("reshape to unknown shape")
    fin = []
    unknown_in = False
    for a in x.axes:
        f = _fact(a)
        if f is None:
            unknown_in = True
        else:
            fin += [str(z) for z in f]
    out = []
    minus = None
    known = []
    bad = False
    for i, t in enumerate(tgt):
        if isinstance(t, Num) and t.const == -1:
            minus = i
            out.append(None)
            continue
        a = dim_to_ax(t)
        out.append(a)
        f = _fact(a)
        if f is None:
            bad = True
        else:
            known += [str(z) for z in f]
    if minus is not None:
        if unknown_in or bad:
            # (-1, <computed>) keeps the leading axis when everything else was computed from the trailing shape
            if minus == 0 and x.axes and all(isinstance(t, Num) and t.const is None for t in tgt[1:]) and not x.axes[0].unknown:
                out[minus] = x.axes[0]
            else:
                out[minus] = UNK
        else:
            rest = list(fin)
            ok = True
            for k in known:
                if k in rest:
                    rest.remove(k)
                else:
                    ok = False
            if ok:
                out[minus] = ONE if not rest else Ax(rest[0] if len(rest) == 1 else "*".join(sorted(rest)))
                out[minus] = _intify(out[minus])
            else:
                out[minus] = UNK
    elif not unknown_in and not bad:
        if sorted(fin) != sorted(known):
            I.event("axis-mismatch", node, f"reshape of {x!r} to axes {out} changes the number of elements")
    return Arr(out, x.elem, x.space)


def _intify(a):
    try:
        return Ax(int(a.name)) if isinstance(a.name, str) and a.name.isdigit() else a
    except Exception:
        return a


def concat_ax(axes):
    """axis resulting from concatenating along axes of these sizes"""
    const = 0
    syms = []
    for a in axes:
        if a.unknown:
            return UNK
        if isinstance(a.name, int):
            const += a.name
        else:
            syms.append(a.name)
    if not syms:
        return Ax(const)
    if len(syms) == 1:
        return Ax(f"{syms[0]}+{const}") if const else Ax(syms[0])
    return UNK


# ------------------------------------------------------------------------------------------ numpy functions
REDUCERS = {"sum": "reduce", "mean": "reduce", "max": "reduce", "min": "reduce", "prod": "reduce", "all": "reduce",
            "any": "reduce", "std": "reduce", "var": "reduce", "amax": "reduce", "amin": "reduce", "median": "reduce",
            "average": "reduce", "nanmean": "reduce", "nansum": "reduce", "nanmax": "reduce", "nanmin": "reduce", "ptp": "reduce",
            "percentile": "reduce", "quantile": "reduce", "count_nonzero": "reduce", "logsumexp": "reduce"}
ELEMENTWISE1 = {"log", "sqrt", "square", "sign", "abs", "absolute", "exp", "isnan", "isfinite", "negative", "floor", "ceil",
                "tanh", "log1p", "ascontiguousarray", "asarray", "copy", "nan_to_num"}
ELEMENTWISE2 = {"maximum", "minimum", "add", "subtract", "multiply", "divide", "power", "logical_and", "logical_or"}


def call_np(I, name, args, kwargs, node, fr):
    if name.startswith("linalg."):
        sub = name.split(".", 1)[1]
        if sub == "norm":
            x = args[0] if args else Top()
            axis = get_axis(args, kwargs, 2)
            return reduce_axes(I, x, axis, get_flag(kwargs, "keepdims"), node, "norm", result_elem="f")
        if sub in ("inv", "pinv", "cholesky", "matrix_power"):
            x = args[0] if args else Top()
            if isinstance(x, Arr) and len(x.axes) >= 2:
                return Arr(list(x.axes[:-2]) + [x.axes[-1], x.axes[-2]] if sub == "pinv" else x.axes, "f")
            return Top("np.linalg." + sub)
        if sub in ("det", "slogdet", "matrix_rank", "cond"):
            return Num("f")
        if sub == "solve":
            a, b = (args + [Top(), Top()])[:2]
            if isinstance(a, Arr) and isinstance(b, Arr) and len(a.axes) >= 2:
                I.contract(a.axes[-2], b.axes[0] if len(b.axes) <= 2 else b.axes[-2], node, a, b)
                return Arr([a.axes[-1]] + list(b.axes[1:]), "f")
            return Top("np.linalg.solve")
        if sub in ("eigvals", "eigvalsh"):
            x = args[0] if args else Top()
            if isinstance(x, Arr) and len(x.axes) >= 2:
                return Arr(x.axes[:-1], "f")
            return Top("eigvals")
        return Top("np.linalg." + sub)
    if name.startswith("random."):
        I.event("global-rng", node, f"draw from the global numpy RNG: np.{name}")
        return Top("np.random")
    if name in REDUCERS:
        x = args[0] if args else Top()
        if isinstance(x, (Tup, Lst)) and name == "prod":
            items = x.items if x.items is not None else None
            if items and all(isinstance(t, Num) and t.dimof is not None for t in items):
                return Num("i", dimof=product_ax([t.dimof for t in items]))
            return Num("i")
        axis = get_axis(args, kwargs, 2 if name in ("percentile", "quantile") else 1)
        return reduce_axes(I, x, axis, get_flag(kwargs, "keepdims", args, 3 if name in ("sum", "mean") else None), node, name,
                           result_elem="b" if name in ("all", "any") else ("f" if name in ("mean", "std", "var") else None))
    if name in ("argmax", "argmin"):
        x = args[0] if args else Top()
        return reduce_axes(I, x, get_axis(args, kwargs, 1), False, node, name, cls="argreduce", index_result=True)
    if name in ELEMENTWISE1:
        x = args[0] if args else Top()
        if name in ("ascontiguousarray", "asarray", "copy"):
            if isinstance(x, Lst):
                return array_from_list(x)
            return x
        if name in ("sign", "abs", "absolute", "negative", "floor", "ceil") and isinstance(x, (Arr, Num)):
            return Arr(x.axes, x.elem) if isinstance(x, Arr) else Num(x.kind)
        if name in ("isnan", "isfinite"):
            return Arr(x.axes, "b") if isinstance(x, Arr) else Num("b")
        if name in ("log", "log1p") and isinstance(x, Arr) and "softmax" in x.tags:
            I.event("unsafe-denominator", node, f"log of a softmax output {x!r}: its entries underflow to exactly 0")
        return unary_same(x)
    if name in ELEMENTWISE2:
        if len(args) < 2:
            return Top(name)
        return I.broadcast(args[0], args[1], node, opname=name)
    if name == "clip":
        x = args[0] if args else Top()
        if isinstance(x, Arr):
            return Arr(x.axes, x.elem, x.space, x.tags - {"softmax"})   # the sanitiser: clipped values are bounded away from 0
        return x if isinstance(x, Num) else Top("clip")
    if name == "where":
        if len(args) == 1:
            return nonzero(I, args[0], node)
        if len(args) == 3:
            r = I.broadcast(args[0], args[1], node, opname="where")
            r2 = I.broadcast(r, args[2], node, opname="where")
            if isinstance(r2, Arr):
                e1 = args[1].elem if isinstance(args[1], Arr) else getattr(args[1], "kind", "f")
                e2 = args[2].elem if isinstance(args[2], Arr) else getattr(args[2], "kind", "f")
                return Arr(r2.axes, "f" if "f" in (e1, e2) else "i")
            return r2
    if name == "nonzero":
        return nonzero(I, args[0] if args else Top(), node)
    if name in ("zeros", "ones", "empty", "full"):
        sh = shape_to_axes(args[0]) if args else None
        if sh is None:
            return Top(name + " of unknown shape")
        return Arr(sh, elem_of_dtype(kwargs))
    if name in ("zeros_like", "ones_like", "empty_like"):
        x = args[0] if args else Top()
        return Arr(x.axes, x.elem) if isinstance(x, Arr) else Top(name)
    if name in ("eye", "identity"):
        a = dim_to_ax(args[0]) if args else UNK
        I.usage(node, "eye", a, "pairing")
        return Arr([a, a], "f")
    if name == "diag":
        x = args[0] if args else Top()
        if isinstance(x, Arr) and len(x.axes) == 2:
            a, b = x.axes
            if a != b and a.symbolic and b.symbolic:
                I.event("axis-mismatch", node, f"np.diag of a matrix with different axes {x!r}")
            I.usage(node, "diag", a, "pairing")
            return Arr([a if not a.unknown else b], x.elem)
        if isinstance(x, Arr) and len(x.axes) == 1:
            I.usage(node, "diag", x.axes[0], "pairing")
            return Arr([x.axes[0], x.axes[0]], x.elem)
        return Top("diag")
    if name == "arange":
        if len(args) == 1 and isinstance(args[0], Num):
            a = dim_to_ax(args[0])
            if args[0].kind == "f":
                return Arr([UNK], "f")
            return Arr([a], "i", space=a if a.symbolic else None)
        return Arr([UNK], "i")
    if name == "linspace":
        n = kwargs.get("num", args[2] if len(args) > 2 else None)
        return Arr([dim_to_ax(n) if n is not None else Ax(50)], "f")
    if name == "array":
        x = args[0] if args else Top()
        if isinstance(x, Lst):
            return array_from_list(x, elem_of_dtype(kwargs, None))
        if isinstance(x, (Arr, Num)):
            return x
        return Top("np.array")
    if name == "expand_dims":
        x = args[0] if args else Top()
        axis = get_axis(args, kwargs, 1)
        if isinstance(x, Arr) and isinstance(axis, int):
            n = len(x.axes) + 1
            pos = axis % n if axis < 0 else axis
            ax = list(x.axes)
            ax.insert(pos, ONE)
            return Arr(ax, x.elem, x.space)
        return Top("expand_dims")
    if name == "repeat":
        x = args[0] if args else Top()
        reps = args[1] if len(args) > 1 else kwargs.get("repeats")
        axis = get_axis(args, kwargs, 2)
        if isinstance(x, Arr) and isinstance(axis, int):
            ax = list(x.axes)
            i = axis % len(ax)
            if ax[i].one:
                ax[i] = dim_to_ax(reps)
            else:
                ax[i] = UNK
            return Arr(ax, x.elem, x.space)
        return Top("repeat")
    if name == "transpose":
        x = args[0] if args else Top()
        axes = kwargs.get("axes", args[1] if len(args) > 1 else None)
        if isinstance(x, Arr):
            if axes is None or isinstance(axes, NoneV):
                return Arr(tuple(reversed(x.axes)), x.elem, x.space)
            items = axes.items if isinstance(axes, (Tup, Lst)) else None
            if items and all(isinstance(t, Num) and isinstance(t.const, int) for t in items) and len(items) == len(x.axes):
                return Arr([x.axes[t.const] for t in items], x.elem, x.space)
        return Top("transpose")
    if name == "squeeze":
        return do_squeeze(I, args[0] if args else Top(), get_axis(args, kwargs, 1), node)
    if name in ("dot", "matmul"):
        if len(args) < 2:
            return Top(name)
        a, b = args[0], args[1]
        if isinstance(a, Num) or isinstance(b, Num):
            return I.broadcast(a, b, node, opname="Mult")
        return I.matmul(a, b, node)
    if name == "einsum":
        return do_einsum(I, args, node)
    if name in ("sort",):
        x = args[0] if args else Top()
        axis = get_axis(args, kwargs, 1)
        if isinstance(x, Arr) and x.axes:
            i = (-1 if axis is None else axis) % len(x.axes) if isinstance(axis, int) or axis is None else None
            if i is not None:
                I.usage(node, "sort", x.axes[i], "positional")
            return Arr(x.axes, x.elem, x.space)
        return Top("sort")
    if name == "argsort":
        x = args[0] if args else Top()
        axis = get_axis(args, kwargs, 1)
        if isinstance(x, Arr) and x.axes:
            i = (-1 if axis is None else axis) % len(x.axes) if isinstance(axis, int) or axis is None else None
            if i is None:
                return Top("argsort axis")
            I.usage(node, "argsort", x.axes[i], "positional")
            tags = frozenset({"perm"})
            if x.elem == "i" and "perm" in x.tags:
                tags = frozenset({"perm", "inverse-perm"})
            return Arr(x.axes, "i", space=x.axes[i], tags=tags)
        return Top("argsort")
    if name == "cumsum":
        x = args[0] if args else Top()
        axis = get_axis(args, kwargs, 1)
        if isinstance(x, Arr) and x.axes:
            if axis is None and len(x.axes) == 1:
                axis = 0
            if isinstance(axis, int):
                I.usage(node, "cumsum", x.axes[axis % len(x.axes)], "positional")
                return Arr(x.axes, x.elem)
        return Top("cumsum")
    if name == "take_along_axis":
        x, idx = (args + [Top(), Top()])[:2]
        if isinstance(idx, Arr):
            return Arr(idx.axes, x.elem if isinstance(x, Arr) else "f")
        return Top("take_along_axis")
    if name in ("concatenate", "vstack", "hstack", "stack"):
        return do_concat(I, name, args, kwargs, node)
    if name in ("split", "array_split", "hsplit", "vsplit"):
        x = args[0] if args else Top()
        sec = args[1] if len(args) > 1 else kwargs.get("indices_or_sections")
        if isinstance(x, Arr) and x.axes:
            axis = get_axis(args, kwargs, 2)
            i = 0 if axis in (None, "unknown") else axis % len(x.axes)
            if name == "split" and isinstance(sec, Num) and not (isinstance(sec.const, int) and sec.const == 1):
                I.event("unequal-split", node, f"np.split({x!r}, {sec!r}) raises unless the number of sections divides the axis {x.axes[i]}; "
                        f"np.array_split tolerates a remainder")
            ax = list(x.axes)
            ax[i] = Ax(f"sub({ax[i]})") if ax[i].symbolic else UNK
            I.usage(node, name, x.axes[i], "positional")
            return Lst(elem=Arr(ax, x.elem, x.space), length=dim_to_ax(sec) if isinstance(sec, Num) else UNK)
        return Top(name)
    if name == "unique":
        x = args[0] if args else Top()
        # the table of distinct values has an axis of its own (sorted order): positions in another table of the same values
        # (a list(set(...)), in hash order) are not positions in this one
        ua = Ax(f"uniq@{getattr(node, 'lineno', 0)}")
        if isinstance(x, Arr):
            return Arr([ua], x.elem, x.space, frozenset({"unique"}))
        if isinstance(x, Lst):
            e = x.element()
            return Arr([ua], getattr(e, "kind", "f"), getattr(e, "space", None), frozenset({"unique"}))
        return Top("unique")
    if name == "setxor1d" or name == "setdiff1d" or name == "intersect1d" or name == "union1d":
        a = args[0] if args else Top()
        b = args[1] if len(args) > 1 else Top()
        if isinstance(a, Arr) and isinstance(b, Arr):
            I.check_same_space(a, b, node, name)
            return Arr([UNK], a.elem, a.space)
        return Top(name)
    if name == "copyto":
        if len(args) >= 2:
            dst, src = args[0], args[1]
            if isinstance(dst, Arr) and isinstance(src, Arr):
                if len(dst.axes) != len(src.axes):
                    I.event("axis-mismatch", node, f"np.copyto of {src!r} into {dst!r}")
                else:
                    I.broadcast(dst, src, node, opname="copyto", inplace=True)
        return NoneV()
    if name == "ix_":
        items = []
        n_ = len(args)
        for i_, a_ in enumerate(args):
            if isinstance(a_, Arr) and len(a_.axes) == 1:
                items.append(Arr([a_.axes[0] if j_ == i_ else ONE for j_ in range(n_)], a_.elem, a_.space))
            elif isinstance(a_, Lst):
                el = a_.element()
                items.append(Arr([a_.length if j_ == i_ else ONE for j_ in range(n_)], "i", getattr(el, "space", None)))
            else:
                return Top("ix_")
        return Tup(items)
    if name == "fill_diagonal":
        x = args[0] if args else Top()
        if isinstance(x, Arr) and len(x.axes) == 2:
            a, b = x.axes
            if a != b and a.symbolic and b.symbolic:
                I.event("axis-mismatch", node, f"np.fill_diagonal of a matrix with different axes {x!r}")
            I.usage(node, "fill_diagonal", a, "pairing")
            return NoneV()
        return Top("fill_diagonal")
    # ---------------- wider numpy surface (so that rewrites and defects using them are judged rather than unknown)
    if name in ("flip", "flipud", "fliplr", "roll"):
        x = args[0] if args else Top()
        if isinstance(x, Arr):
            axis = get_axis(args, kwargs, 2 if name == "roll" else 1)
            axes_ = range(len(x.axes)) if axis in (None,) else ([axis % len(x.axes)] if isinstance(axis, int) else [])
            if name == "flipud":
                axes_ = [0]
            if name == "fliplr":
                axes_ = [1]
            for i in axes_:
                I.usage(node, name, x.axes[i], "positional")
            return Arr(x.axes, x.elem, x.space)
        return Top(name)
    if name in ("cumprod", "diff", "gradient", "ediff1d"):
        x = args[0] if args else Top()
        axis = get_axis(args, kwargs, 1)
        if isinstance(x, Arr) and x.axes:
            i = (len(x.axes) - 1) if axis is None else (axis % len(x.axes) if isinstance(axis, int) else None)
            if i is not None:
                I.usage(node, name, x.axes[i], "positional")
                ax = list(x.axes)
                if name in ("diff", "ediff1d"):
                    ax[i] = Ax(f"{ax[i]}-1") if ax[i].symbolic else UNK
                return Arr(ax, x.elem)
        return Top(name)
    if name in ("tile",):
        x = args[0] if args else Top()
        if isinstance(x, Arr):
            return Arr([UNK] * max(len(x.axes), 1), x.elem)
        return Top(name)
    if name == "outer":
        a, b = (args + [Top(), Top()])[:2]
        if isinstance(a, Arr) and isinstance(b, Arr) and len(a.axes) == 1 and len(b.axes) == 1:
            return Arr([a.axes[0], b.axes[0]], "f")
        return Top(name)
    if name == "trace":
        x = args[0] if args else Top()
        if isinstance(x, Arr) and len(x.axes) >= 2:
            I.usage(node, "trace", x.axes[0], "pairing")
            return Num("f") if len(x.axes) == 2 else Arr(x.axes[2:], x.elem)
        return Top(name)
    if name in ("triu", "tril"):
        x = args[0] if args else Top()
        if isinstance(x, Arr) and len(x.axes) >= 2:
            I.usage(node, name, x.axes[-1], "positional")
            I.usage(node, name, x.axes[-2], "positional")
            return Arr(x.axes, x.elem)
        return Top(name)
    if name in ("argwhere", "flatnonzero"):
        x = args[0] if args else Top()
        if isinstance(x, Arr) and x.axes:
            if name == "flatnonzero" or len(x.axes) == 1:
                return Arr([Ax(f"sel({x.axes[0]})") if x.axes[0].symbolic else UNK] + ([Ax(len(x.axes))] if name == "argwhere" else []), "i", space=x.axes[0])
            return Arr([UNK, Ax(len(x.axes))], "i")
        return Top(name)
    if name in ("logical_not", "isclose", "isinf", "signbit", "rint", "round", "around", "fix", "trunc", "reciprocal", "cbrt", "sin", "cos", "arctan", "sigmoid", "expit"):
        x = args[0] if args else Top()
        if name == "isclose" and len(args) >= 2:
            r = I.broadcast(args[0], args[1], node, opname="cmp")
            return Arr(r.axes, "b") if isinstance(r, Arr) else Num("b")
        if isinstance(x, Arr):
            return Arr(x.axes, "b" if name in ("logical_not", "isinf", "signbit") else "f")
        if isinstance(x, Num):
            return Num("b" if name in ("logical_not", "isinf", "signbit") else "f")
        return Top(name)
    if name in ("allclose", "array_equal", "may_share_memory", "shares_memory", "isscalar", "ndim"):
        return Num("b")
    if name in ("exp", "exp2", "expm1", "log2", "log10", "tanh", "arctanh", "sinh", "cosh"):
        return unary_same(args[0]) if args else Top(name)
    if name in ("searchsorted", "digitize"):
        a, v = (args + [Top(), Top()])[:2]
        src, q = (a, v) if name == "searchsorted" else (v, a)
        if isinstance(q, Arr):
            I.usage(node, name, src.axes[0] if isinstance(src, Arr) and src.axes else None, "positional")
            return Arr(q.axes, "i", space=src.axes[0] if isinstance(src, Arr) and src.axes else None)
        return Num("i")
    if name == "bincount":
        return Arr([UNK], "i")
    if name in ("partition", "argpartition"):
        x = args[0] if args else Top()
        if isinstance(x, Arr) and x.axes:
            I.usage(node, name, x.axes[-1], "positional")
            return Arr(x.axes, "i" if name == "argpartition" else x.elem, x.axes[-1] if name == "argpartition" else None)
        return Top(name)
    if name in ("delete", "insert", "append"):
        x = args[0] if args else Top()
        axis = get_axis(args, kwargs, 3 if name == "insert" else 2)
        if isinstance(x, Arr) and x.axes:
            if axis is None:
                return Arr([UNK], x.elem)
            if isinstance(axis, int):
                ax = list(x.axes)
                I.usage(node, name, ax[axis % len(ax)], "positional")
                ax[axis % len(ax)] = UNK
                return Arr(ax, x.elem)
        return Top(name)
    if name in ("full_like",):
        x = args[0] if args else Top()
        return Arr(x.axes, x.elem) if isinstance(x, Arr) else Top(name)
    if name in ("full",):
        sh = shape_to_axes(args[0]) if args else None
        return Arr(sh, elem_of_dtype(kwargs)) if sh is not None else Top(name)
    if name in ("column_stack", "dstack"):
        return Top(name)
    if name == "tensordot":
        return Top(name)
    if name == "kron":
        a, b = (args + [Top(), Top()])[:2]
        if isinstance(a, Arr) and isinstance(b, Arr) and len(a.axes) == len(b.axes):
            return Arr([product_ax([x, y]) for x, y in zip(a.axes, b.axes)], "f")
        return Top(name)
    if name in ("floor_divide", "mod", "remainder", "fmod", "hypot", "arctan2", "logaddexp", "fmax", "fmin", "logical_xor", "not_equal", "equal", "greater", "less", "greater_equal", "less_equal"):
        if len(args) >= 2:
            r = I.broadcast(args[0], args[1], node, opname="cmp" if name in ("not_equal", "equal", "greater", "less", "greater_equal", "less_equal", "logical_xor") else name)
            return r
        return Top(name)
    if name in ("atleast_1d", "atleast_2d", "asfarray", "asanyarray", "require", "squeeze_"):
        return args[0] if args else Top(name)
    if name in ("mean_", ):
        return Top(name)
    if name == "meshgrid":
        return Top(name)
    if name in ("argmax_",):
        return Top(name)
    if name == "apply_along_axis":
        return Top(name)
    if name in ("newaxis",):
        return NoneV()
    if name == "prod":
        return Num("i")
    if name == "import_array":
        return NoneV()
    if name == "shape":
        x = args[0] if args else Top()
        if isinstance(x, Arr):
            return Tup([Num("i", dimof=a) for a in x.axes])
    return Top("np." + name)


def nonzero(I, x, node):
    if isinstance(x, Arr):
        out = []
        for a in x.axes:
            out.append(Arr([Ax(f"sel({a})") if a.symbolic else UNK], "i", space=a))
        return Tup(out)
    return Top("nonzero")


def array_from_list(x, elem=None):
    e = x.element()
    if isinstance(e, Arr):
        return Arr([x.length] + list(e.axes), elem or e.elem, e.space)
    if isinstance(e, Num):
        return Arr([x.length], elem or e.kind, e.space)
    if isinstance(e, Lst):
        inner = array_from_list(e, elem)
        if isinstance(inner, Arr):
            return Arr([x.length] + list(inner.axes), inner.elem, inner.space)
    if isinstance(e, Tup):
        inner = array_from_list(Lst(e.items), elem)
        if isinstance(inner, Arr):
            return Arr([x.length] + list(inner.axes), inner.elem, inner.space)
    return Top("array of " + type(e).__name__)


def do_squeeze(I, x, axis, node):
    if not isinstance(x, Arr):
        return x if isinstance(x, Num) else Top("squeeze")
    if axis is None:
        sym = [a for a in x.axes if a.symbolic]
        ones = [a for a in x.axes if a.one]
        if sym and len(x.axes) > 1:
            I.event("squeeze-hazard", node, f"squeeze without axis on {x!r}: any of the axes {sym} may have length 1 and "
                    f"would be removed too", axes=[a.name for a in sym])
        out = [a for a in x.axes if not a.one]
        if not out:
            return Num(x.elem)
        return Arr(out, x.elem, x.space)
    if axis == "unknown":
        return Top("squeeze axis")
    axs = (axis,) if isinstance(axis, int) else axis
    n = len(x.axes)
    drop = {a % n for a in axs}
    for i in drop:
        if x.axes[i].symbolic:
            I.event("axis-mismatch", node, f"squeeze(axis={i}) on the named axis {x.axes[i]} of {x!r}")
    out = [a for i, a in enumerate(x.axes) if i not in drop]
    if not out:
        return Num(x.elem)
    return Arr(out, x.elem, x.space)


def do_einsum(I, args, node):
    if not args or not isinstance(args[0], StrV) or not args[0].const:
        return Top("einsum")
    spec = args[0].const.replace(" ", "")
    if "->" not in spec:
        return Top("implicit einsum")
    ins, out = spec.split("->")
    ins = ins.split(",")
    ops = args[1:]
    if len(ins) != len(ops):
        return Top("einsum arity")
    letter = {}
    for s, o in zip(ins, ops):
        if not isinstance(o, Arr) or len(s) != len(o.axes):
            return Top("einsum operand")
        for ch, a in zip(s, o.axes):
            if ch in letter and letter[ch] != a and not a.unknown and not letter[ch].unknown and not a.one and not letter[ch].one:
                I.event("axis-mismatch", node, f"einsum index {ch} bound to axis {letter[ch]} and axis {a}")
            letter.setdefault(ch, a)
    for ch, a in letter.items():
        if ch not in out:
            I.usage(node, "einsum-contract", a, "reduce")
    return Arr([letter.get(ch, UNK) for ch in out], "f")


def do_concat(I, name, args, kwargs, node):
    x = args[0] if args else Top()
    items = None
    if isinstance(x, Lst):
        items = x.items
    elif isinstance(x, Tup):
        items = x.items
    axis = get_axis(args, kwargs, 1)
    if name == "vstack":
        if isinstance(x, Lst) and items is None:
            e = x.element()
            if isinstance(e, Arr) and len(e.axes) == 1:
                return Arr([x.length, e.axes[0]], e.elem)
            if isinstance(e, Arr) and len(e.axes) == 2:
                return Arr([UNK, e.axes[1]], e.elem)
            return Top("vstack")
        if items:
            arrs = [a if isinstance(a, Arr) else None for a in items]
            if any(a is None for a in arrs):
                return Top("vstack item")
            arrs = [Arr([ONE] + list(a.axes), a.elem) if len(a.axes) == 1 else a for a in arrs]
            return concat_arrays(I, arrs, 0, node)
        return Top("vstack")
    if name == "stack":
        # a new leading axis (axis=0 only): one entry per stacked array
        if axis in (None, 0):
            if isinstance(x, Lst) and items is None:
                e = x.element()
                if isinstance(e, Arr):
                    return Arr([x.length] + list(e.axes), e.elem, e.space)
            if items and all(isinstance(a, Arr) for a in items):
                e = items[0]
                for a in items[1:]:
                    e = join(e, a)
                if isinstance(e, Arr):
                    return Arr([Ax(len(items))] + list(e.axes), e.elem, e.space)
        return Top("stack")
    if name == "hstack":
        axis = 1
    if axis is None:
        axis = 0
    if items is None:
        if isinstance(x, Lst):
            e = x.element()
            if isinstance(e, Arr) and isinstance(axis, int):
                ax = list(e.axes)
                i = axis % len(ax)
                # concatenating L blocks of size 1 along the axis gives an axis of size L
                ax[i] = x.length if ax[i].one else UNK
                return Arr(ax, e.elem, e.space)
        return Top("concatenate")
    arrs = [a for a in items]
    if not arrs or any(not isinstance(a, Arr) for a in arrs) or not isinstance(axis, int):
        return Top("concatenate item")
    return concat_arrays(I, arrs, axis, node)


def concat_arrays(I, arrs, axis, node):
    n = len(arrs[0].axes)
    if any(len(a.axes) != n for a in arrs):
        I.event("axis-mismatch", node, f"concatenate of arrays with different ranks: {arrs}")
        return Top("concat rank")
    i = axis % n
    out = []
    for j in range(n):
        col = [a.axes[j] for a in arrs]
        if j == i:
            out.append(concat_ax(col))
        else:
            ref = col[0]
            for c in col[1:]:
                if c != ref and not c.unknown and not ref.unknown:
                    I.event("axis-mismatch", node, f"concatenate along axis {i}: other axis {j} differs ({ref} vs {c})")
            out.append(ref)
    elem = "f" if any(a.elem == "f" for a in arrs) else arrs[0].elem
    return Arr(out, elem)


# ------------------------------------------------------------------------------------------ array methods
def call_arr_method(I, x, name, args, kwargs, node, fr):
    if isinstance(x, Num):
        if name in ("item", "copy", "squeeze", "sum", "mean", "max", "min", "astype"):
            return x
        if name == "reshape":
            shape = args[0] if len(args) == 1 and isinstance(args[0], (Tup, Lst)) else Tup(args)
            items = shape.items if shape.items is not None else []
            return Arr([ONE] * len(items), x.kind, x.space)
        return Top("Num." + name)
    if not isinstance(x, Arr):
        return Top("method of non-array")
    if name in REDUCERS:
        axis = get_axis(args, kwargs, 0)
        return reduce_axes(I, x, axis, get_flag(kwargs, "keepdims", args, 2 if name in ("sum",) else (1 if False else None)), node, name,
                           result_elem="b" if name in ("all", "any") else ("f" if name in ("mean", "std", "var") else None))
    if name in ("argmax", "argmin"):
        return reduce_axes(I, x, get_axis(args, kwargs, 0), False, node, name, cls="argreduce", index_result=True)
    if name == "reshape":
        shape = args[0] if len(args) == 1 and isinstance(args[0], (Tup, Lst)) else Tup(args)
        return do_reshape(I, x, shape, node)
    if name == "squeeze":
        return do_squeeze(I, x, get_axis(args, kwargs, 0), node)
    if name in ("copy", "astype", "view", "round", "clip", "conj"):
        if name == "astype" and args:
            d = args[0]
            e = x.elem
            if isinstance(d, StrV) and d.const:
                e = "i" if "int" in d.const else ("b" if "bool" in d.const else "f")
            elif isinstance(d, Fun) and d.kind == "builtin":
                e = {"int": "i", "bool": "b", "float": "f"}.get(d.target, e)
            return Arr(x.axes, e, x.space if e == "i" else None, x.tags)
        return Arr(x.axes, x.elem, x.space, x.tags)
    if name == "item":
        return Num(x.elem, space=x.space)
    if name == "tolist":
        if len(x.axes) == 1:
            return Lst(elem=Num(x.elem, space=x.space), length=x.axes[0])
        return Lst(elem=Top(), length=x.axes[0] if x.axes else UNK)
    if name == "transpose":
        if not args:
            return Arr(tuple(reversed(x.axes)), x.elem, x.space)
        if len(args) > 1 and all(isinstance(t, Num) for t in args):
            # x.transpose(0, 2, 1): the axes given as separate arguments
            return call_np(I, "transpose", [x, Tup(list(args))], kwargs, node, fr)
        return call_np(I, "transpose", [x] + list(args), kwargs, node, fr)
    if name in ("flatten", "ravel"):
        return Arr([_intify(product_ax(x.axes))], x.elem, x.space)
    if name in ("dot",):
        return I.matmul(x, args[0], node) if args else Top()
    if name in ("fill",):
        return NoneV()
    if name == "sort":
        I.usage(node, "sort", x.axes[-1] if x.axes else None, "positional")
        return NoneV()
    if name == "cumsum":
        return call_np(I, "cumsum", [x] + list(args), kwargs, node, fr)
    if name == "nonzero":
        return nonzero(I, x, node)
    if name in ("cumprod", "diff", "trace", "round", "flatten", "swapaxes", "repeat", "argsort", "clip", "take", "compress", "diagonal", "ptp", "argpartition", "partition", "searchsorted"):
        if name == "swapaxes" and len(args) == 2 and all(isinstance(a, Num) and isinstance(a.const, int) for a in args):
            ax = list(x.axes)
            i, j = args[0].const % len(ax), args[1].const % len(ax)
            ax[i], ax[j] = ax[j], ax[i]
            return Arr(ax, x.elem, x.space)
        if name == "diagonal" and len(x.axes) >= 2:
            I.usage(node, "diagonal", x.axes[0], "pairing")
            return Arr([x.axes[0]] + list(x.axes[2:]), x.elem)
        if name in ("take", "compress"):
            return Top("ndarray." + name)
        return call_np(I, name, [x] + list(args), kwargs, node, fr)
    if name in ("__len__",):
        return Num("i", dimof=x.axes[0]) if x.axes else Num("i")
    return Top("ndarray." + name)


# ------------------------------------------------------------------------------------------ python containers
def call_pymethod(I, base, name, args, kwargs, node, fr):
    if isinstance(base, Lst):
        if name == "append" and args and getattr(I, "loop_lengths", None):
            # inside a loop the abstract interpreter runs the body twice: the list grows once per ITERATION, not twice
            tok, ln = I.loop_lengths[-1]
            if getattr(base, "_loop_tok", None) is tok:
                base.elem = args[0] if base.elem is None or is_top(base.elem) else join(base.elem, args[0])
            else:
                fresh = base.items is not None and len(base.items) == 0 and len(I.loop_lengths) == 1
                cur = base.element() if (base.items or (base.items is None and base.elem is not None)) else None
                base._loop_tok = tok
                base.items = None
                base.elem = args[0] if cur is None or is_top(cur) else join(cur, args[0])
                base.length = ln if fresh else UNK
            return NoneV()
        if name == "append" and args:
            if base.items is not None:
                base.items.append(args[0])
                base.length = Ax(len(base.items))
            else:
                base.elem = args[0] if base.elem is None or is_top(base.elem) else join(base.elem, args[0])
                base.length = UNK
            return NoneV()
        if name == "extend" and args:
            e = args[0].element() if isinstance(args[0], (Lst, Gen)) else (Num(args[0].elem, space=args[0].space) if isinstance(args[0], Arr) and len(args[0].axes) == 1 else Top())
            cur = base.element() if (base.items or base.elem is not None) else None
            base.items = None
            base.elem = e if cur is None or is_top(cur) else join(cur, e)
            base.length = UNK
            return NoneV()
        if name == "index" and args:
            el = base.element()
            I.check_same_space(args[0], el, node, "list.index")
            return Num("i", space=base.length if base.length.symbolic else None)
        if name == "remove":
            if args:
                I.check_same_space(args[0], base.element(), node, "list.remove")
            base.items = None if base.items is None else base.items
            if base.items is not None:
                base.elem = base.element()
                base.items = None
            base.length = UNK if not base.length.symbolic else base.length
            return NoneV()
        if name in ("copy",):
            return Lst(base.items[:] if base.items is not None else None, base.elem, base.length)
        if name in ("pop",):
            return base.element()
        if name in ("sort", "reverse", "insert", "clear"):
            return NoneV()
        if name == "count":
            return Num("i")
        return Top("list." + name)
    if isinstance(base, Dct):
        if name == "get":
            k = args[0] if args else None
            if isinstance(k, (StrV, Num)) and k.const in base.items:
                return base.items[k.const]
            return args[1] if len(args) > 1 else NoneV()
        if name in ("items",):
            return Lst(elem=Tup([StrV(), base.default or Top()]), length=UNK)
        if name in ("keys",):
            return Lst(elem=StrV(), length=UNK)
        if name in ("values",):
            vs = list(base.items.values())
            return Lst(vs) if vs else Lst(elem=Top())
        if name == "update":
            return NoneV()
        return Top("dict." + name)
    if isinstance(base, StrV):
        if base.const is not None and name in ("startswith", "endswith") and args and isinstance(args[0], StrV) and args[0].const is not None:
            return Num("b", const=getattr(base.const, name)(args[0].const))
        if base.const is not None and name in ("lower", "upper", "strip") and not args:
            return StrV(getattr(base.const, name)())
        if base.const is not None and name in ("partition", "rpartition") and len(args) == 1 and isinstance(args[0], StrV) and args[0].const:
            return Tup([StrV(x) for x in getattr(base.const, name)(args[0].const)])
        if base.const is not None and name in ("split", "rsplit") and 1 <= len(args) <= 2 and isinstance(args[0], StrV) and args[0].const \
                and all(isinstance(a, Num) and isinstance(a.const, int) for a in args[1:]):
            return Lst([StrV(x) for x in getattr(base.const, name)(args[0].const, *[a.const for a in args[1:]])])
        if base.const is not None and name in ("removesuffix", "removeprefix", "replace") and args and all(isinstance(a, StrV) and a.const is not None for a in args):
            return StrV(getattr(base.const, name)(*[a.const for a in args]))
        if name in ("partition", "rpartition"):
            return Tup([StrV(), StrV(), StrV()])
        if name in ("split", "rsplit"):
            return Lst(elem=StrV())
        return StrV()
    if isinstance(base, Tup):
        if name == "index":
            return Num("i")
    return Top("method " + name)


# ------------------------------------------------------------------------------------------ builtins
def call_builtin(I, name, args, kwargs, node, fr):
    if name == "len":
        x = args[0] if args else Top()
        if isinstance(x, Arr) and x.axes:
            a = x.axes[0]
            return Num("i", dimof=a, const=a.name if isinstance(a.name, int) else None)
        if isinstance(x, Lst):
            return Num("i", dimof=x.length, const=x.length.name if isinstance(x.length.name, int) else None)
        if isinstance(x, Tup):
            return Num("i", const=len(x.items))
        return Num("i")
    if name == "slice":
        from .e3_axes import SliceV
        if len(args) == 1:
            return SliceV(None, args[0])
        return SliceV(args[0] if args else None, args[1] if len(args) > 1 else None)
    if name == "range":
        if len(args) == 1:
            a = dim_to_ax(args[0])
            return Lst(elem=Num("i", space=a if a.symbolic else None), length=a)
        if len(args) >= 2:
            a = dim_to_ax(args[1])
            return Lst(elem=Num("i", space=a if a.symbolic else None), length=UNK)
        return Lst(elem=Num("i"))
    if name == "enumerate":
        x = args[0] if args else Top()
        if isinstance(x, Lst):
            return Lst(elem=Tup([Num("i", space=x.length if x.length.symbolic else None), x.element()]), length=x.length)
        if isinstance(x, Arr) and x.axes:
            el = Num(x.elem, space=x.space) if len(x.axes) == 1 else Arr(x.axes[1:], x.elem, x.space)
            return Lst(elem=Tup([Num("i", space=x.axes[0] if x.axes[0].symbolic else None), el]), length=x.axes[0])
        if isinstance(x, Gen):
            return Lst(elem=Tup([Num("i"), x.element()]))
        return Lst(elem=Tup([Num("i"), Top()]))
    if name == "zip":
        els = []
        length = UNK
        for x in args:
            if isinstance(x, Lst):
                els.append(x.element())
                if x.length.symbolic or isinstance(x.length.name, int):
                    length = x.length
            elif isinstance(x, Arr) and x.axes:
                els.append(Num(x.elem, space=x.space) if len(x.axes) == 1 else Arr(x.axes[1:], x.elem, x.space))
                length = x.axes[0]
            elif isinstance(x, Tup):
                els.append(Lst(x.items).element())
            else:
                els.append(Top())
        return Lst(elem=Tup(els), length=length)
    if name in ("list", "tuple", "sorted", "reversed", "iter", "frozenset", "set"):
        if not args:
            return Lst([]) if name in ("list",) else Tup([])
        x = args[0]
        if isinstance(x, Lst):
            if name == "tuple" and x.items is not None:
                return Tup(x.items)
            if name in ("set", "frozenset"):
                # the positions of a deduplicated collection form an index space of their own
                return Lst(elem=x.element(), length=Ax(f"uniq{next(I.fresh_counter)}"))
            if name == "sorted":
                return Lst(elem=x.element(), length=x.length)
            return Lst(x.items[:] if x.items is not None else None, x.elem, x.length)
        if isinstance(x, Tup):
            return Lst(list(x.items)) if name != "tuple" else x
        if isinstance(x, Gen):
            return Lst(elem=x.element())
        if isinstance(x, Arr) and x.axes:
            el = Num(x.elem, space=x.space) if len(x.axes) == 1 else Arr(x.axes[1:], x.elem, x.space)
            return Lst(elem=el, length=x.axes[0] if name not in ("set", "frozenset") else UNK)
        if isinstance(x, Dct):
            return Lst(elem=StrV())
        return Lst(elem=Top())
    if name == "map":
        f = args[0] if args else None
        x = args[1] if len(args) > 1 else Top()
        el = I.iter_element(x, node, fr)
        if isinstance(f, Fun):
            v = call_fun(I, f, [el], node, fr)
        else:
            v = Top("map")
        length = x.length if isinstance(x, Lst) else UNK
        return Lst(elem=v, length=length)
    if name == "reduce":
        f = args[0] if args else None
        x = args[1] if len(args) > 1 else Top()
        el = I.iter_element(x, node, fr)
        acc = args[2] if len(args) > 2 else el
        if isinstance(f, Fun):
            r1 = call_fun(I, f, [acc, el], node, fr)
            r2 = call_fun(I, f, [r1, el], node, fr)
            return join(join(acc, r1), r2)
        return Top("reduce")
    if name in ("min", "max"):
        if len(args) == 1:
            x = args[0]
            if isinstance(x, Lst):
                return x.element()
            if isinstance(x, Arr):
                return Num(x.elem, space=x.space)
            return Top(name)
        v = args[0]
        for w in args[1:]:
            v = join(v, w) if not (isinstance(v, Num) and isinstance(w, Num)) else Num(v.kind if v.kind == w.kind else "f",
                                                                                     dimof=v.dimof if v.dimof == w.dimof else None,
                                                                                     space=v.space if v.space == w.space else None)
        return v
    if name in ("int", "float", "bool", "round", "abs"):
        x = args[0] if args else Num("i", const=0)
        if isinstance(x, Num):
            if x.const is not None:
                try:
                    return Num({"int": "i", "float": "f", "bool": "b"}.get(name, x.kind), const={"int": int, "float": float, "bool": bool, "round": round, "abs": abs}[name](x.const))
                except Exception:
                    pass
            return Num({"int": "i", "float": "f", "bool": "b"}.get(name, x.kind), dimof=x.dimof if name == "int" else None,
                       space=x.space if name == "int" else None)
        return Num({"int": "i", "float": "f", "bool": "b"}.get(name, "f"))
    if name == "sum":
        x = args[0] if args else Top()
        el = I.iter_element(x, node, fr) if isinstance(x, (Lst, Gen, Arr, Tup)) else Top()
        return el if isinstance(el, (Num, Arr)) else Top("sum")
    if name in ("isinstance", "issubclass", "callable", "hasattr", "any", "all"):
        if name == "callable" and args:
            if isinstance(args[0], Fun):
                return Num("b", const=True)
            if isinstance(args[0], (StrV, NoneV, Num, Arr)):
                return Num("b", const=False)
        if name == "isinstance" and len(args) == 2:
            a, t = args
            if isinstance(t, Fun) and t.kind == "builtin" and t.target == "str":
                if isinstance(a, StrV):
                    return Num("b", const=True)
                if isinstance(a, (NoneV, Num, Arr, Obj)):
                    return Num("b", const=False)
            if isinstance(t, Fun) and t.kind == "class" and isinstance(a, Obj) and a.cls is not None:
                return Num("b", const=t.target in a.cls.mro)
        if name == "hasattr" and len(args) == 2 and isinstance(args[1], StrV) and args[1].const == "__len__":
            if isinstance(args[0], (Arr, Lst, Tup)):
                return Num("b", const=True)
            if isinstance(args[0], (NoneV, Num)):
                return Num("b", const=False)
        return Num("b")
    if name in ("print",):
        return NoneV()
    if name in ("str",):
        return StrV()
    if name == "dict":
        return Dct({})
    if name == "getattr":
        return Top("getattr")
    if name in ("ValueError", "TypeError"):
        return Obj(None, kind="exception")
    if name == "next":
        x = args[0] if args else Top()
        return I.iter_element(x, node, fr)
    return Top("builtin " + name)


def call_fun(I, f, args, node, fr):
    """call an abstract function value with already evaluated arguments"""
    fake = ast.Call(func=ast.Name(id="__f__", ctx=ast.Load()), args=[], keywords=[])
    ast.copy_location(fake, node)
    fake._parent = getattr(node, "_parent", None)
    if f.kind == "gem":
        unit, func = f.target
        return I.call_function(unit, func, args, {}, qual=func.name, node=node)
    if f.kind == "closure":
        unit, func = f.target
        return I._call_closure(unit, func, args, {}, dict(f.env), f)
    if f.kind == "lambda":
        unit, lam = f.target
        env = dict(f.env)
        for p, a in zip([x.arg for x in lam.args.args], args):
            env[p] = a
        from .e3_axes import Frame
        fr2 = Frame(unit, None, fr.qual + ".<lambda>", f.K, f.C, env)
        fr2.self_obj = fr.self_obj
        I.stack.append(fr2)
        try:
            return I.eval(lam.body, fr2)
        finally:
            I.stack.pop()
    if f.kind == "method":
        C, m, name = f.target
        if C.external:
            return I.external_method(f.bound, C, name, args, {}, node)
        return I.call_function(C.unit, m, args, {}, K=f.bound.cls, C=C, self_obj=f.bound, qual=f"{C.name}.{name}", node=node)
    if f.kind == "builtin":
        return call_builtin(I, f.target, args, {}, node, fr)
    if f.kind == "np":
        return call_np(I, f.target, args, {}, node, fr)
    return Top("call_fun " + f.kind)


# ------------------------------------------------------------------------------------------ installed packages
def call_ext(I, target, args, kwargs, node, fr):
    mod, sym = target[0], target[1]
    if sym in ("check_array",):
        x = args[0] if args else Top()
        if isinstance(x, Lst):
            a = array_from_list(x)
            return a
        return x
    if sym == "_validate_data_method":
        x = args[0] if args else kwargs.get("X", Top())
        return x
    if sym == "validate_data":
        est = args[0] if args else None
        x = args[1] if len(args) > 1 else kwargs.get("X", Top())
        if isinstance(est, Obj) and isinstance(x, Arr) and len(x.axes) == 2:
            est.attrs["n_features_in_"] = Num("i", dimof=x.axes[1])
            if I.on_attr_store:
                I.on_attr_store(est, "n_features_in_", node, fr)
        return x
    if sym == "check_random_state":
        return Obj(None, kind="rng")
    if sym in ("check_is_fitted",):
        return NoneV()
    if sym == "softmax":
        x = args[0] if args else Top()
        if isinstance(x, Arr) and len(x.axes) == 2:
            axis = get_axis(args, kwargs, 1)
            if mod.startswith("scipy"):
                # scipy.special.softmax normalises over ALL axes unless axis is given
                if axis is None:
                    for a_ in x.axes:
                        I.usage(node, "softmax", a_, "reduce")
                    return Arr(x.axes, "f", tags=frozenset({"softmax"}))
                if isinstance(axis, int):
                    I.usage(node, "softmax", x.axes[axis % 2], "reduce")
                    return Arr(x.axes, "f", tags=frozenset({"softmax"}))
                return Top("softmax axis")
            I.usage(node, "softmax", x.axes[1], "reduce")
            return Arr(x.axes, "f", tags=frozenset({"softmax"}))
        return Top("softmax")
    if sym == "logsumexp":
        x = args[0] if args else Top()
        return reduce_axes(I, x, get_axis(args, kwargs, 1), get_flag(kwargs, "keepdims"), node, "logsumexp", result_elem="f")
    if sym in ("expit", "log_softmax"):
        x = args[0] if args else Top()
        return Arr(x.axes, "f") if isinstance(x, Arr) else Top(sym)
    if sym in ("pairwise_kernels", "pairwise_distances"):
        x = args[0] if args else Top()
        y = args[1] if len(args) > 1 else kwargs.get("Y")
        if isinstance(x, Arr) and len(x.axes) == 2:
            if isinstance(y, Arr) and len(y.axes) == 2:
                I.contract(x.axes[1], y.axes[1], node, x, y)
                return Arr([x.axes[0], y.axes[0]], "f")
            I.usage(node, "pairwise", x.axes[0], "pairing")
            return Arr([x.axes[0], x.axes[0]], "f")
        return Top(sym)
    if sym in ("AdamOptimizer", "SGDOptimizer"):
        o = Obj(None, kind="optimizer")
        o.attrs["params"] = args[0] if args else Top()
        return o
    if sym == "emd2":
        a = args[0] if args else Top()
        b = args[1] if len(args) > 1 else Top()
        M = args[2] if len(args) > 2 else Top()
        la = a.axes[0] if isinstance(a, Arr) and len(a.axes) == 1 else UNK
        lb = b.axes[0] if isinstance(b, Arr) and len(b.axes) == 1 else UNK
        if isinstance(M, Arr) and len(M.axes) == 2:
            for want, got, which in ((la, M.axes[0], "first"), (lb, M.axes[1], "second")):
                if want != got and want.symbolic and got.symbolic:
                    I.event("axis-mismatch", node, f"ot.emd2: the {which} marginal has axis {want} but the cost matrix has {got}")
        log = get_flag(kwargs, "log")
        if log:
            return Tup([Num("f"), Dct({"u": Arr([la], "f"), "v": Arr([lb], "f")})])
        return Num("f")
    if sym == "block_diag":
        return Arr([UNK, UNK], "f")
    if sym == "breadth_first_order":
        g = args[0] if args else Top()
        if isinstance(g, Arr) and g.axes:
            return Arr([UNK], "i", space=g.axes[0])
        return Top("bfs")
    if sym == "combinations":
        x = args[0] if args else Top()
        el = I.iter_element(x, node, fr)
        r = kwargs.get("r", args[1] if len(args) > 1 else None)
        n = r.const if isinstance(r, Num) and isinstance(r.const, int) else 2
        return Lst(elem=Tup([el] * n))
    if sym == "warn":
        return NoneV()
    if sym == "wraps":
        return Fun("builtin", "identity_decorator")
    if sym in ("signature",):
        return Top("signature")
    if mod in ("warnings",):
        return NoneV()
    if mod in ("functools",) and sym == "reduce":
        return call_builtin(I, "reduce", args, kwargs, node, fr)
    if sym == "reduce":
        return call_builtin(I, "reduce", args, kwargs, node, fr)
    return Top(f"ext {mod}.{sym}")


# ------------------------------------------------------------------------------------------ RNG
def call_rng(I, name, args, kwargs, node, fr):
    size = kwargs.get("size")
    if name in ("uniform", "normal", "standard_normal", "random", "rand", "randn"):
        if size is None and name in ("normal", "uniform") and len(args) > 2:
            size = args[2]
        if size is None:
            return Num("f")
        sh = shape_to_axes(size)
        return Arr(sh, "f") if sh is not None else Top("rng size")
    if name == "permutation":
        x = args[0] if args else Top()
        if isinstance(x, Num):
            a = dim_to_ax(x)
            return Arr([a], "i", space=a if a.symbolic else None, tags=frozenset({"perm"}))
        if isinstance(x, Arr):
            return x
        return Top("permutation")
    if name == "choice":
        a = args[0] if args else Top()
        ax = dim_to_ax(a) if isinstance(a, Num) else (a.axes[0] if isinstance(a, Arr) and a.axes else UNK)
        if size is None and len(args) > 1:
            size = args[1]
        if size is None:
            return Num("i", space=ax if ax.symbolic else None)
        sh = shape_to_axes(size)
        return Arr(sh, "i", space=ax if ax.symbolic else None) if sh is not None else Top("choice size")
    if name == "multivariate_normal":
        mean = args[0] if args else Top()
        d = mean.axes[-1] if isinstance(mean, Arr) and mean.axes else UNK
        if size is None and len(args) > 2:
            size = args[2]
        sh = shape_to_axes(size) if size is not None else []
        return Arr((sh or []) + [d], "f") if sh is not None else Top("mvn size")
    if name == "chisquare":
        if size is None and len(args) > 1:
            size = args[1]
        sh = shape_to_axes(size) if size is not None else None
        return Arr(sh, "f") if sh else Num("f")
    if name in ("shuffle",):
        return NoneV()
    if name in ("randint", "integers"):
        sh = shape_to_axes(size) if size is not None else None
        return Arr(sh, "i") if sh else Num("i")
    return Top("rng." + name)
