"""Douglas._compute_grads: the un-flattening of the leaf axis and the marginalisation over the other features.

The leaf memberships are the Kronecker product of the per-feature bin memberships (C03-l / C15-b: first operand major, features in
list order), so leaf[n, a] = prod_f B_f[n, a_f] with a = (a_0, ..., a_{F-1}) row-major. The gradient with respect to B_i[n, l] times
B_i[n, l] (what the softmax backprop of C03-k starts from) is therefore

    weighted_i[n, l] = sum over the leaves a with a_i = l of G[n, a] * leaf[n, a],          G = d score / d leaf

i.e. (G * leaf) reshaped to [N, n_0+1, ..., n_{F-1}+1] and summed over every feature axis except 1 + i. This module folds the
SHAPE expressions of the code (tuples of integers built from the lengths of the cut-point vectors) for F = 1, 2, 3 features with
different numbers of cuts, and compares the axes; no array value is involved."""
import ast

CONFIGS = ((2,), (1, 2), (2, 1, 3))


class Unsupported(Exception):
    pass


class Vec:
    def __init__(self, n):
        self.n = n


class _Self:
    pass


def fold(node, env):
    """constant folding of integer / tuple / list expressions under an environment of ints, tuples, lists and Vec (abstract vectors)"""
    if isinstance(node, ast.Constant):
        if isinstance(node.value, (int, bool)) or node.value is None:
            return node.value
        raise Unsupported(repr(node.value))
    if isinstance(node, ast.Name):
        if node.id in env:
            return env[node.id]
        raise Unsupported(f"`{node.id}` is not a shape quantity")
    if isinstance(node, ast.Attribute):
        key = ast.unparse(node)
        if key in env:
            return env[key]
        v = fold(node.value, env)
        if isinstance(v, Vec) and node.attr == "size":
            return v.n
        if isinstance(v, Vec) and node.attr == "shape":
            return (v.n,)
        raise Unsupported(key)
    if isinstance(node, (ast.Tuple, ast.List)):
        vals = [fold(e, env) for e in node.elts]
        return tuple(vals) if isinstance(node, ast.Tuple) else list(vals)
    if isinstance(node, ast.UnaryOp):
        v = fold(node.operand, env)
        if isinstance(node.op, ast.USub) and isinstance(v, int):
            return -v
        if isinstance(node.op, ast.Not):
            return not v
        raise Unsupported("unary")
    if isinstance(node, ast.BinOp):
        a, b = fold(node.left, env), fold(node.right, env)
        if isinstance(a, int) and isinstance(b, int):
            if isinstance(node.op, ast.Add):
                return a + b
            if isinstance(node.op, ast.Sub):
                return a - b
            if isinstance(node.op, ast.Mult):
                return a * b
            raise Unsupported("integer operator")
        if isinstance(node.op, ast.Add) and type(a) is type(b) and isinstance(a, (list, tuple)):
            return a + b
        if isinstance(node.op, ast.Mult) and isinstance(a, (list, tuple)) and isinstance(b, int):
            return a * b
        raise Unsupported("binary operator on " + type(a).__name__)
    if isinstance(node, ast.Compare) and len(node.ops) == 1:
        a, b = fold(node.left, env), fold(node.comparators[0], env)
        if not (isinstance(a, int) and isinstance(b, int)):
            raise Unsupported("comparison of non-integers")
        op = node.ops[0]
        table = {ast.Eq: a == b, ast.NotEq: a != b, ast.Lt: a < b, ast.LtE: a <= b, ast.Gt: a > b, ast.GtE: a >= b}
        for k, v in table.items():
            if isinstance(op, k):
                return v
        raise Unsupported("comparison")
    if isinstance(node, ast.BoolOp):
        vals = [fold(v, env) for v in node.values]
        return all(vals) if isinstance(node.op, ast.And) else any(vals)
    if isinstance(node, ast.IfExp):
        return fold(node.body if fold(node.test, env) else node.orelse, env)
    if isinstance(node, ast.Subscript):
        v = fold(node.value, env)
        if isinstance(v, (list, tuple)):
            if isinstance(node.slice, ast.Slice):
                lo = None if node.slice.lower is None else fold(node.slice.lower, env)
                hi = None if node.slice.upper is None else fold(node.slice.upper, env)
                st = None if node.slice.step is None else fold(node.slice.step, env)
                return v[slice(lo, hi, st)]
            i = fold(node.slice, env)
            if isinstance(i, int) and -len(v) <= i < len(v):
                return v[i]
        raise Unsupported("subscript")
    if isinstance(node, (ast.ListComp, ast.GeneratorExp)):
        out = []

        def rec(gi, e):
            if gi == len(node.generators):
                out.append(fold(node.elt, e))
                return
            g = node.generators[gi]
            it = fold(g.iter, e)
            if not isinstance(it, (list, tuple, range)):
                raise Unsupported("comprehension over a non-sequence")
            for item in it:
                e2 = dict(e)
                bind(g.target, item, e2)
                if all(fold(c, e2) for c in g.ifs):
                    rec(gi + 1, e2)
        rec(0, env)
        return out
    if isinstance(node, ast.Call):
        fn = ast.unparse(node.func)
        if node.keywords:
            raise Unsupported("keyword call")
        args = [fold(a, env) for a in node.args]
        if fn == "len" and len(args) == 1:
            if isinstance(args[0], Vec):
                return args[0].n
            if isinstance(args[0], (list, tuple)):
                return len(args[0])
        if fn == "range" and all(isinstance(a, int) for a in args) and 1 <= len(args) <= 3:
            return list(range(*args))
        if fn in ("tuple", "list") and len(args) == 1 and isinstance(args[0], (list, tuple)):
            return tuple(args[0]) if fn == "tuple" else list(args[0])
        if fn == "enumerate" and len(args) == 1 and isinstance(args[0], (list, tuple)):
            return [(i, x) for i, x in enumerate(args[0])]
        if fn == "zip" and all(isinstance(a, (list, tuple)) for a in args):
            return list(zip(*args))
        if fn == "int" and len(args) == 1 and isinstance(args[0], int):
            return args[0]
        raise Unsupported(fn)
    raise Unsupported(type(node).__name__)


def bind(target, value, env):
    if isinstance(target, ast.Name):
        env[target.id] = value
    elif isinstance(target, (ast.Tuple, ast.List)):
        if not isinstance(value, (tuple, list)) or len(value) != len(target.elts):
            raise Unsupported("destructuring")
        for t, v in zip(target.elts, value):
            bind(t, v, env)
    else:
        raise Unsupported("loop target")


class T:
    """abstract tensor: kind in {"G", "leaf", "GL"} (gradient on the leaves / leaf memberships / their product), shape None = flat [N, A]"""

    def __init__(self, kind, shape=None):
        self.kind, self.shape = kind, shape


def _tensor(node, env, tenv, me):
    """abstract value of a tensor expression or None"""
    if isinstance(node, ast.Name):
        return tenv.get(node.id)
    src = ast.unparse(node)
    if src == f"{me}._leaf":
        return T("leaf")
    if isinstance(node, ast.Call):
        fn = node.func
        recv, args = None, list(node.args)
        if isinstance(fn, ast.Attribute) and fn.attr == "reshape" and not (isinstance(fn.value, ast.Name) and fn.value.id == "np"):
            recv = fn.value
        elif ast.unparse(fn) == "np.reshape" and args:
            recv, args = args[0], args[1:]
        if recv is not None:
            base = _tensor(recv, env, tenv, me)
            if base is None:
                return None
            if len(args) == 1:
                shp = fold(args[0], env)
            else:
                shp = tuple(fold(a, env) for a in args)
            if not (isinstance(shp, tuple) and all(isinstance(x, int) for x in shp)):
                raise Unsupported("reshape to a non-integer shape")
            if base.shape is not None:
                raise Unsupported("a second reshape")
            return T(base.kind, shp)
    if isinstance(node, ast.BinOp) and isinstance(node.op, ast.Mult):
        a, b = _tensor(node.left, env, tenv, me), _tensor(node.right, env, tenv, me)
        if a is not None and b is not None:
            if {a.kind, b.kind} != {"G", "leaf"}:
                raise Unsupported("product of tensors other than (leaf gradient) x (leaf memberships)")
            if a.shape != b.shape:
                raise Unsupported(f"the leaf gradient and the leaf memberships are un-flattened differently: {a.shape} vs {b.shape}")
            return T("GL", a.shape)
    return None


def marginals(pm, g_name):
    """-> list of (config, i, axes summed, shape) or raises Unsupported. g_name = the variable holding d score / d leaf (flat [N, A])"""
    ci = pm.classes["Douglas"]
    f = ci.methods["_compute_grads"]
    me = f.args.args[0].arg
    loops = [n for n in f.body if isinstance(n, ast.For)]
    if len(loops) != 1:
        raise Unsupported("no single loop over the features")
    lp = loops[0]
    pre = f.body[:f.body.index(lp)]
    results = []
    for cfg in CONFIGS:
        env = {f"{me}.cut_points_list_": [(fidx, Vec(n)) for fidx, n in enumerate(cfg)], me: _Self()}
        tenv = {g_name: T("G")}
        started = False
        for st in pre:
            if isinstance(st, ast.Assign) and len(st.targets) == 1 and isinstance(st.targets[0], ast.Name):
                name = st.targets[0].id
                if name == g_name and not started:
                    started = True
                    continue
                tv = _tensor(st.value, env, tenv, me) if started else None
                if tv is not None:
                    tenv[name] = tv
                    continue
                tenv.pop(name, None)
                try:
                    env[name] = fold(st.value, env)
                except Unsupported:
                    env.pop(name, None)
            elif isinstance(st, ast.AugAssign) and isinstance(st.target, ast.Name) and st.target.id in tenv and started:
                if not isinstance(st.op, ast.Mult):
                    raise Unsupported(f"`{st.target.id}` is modified by another operator than *=")
                other = _tensor(st.value, env, tenv, me)
                cur = tenv[st.target.id]
                if other is None or {cur.kind, other.kind} != {"G", "leaf"}:
                    raise Unsupported(f"`{st.target.id}` is multiplied by something else than the leaf memberships")
                if cur.shape != other.shape:
                    raise Unsupported(f"the leaf gradient and the leaf memberships are un-flattened differently: {cur.shape} vs {other.shape}")
                tenv[st.target.id] = T("GL", cur.shape)
        if not started:
            raise Unsupported(f"`{g_name}` is not assigned before the loop")
        it = fold(lp.iter, env)
        if not isinstance(it, list) or len(it) != len(cfg):
            raise Unsupported("the loop does not run once per used feature")
        for pos, item in enumerate(it):
            e2 = dict(env)
            bind(lp.target, item, e2)
            t2 = dict(tenv)
            wg = None
            for st in lp.body:
                if isinstance(st, ast.Assign) and len(st.targets) == 1 and isinstance(st.targets[0], ast.Name):
                    name = st.targets[0].id
                    v = st.value
                    # <tensor>.sum(axes) / np.sum(<tensor>, axis=axes)
                    red = None
                    if isinstance(v, ast.Call):
                        fn = v.func
                        if isinstance(fn, ast.Attribute) and fn.attr == "sum" and not (isinstance(fn.value, ast.Name) and fn.value.id == "np"):
                            red = (fn.value, v.args[0] if v.args else next((k.value for k in v.keywords if k.arg == "axis"), None), v)
                        elif ast.unparse(fn) == "np.sum" and v.args:
                            red = (v.args[0], v.args[1] if len(v.args) > 1 else next((k.value for k in v.keywords if k.arg == "axis"), None), v)
                    if red is not None:
                        base = _tensor(red[0], e2, t2, me)
                        if base is not None:
                            if any(k.arg == "keepdims" for k in red[2].keywords):
                                raise Unsupported("keepdims in the marginalisation")
                            axes = fold(red[1], e2) if red[1] is not None else None
                            if isinstance(axes, int):
                                axes = (axes,)
                            if axes is not None and not (isinstance(axes, (tuple, list)) and all(isinstance(a, int) for a in axes)):
                                raise Unsupported("axes of the marginalisation")
                            if name == "weighted_grad":
                                wg = (base, None if axes is None else tuple(axes), st.lineno)
                            continue
                    tv = _tensor(v, e2, t2, me)
                    if tv is not None:
                        t2[name] = tv
                        continue
                    try:
                        e2[name] = fold(v, e2)
                    except Unsupported:
                        e2.pop(name, None)
                elif isinstance(st, ast.AugAssign) and isinstance(st.target, ast.Name) and st.target.id in t2:
                    raise Unsupported(f"`{st.target.id}` is modified inside the loop over the features")
            if wg is None:
                raise Unsupported("no `weighted_grad = <un-flattened leaf gradient x memberships>.sum(axes)` in the loop (the input of the softmax backprop judged by C03-k)")
            results.append((cfg, pos, wg))
    return results


def judge(pm, g_name="binning_backprop"):
    """-> list of (status, detail, line)"""
    out = []
    for cfg, pos, (base, axes, line) in marginals(pm, g_name):
        F = len(cfg)
        want_shape = (-1,) + tuple(n + 1 for n in cfg)
        where = f"{F} used feature(s) with {list(cfg)} cut points, feature at position {pos}"
        if base.kind != "GL":
            out.append(("different", f"{where}: the marginal is taken over the leaf gradient {'alone' if base.kind == 'G' else base.kind}, not over (leaf gradient x leaf memberships): "
                        "the product rule of the Kronecker product loses the other features' memberships", line))
            continue
        shp = base.shape
        if shp is None:
            out.append(("different", f"{where}: the leaf axis is not un-flattened before the marginalisation", line))
            continue
        norm = tuple(shp)
        if norm[0] not in (-1,) or tuple(norm[1:]) != want_shape[1:]:
            out.append(("different", f"{where}: the leaf axis is un-flattened to {norm}, expected {want_shape} (one axis of n_f + 1 bins per used feature, in list order)", line))
            continue
        if axes is None:
            out.append(("different", f"{where}: the sum runs over every axis, samples included", line))
            continue
        nd = F + 1
        got = sorted({a % nd for a in axes})
        if len(got) != len(axes):
            out.append(("different", f"{where}: repeated axes {axes}", line))
            continue
        want = [a for a in range(1, nd) if a != 1 + pos]
        if got != want:
            out.append(("different", f"{where}: the sum runs over the axes {got}, expected {want} (every feature axis but its own, 1 + {pos}; axis 0 is the sample axis)", line))
            continue
        out.append(("exact", where, line))
    return out
