"""E2 - tables and forwarding: symbolic evaluation of constraint tables, constructor contracts, domain containment,
nullability, registry evaluation."""
import ast

from .pm import AnalysisError, norm_src, func_params, func_defaults, PKG
from .flow import attr_chain
from .astutil import const, is_const, self_name, is_none_test, parents

INF = float("inf")


# --------------------------------------------------------------------------- constraint domain
class Dom:
    """one constraint: kind in interval|strs|type|none|callable|keyword(array-like, random_state, boolean)"""

    def __init__(self, kind, **kw):
        self.kind = kind
        self.__dict__.update(kw)

    def __repr__(self):
        if self.kind == "interval":
            lb = "[" if self.closed in ("left", "both") else "("
            rb = "]" if self.closed in ("right", "both") else ")"
            return f"{self.num}{lb}{self.lo},{self.hi}{rb}"
        if self.kind == "strs":
            return "{" + ",".join(sorted(self.values)) + "}"
        if self.kind == "type":
            return f"type:{self.name}"
        if self.kind == "keyword":
            return f"kw:{self.name}"
        return self.kind

    def admits_none(self):
        return self.kind == "none" or (self.kind == "keyword" and self.name == "random_state")

    def contains(self, other):
        a, b = other, self   # is a ⊆ b ?
        if a.kind != b.kind:
            if a.kind == "none" and b.admits_none():
                return True
            if a.kind == "interval" and b.kind == "keyword" and b.name == "random_state":
                return a.num == "Integral" and a.lo >= 0
            if a.kind == "type" and a.name == "bool" and b.kind == "keyword" and b.name == "boolean":
                return True
            return False
        if a.kind == "interval":
            if a.num == "Real" and b.num == "Integral":
                return False
            lo_ok = a.lo > b.lo or (a.lo == b.lo and (b.closed in ("left", "both") or a.closed not in ("left", "both") or a.lo == -INF))
            hi_ok = a.hi < b.hi or (a.hi == b.hi and (b.closed in ("right", "both") or a.closed not in ("right", "both") or a.hi == INF))
            return lo_ok and hi_ok
        if a.kind == "strs":
            return a.values <= b.values
        if a.kind in ("type", "keyword"):
            return a.name == b.name
        return True


def doms_contained(A, B):
    """every value admitted by constraint list A is admitted by list B; returns list of offending Dom in A"""
    bad = []
    for a in A:
        if a.kind == "strs":
            rest = set(a.values)
            for b in B:
                if b.kind == "strs":
                    rest -= b.values
            if rest:
                bad.append(Dom("strs", values=frozenset(rest)))
            continue
        if not any(b.contains(a) for b in B):
            bad.append(a)
    return bad


class TableEval:
    def __init__(self, pm):
        self.pm = pm
        self._cache = {}

    # ---- symbolic string sets
    def str_set(self, node, unit):
        """evaluate an expression denoting a set/list of strings"""
        if isinstance(node, (ast.Set, ast.List, ast.Tuple)):
            out = set()
            for e in node.elts:
                if isinstance(e, ast.Constant) and isinstance(e.value, str):
                    out.add(e.value)
                elif isinstance(e, ast.Name) and e.id in unit.assigns and isinstance(unit.assigns[e.id], ast.Constant) and isinstance(unit.assigns[e.id].value, str):
                    out.add(unit.assigns[e.id].value)       # module-level string constant
                else:
                    raise AnalysisError(f"non-literal string option {norm_src(e)} in {unit.relpath}")
            return frozenset(out)
        if isinstance(node, ast.Dict):
            # iterating / converting a dict yields its keys
            if all(isinstance(k, ast.Constant) and isinstance(k.value, str) for k in node.keys):
                return frozenset(k.value for k in node.keys)
            raise AnalysisError(f"dict with non-literal keys {norm_src(node)[:80]} in {unit.relpath}")
        if isinstance(node, ast.Call) and isinstance(node.func, ast.Name) and node.func.id in ("set", "list", "tuple", "frozenset", "sorted") \
                and len(node.args) == 1:
            return self.str_set(node.args[0], unit)
        if isinstance(node, ast.Call) and isinstance(node.func, ast.Attribute) and node.func.attr == "keys" and not node.args:
            return self.str_set(node.func.value, unit)
        if isinstance(node, ast.Starred):
            return self.str_set(node.value, unit)
        if isinstance(node, ast.BinOp) and isinstance(node.op, (ast.Add, ast.BitOr)):
            return self.str_set(node.left, unit) | self.str_set(node.right, unit)
        if isinstance(node, ast.Name):
            if node.id in unit.assigns:
                return self.str_set(unit.assigns[node.id], unit)
            if node.id in unit.imports:
                mod, sym = unit.imports[node.id]
                return self.imported_str_set(mod, sym)
        raise AnalysisError(f"cannot evaluate string set {norm_src(node)} in {unit.relpath}")

    def imported_str_set(self, mod, sym, depth=0):
        if mod and mod.startswith(PKG):
            u = self.pm.units.get(mod)
            if u is None or depth > 5:
                raise AnalysisError(f"cannot resolve {mod}.{sym}")
            if sym in u.assigns:
                return self.str_set(u.assigns[sym], u)
            if sym in u.imports:
                return self.imported_str_set(*u.imports[sym], depth=depth + 1)
            raise AnalysisError(f"cannot resolve {mod}.{sym}")
        return self.pm.ext_dict_keys(mod, sym)

    # ---- one constraint expression -> Dom
    def dom(self, node, unit):
        if isinstance(node, ast.Constant):
            if node.value is None:
                return Dom("none")
            if isinstance(node.value, str):
                if node.value in ("array-like", "random_state", "boolean", "bool", "sparse matrix", "verbose", "cv_object",
                                  "missing_values", "nan"):
                    return Dom("keyword", name="boolean" if node.value == "bool" else node.value)
                raise AnalysisError(f"unknown constraint keyword {node.value!r}")
        if isinstance(node, ast.Name):
            if node.id == "callable":
                return Dom("callable")
            return Dom("type", name=node.id)
        if isinstance(node, ast.Attribute):
            return Dom("type", name=attr_chain(node) or norm_src(node))
        if isinstance(node, ast.Call):
            fn = attr_chain(node.func) or ""
            base = fn.split(".")[-1]
            if base == "Interval":
                num = norm_src(node.args[0]).split(".")[-1]

                def bound(n, default):
                    if isinstance(n, ast.Constant) and n.value is None:
                        return default
                    if is_const(n):
                        return const(n)
                    s = norm_src(n)
                    if s in ("np.inf", "numpy.inf", "math.inf", "float('inf')"):
                        return INF
                    if s in ("-np.inf", "-numpy.inf"):
                        return -INF
                    raise AnalysisError(f"non-literal interval bound {s}")
                lo = bound(node.args[1], -INF)
                hi = bound(node.args[2], INF)
                closed = "both"
                for k in node.keywords:
                    if k.arg == "closed":
                        closed = const(k.value)
                if len(node.args) > 3:
                    closed = const(node.args[3])
                return Dom("interval", num=num, lo=lo, hi=hi, closed=closed)
            if base in ("StrOptions", "Options"):
                arg = node.args[-1] if base == "Options" else node.args[0]
                return Dom("strs", values=self.str_set(arg, unit))
            if base == "HasMethods":
                return Dom("type", name="HasMethods:" + norm_src(node.args[0]))
        raise AnalysisError(f"unhandled constraint expression {norm_src(node)} in {unit.relpath}")

    # ---- dict literal of constraints (with ** spreads of a parent's table)
    def table(self, node, unit):
        if not isinstance(node, ast.Dict):
            raise AnalysisError(f"constraint table is not a dict literal in {unit.relpath}: {norm_src(node)[:80]}")
        out = {}
        for k, v in zip(node.keys, node.values):
            if k is None:   # **spread
                ch = attr_chain(v)
                if ch and ch.endswith("._parameter_constraints"):
                    cname = ch.split(".")[0]
                    ci = self.class_by_local_name(cname, unit)
                    out.update(self.class_constraints(ci))
                    continue
                raise AnalysisError(f"unhandled ** spread {norm_src(v)} in {unit.relpath}")
            if not (isinstance(k, ast.Constant) and isinstance(k.value, str)):
                raise AnalysisError(f"non-literal constraint key in {unit.relpath}")
            if not isinstance(v, (ast.List, ast.Tuple)):
                raise AnalysisError(f"constraint for {k.value} is not a list in {unit.relpath}")
            out[k.value] = [self.dom(e, unit) for e in v.elts]
        return out

    def class_by_local_name(self, name, unit):
        if name in unit.classes:
            return self.pm.classes[name]
        if name in unit.imports:
            mod, sym = unit.imports[name]
            ci = self.pm._resolve_gem_class(mod, sym)
            if ci is not None:
                return ci
        raise AnalysisError(f"cannot resolve class {name} in {unit.relpath}")

    def class_constraints(self, ci):
        """effective _parameter_constraints of a GemClus class (own table or the first one in the MRO)"""
        if ci.name in self._cache:
            return self._cache[ci.name]
        for c in ci.mro:
            if c.external:
                continue
            if "_parameter_constraints" in c.class_attrs:
                t = self.table(c.class_attrs["_parameter_constraints"], c.unit)
                self._cache[ci.name] = t
                return t
        raise AnalysisError(f"{ci.name} has no _parameter_constraints")

    def decorator_constraints(self, func, unit):
        """constraint table given to @constraint_params on func, or None"""
        for d in func.decorator_list:
            if isinstance(d, ast.Call) and (attr_chain(d.func) or "").split(".")[-1] == "constraint_params" and d.args:
                return self.table(d.args[0], unit)
        return None


# --------------------------------------------------------------------------- constructors
def init_signature(pm, ci):
    """(class defining __init__, FunctionDef) for a GemClus class"""
    c, f = pm.resolve_method(ci, "__init__")
    if c is None or c.external:
        raise AnalysisError(f"{ci.name} has no GemClus __init__")
    return c, f


def constructor_contract(pm, ci):
    """For class ci's own __init__: every parameter is stored verbatim in the same-named attribute, or forwarded by
    keyword (name=name) to the parent constructor; nothing else is assigned; no *args/**kwargs.
    returns (problems list, mapping param -> 'stored'|'forwarded', parent call constants {kw: node})"""
    f = ci.methods.get("__init__")
    if f is None:
        return [], {}, {}
    probs = []
    sn = self_name(f)
    params = func_params(f)[1:]
    if f.args.vararg or f.args.kwarg:
        probs.append(("varargs", f, "constructor takes *args/**kwargs"))
    how = {}
    consts = {}
    for st in f.body:
        if isinstance(st, ast.Expr) and isinstance(st.value, ast.Constant):
            continue
        if isinstance(st, ast.Assign) and len(st.targets) == 1 and isinstance(st.targets[0], ast.Attribute) \
                and isinstance(st.targets[0].value, ast.Name) and st.targets[0].value.id == sn:
            attr = st.targets[0].attr
            if isinstance(st.value, ast.Name) and st.value.id == attr and attr in params:
                how[attr] = "stored"
            else:
                probs.append(("store", st, f"self.{attr} is not assigned the untouched parameter of the same name"))
            continue
        if isinstance(st, ast.Expr) and isinstance(st.value, ast.Call):
            call = st.value
            fn = norm_src(call.func)
            is_super = fn == "super().__init__"
            is_base = fn.endswith(".__init__") and not is_super
            if is_super or is_base:
                args = call.args[1:] if is_base else call.args
                if is_super and args:
                    # positional forwarding to parent: map by parent's signature
                    pc, pf = pm.resolve_method(ci, "__init__", after=ci)
                    pparams = func_params(pf)[1:] if pf is not None else []
                    for i, a in enumerate(args):
                        pname = pparams[i] if i < len(pparams) else None
                        if isinstance(a, ast.Name) and a.id in params:
                            if pname == a.id:
                                how[a.id] = "forwarded"
                            else:
                                probs.append(("forward", st, f"parameter {a.id} forwarded positionally into {pname}"))
                        elif pname:
                            consts[pname] = a
                elif args:
                    probs.append(("forward", st, "positional arguments in explicit base constructor call"))
                for k in call.keywords:
                    if k.arg is None:
                        probs.append(("forward", st, "**kwargs forwarded to the parent constructor"))
                    elif isinstance(k.value, ast.Name) and k.value.id in params:
                        if k.arg == k.value.id:
                            how[k.arg] = "forwarded"
                        else:
                            probs.append(("forward", st, f"parameter {k.value.id} forwarded into {k.arg}"))
                    else:
                        consts[k.arg] = k.value
                continue
        probs.append(("stmt", st, "constructor does something other than storing/forwarding its parameters"))
    for p in params:
        if p not in how:
            probs.append(("missing", f, f"parameter {p} is neither stored nor forwarded"))
    return probs, how, consts


def effective_params(pm, ci):
    """all constructor parameter names of ci (its own __init__ signature)"""
    c, f = init_signature(pm, ci)
    return func_params(f)[1:]


def fixed_parent_constants(pm, ci):
    """hyper-parameters that the class chain fixes by passing constants to parent constructors:
    {param: const node} accumulated from ci up to the root"""
    out = {}
    for c in ci.mro:
        if c.external or "__init__" not in c.methods:
            continue
        _, _, consts = constructor_contract(pm, c)
        for k, v in consts.items():
            out.setdefault(k, v)
    return out


# --------------------------------------------------------------------------- nullability
def none_guarded(node, chain):
    """is the load `node` (of attribute chain `chain`) evaluated only when chain is not None?
    recognises: X if chain is None else <node>;  <node> if chain is not None else X;  enclosing If on the same test;
    an earlier `if chain is None: return/raise` in the same block chain."""
    child = node
    for p in parents(node):
        if isinstance(p, ast.IfExp):
            t = is_none_test(p.test, chain)
            if t is True and child is p.orelse:
                return True
            if t is False and child is p.body:
                return True
            if child is p.test and t is not None:
                return True
        if isinstance(p, ast.If):
            t = is_none_test(p.test, chain)
            if t is not None:
                if child is p.test:
                    return True
                in_body = any(child is s for s in p.body)
                in_else = any(child is s for s in p.orelse)
                if (t is False and in_body) or (t is True and in_else):
                    return True
            # `a is not None and use(a)` handled below
        if isinstance(p, ast.BoolOp) and isinstance(p.op, ast.And):
            idx = next((i for i, v in enumerate(p.values) if v is child), None)
            if idx is not None:
                for v in p.values[:idx]:
                    if is_none_test(v, chain) is False:
                        return True
        if isinstance(p, ast.BoolOp) and isinstance(p.op, ast.Or):
            # `a is None or use(a)`: the later operands are evaluated only when a is not None
            idx = next((i for i, v in enumerate(p.values) if v is child), None)
            if idx is not None:
                for v in p.values[:idx]:
                    if is_none_test(v, chain) is True:
                        return True
        if isinstance(p, ast.Compare) and child is p.left and is_none_test(p, chain) is not None:
            return True
        # previous siblings in the same body: early-exit guard `if chain is None: return|raise`
        for field in ("body", "orelse"):
            seq = getattr(p, field, None)
            if isinstance(seq, list) and any(s is child for s in seq):
                i = next(i for i, s in enumerate(seq) if s is child)
                for s in seq[:i]:
                    if isinstance(s, ast.If) and is_none_test(s.test, chain) is True and s.body and \
                            isinstance(s.body[-1], (ast.Return, ast.Raise)):
                        return True
        if isinstance(p, (ast.FunctionDef, ast.AsyncFunctionDef)):
            break
        child = p
    return False
