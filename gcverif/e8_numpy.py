"""E8 front end: translate the straight-line numpy code of a function into index-notation terms (gcverif.e8_index).

An array value is (shape, term): shape is a tuple of symbolic sizes ('N', 'K') or 1, the term is a Poly whose free indices are
the positional placeholders '<dim>@<axis>'. Only the numpy subset used by the GEMINI objectives (and by the reference
definitions written in the same subset) is supported; anything else raises Unsupported, which callers report as
"construct not recognised" (exit 2), never as a violation.

Interpretation domain (stated as assumptions by the rules that use this module): predictions strictly inside the clip
interval (np.clip is the identity, the clip mask is 1), floored quantities strictly positive (np.maximum(x, 0) = x and
(x == 0) masks are empty), i.e. a generic interior point where the score is differentiable.
"""
from .astutil import clone as _clone
import ast
from fractions import Fraction as Fr

from .e8_index import (Poly, Unsupported, fresh, dim_of, subst, mk_sum, mk_pow, mk_log, mk_abs, mk_sign, mk_delta, mk_var, mk_lt, mk_exp, mk_step, mk_ind)
from .pm import norm_src


def ph(dim, pos):
    return f"{dim}@{pos}"


class TArr:
    __slots__ = ("shape", "term", "mask")

    def __init__(self, shape, term, mask=False):
        self.shape = tuple(shape)
        self.term = term
        self.mask = mask

    @property
    def ndim(self):
        return len(self.shape)

    def __repr__(self):
        return f"TArr({list(self.shape)}, {self.term!r})"


class Idx:
    """a loop variable ranging over a symbolic axis: `for k in range(K)`"""
    def __init__(self, name, dim):
        self.name, self.dim = name, dim


class VecList:
    """a Python list with one element per value of a symbolic index (built by a loop over range(K))"""
    def __init__(self, dim, index, elem):
        self.dim, self.index, self.elem = dim, index, elem


def map_value(v, fn):
    """apply fn to every TArr inside a value (dict / tuple / TArr)"""
    if isinstance(v, TArr):
        return fn(v)
    if isinstance(v, dict):
        return {k: map_value(x, fn) for k, x in v.items()}
    if isinstance(v, tuple):
        return tuple(map_value(x, fn) for x in v)
    return v


def scalar(x):
    if isinstance(x, TArr):
        return x
    if isinstance(x, Poly):
        return TArr((), x)
    if isinstance(x, bool):
        raise Unsupported("boolean in arithmetic")
    if isinstance(x, (int, Fr)):
        return TArr((), Poly.const(x))
    if isinstance(x, float):
        return TArr((), Poly.const(Fr(x).limit_denominator(10 ** 12)))
    raise Unsupported(f"value {x!r} in arithmetic")


def reindex(a, new_positions, new_shape):
    """move axis p of a to position new_positions[p] (None = axis of size 1 dropped)"""
    mp = {}
    for p, d in enumerate(a.shape):
        if d == 1:
            continue
        q = new_positions[p]
        if q is None:
            raise Unsupported("dropping an axis of symbolic size")
        mp[ph(d, p)] = ph(d, q)
    return TArr(new_shape, subst(a.term, mp) if any(k != v for k, v in mp.items()) else a.term, a.mask)


def broadcast(a, b):
    a, b = scalar(a), scalar(b)
    n = max(a.ndim, b.ndim)
    shape = []
    for q in range(n):
        pa, pb = q - (n - a.ndim), q - (n - b.ndim)
        da = a.shape[pa] if pa >= 0 else 1
        db = b.shape[pb] if pb >= 0 else 1
        if da == db or db == 1:
            shape.append(da)
        elif da == 1:
            shape.append(db)
        else:
            raise Unsupported(f"broadcast of axes {da} and {db}")
    ra = reindex(a, {p: p + (n - a.ndim) for p in range(a.ndim)}, shape)
    rb = reindex(b, {p: p + (n - b.ndim) for p in range(b.ndim)}, shape)
    return ra, rb, tuple(shape)


def binop(op, a, b):
    ra, rb, shape = broadcast(a, b)
    if op == "add":
        t = ra.term + rb.term
    elif op == "sub":
        t = ra.term - rb.term
    elif op == "mul":
        t = ra.term * rb.term
    elif op == "div":
        t = ra.term * mk_pow(rb.term, -1)
    else:
        raise Unsupported(op)
    return TArr(shape, t)


def power(a, r):
    a = scalar(a)
    if isinstance(r, TArr) and r.shape == () and r.term.is_const():
        r = r.term.const_value()
    if isinstance(r, float):
        r = Fr(r).limit_denominator(1000)
    if not isinstance(r, (int, Fr)):
        raise Unsupported("symbolic exponent")
    return TArr(a.shape, mk_pow(a.term, r))


def norm_axis(axis, ndim):
    if axis < 0:
        axis += ndim
    if not 0 <= axis < ndim:
        raise Unsupported("axis out of range")
    return axis


def reduce_sum(a, axis=None, keepdims=False, mean=False):
    a = scalar(a)
    axes = list(range(a.ndim)) if axis is None else ([norm_axis(x, a.ndim) for x in axis] if isinstance(axis, (tuple, list)) else [norm_axis(axis, a.ndim)])
    term = a.term
    bound = []
    mp = {}
    for p in axes:
        d = a.shape[p]
        if d == 1:
            continue
        t = fresh(d)
        mp[ph(d, p)] = t
        bound.append((t, d))
    term = mk_sum(bound, subst(term, mp)) if bound else term
    if mean:
        for _, d in bound:
            term = term * mk_pow(Poly.sym(d), -1)
    if keepdims:
        shape = [1 if p in axes else d for p, d in enumerate(a.shape)]
        return TArr(shape, term)
    keep = [p for p in range(a.ndim) if p not in axes]
    res = TArr(a.shape, term)
    newpos = {p: (keep.index(p) if p in keep else None) for p in range(a.ndim)}
    # axes being reduced have no placeholder left; pretend size 1 for reindex
    tmp = TArr([1 if p in axes else d for p, d in enumerate(a.shape)], term)
    return reindex(tmp, newpos, [a.shape[p] for p in keep])


def transpose(a, axes=None):
    a = scalar(a)
    if axes is None:
        axes = list(range(a.ndim))[::-1]
    axes = [norm_axis(x, a.ndim) for x in axes]
    if sorted(axes) != list(range(a.ndim)):
        raise Unsupported("transpose axes")
    newpos = {old: new for new, old in enumerate(axes)}
    return reindex(a, newpos, [a.shape[old] for old in axes])


def expand_dims(a, axis):
    a = scalar(a)
    n = a.ndim + 1
    axis = norm_axis(axis, n)
    newpos = {p: (p if p < axis else p + 1) for p in range(a.ndim)}
    shape = list(a.shape[:axis]) + [1] + list(a.shape[axis:])
    return reindex(a, newpos, shape)


def squeeze(a, axis=None):
    a = scalar(a)
    if axis is None:
        drop = [p for p, d in enumerate(a.shape) if d == 1]
    else:
        drop = [norm_axis(axis, a.ndim)]
        if a.shape[drop[0]] != 1:
            raise Unsupported("squeeze of an axis of symbolic size")
    keep = [p for p in range(a.ndim) if p not in drop]
    return reindex(a, {p: (keep.index(p) if p in keep else None) for p in range(a.ndim)}, [a.shape[p] for p in keep])


def matmul(a, b):
    a, b = scalar(a), scalar(b)
    if a.ndim == 0 or b.ndim == 0:
        raise Unsupported("matmul with a scalar")
    a1 = a.ndim == 1
    b1 = b.ndim == 1
    if a1:
        a = expand_dims(a, 0)
    if b1:
        b = expand_dims(b, 1)
    da, db = a.shape[-1], b.shape[-2]
    if da != db:
        raise Unsupported(f"contraction between axes {da} and {db}")
    n = max(a.ndim, b.ndim)
    # contraction index
    if da == 1:
        ta, tb = a.term, b.term
        bound = []
    else:
        c = fresh(da)
        ta = subst(a.term, {ph(da, a.ndim - 1): c})
        tb = subst(b.term, {ph(db, b.ndim - 2): c})
        bound = [(c, da)]
    A = TArr(list(a.shape[:-1]) + [1], ta)
    B = TArr(list(b.shape[:-2]) + [1, b.shape[-1]], tb)
    # A: [..., i, 1]; B: [..., 1, j] -> broadcast product then sum over c
    prod = binop("mul", A, B)
    term = mk_sum(bound, prod.term) if bound else prod.term
    res = TArr(prod.shape, term)
    if a1:
        res = squeeze(res, res.ndim - 2)
    if b1:
        res = squeeze(res, res.ndim - 1)
    return res


def diag(a):
    a = scalar(a)
    if a.ndim == 2:
        d0, d1 = a.shape
        if d0 != d1 or d0 == 1:
            raise Unsupported("diag of a non-square matrix")
        return TArr([d0], subst(a.term, {ph(d1, 1): ph(d0, 0)}))
    if a.ndim == 1:
        d = a.shape[0]
        if d == 1:
            raise Unsupported("diag of length-1 vector")
        return TArr([d, d], a.term * mk_delta(ph(d, 0), ph(d, 1)))
    raise Unsupported("diag rank")


def eye(dim):
    return TArr([dim, dim], mk_delta(ph(dim, 0), ph(dim, 1)))


def reshape(a, shp):
    a = scalar(a)
    sym = [(p, d) for p, d in enumerate(a.shape) if d != 1]
    if len(sym) > 1:
        raise Unsupported("reshape of an array with two symbolic axes")
    shp = list(shp)
    if shp.count(-1) != 1 or any(x not in (1, -1) for x in shp):
        raise Unsupported(f"reshape to {shp}")
    if not sym:
        raise Unsupported("reshape(-1) of an array without symbolic axis")
    p, d = sym[0]
    q = shp.index(-1)
    new_shape = [d if x == -1 else 1 for x in shp]
    return TArr(new_shape, subst(a.term, {ph(d, p): ph(d, q)}) if p != q else a.term)


class Ret(Exception):
    def __init__(self, value):
        self.value = value


class TermInterp:
    """interprets one function body. env: name -> value. attrs: 'self.x' -> python value / TArr"""

    def __init__(self, env, attrs=None, notes=None, mode="objective", attr_default=None, super_call=None):
        self.env = dict(env)
        self.attrs = attrs if attrs is not None else {}
        self.notes = notes if notes is not None else []
        self.mode = mode                    # "objective": generic interior point of a GEMINI; "model": forward/backward pass of an estimator
        self.attr_default = attr_default    # callback: source text of `self.x` -> value, for attributes not in attrs
        self.super_call = super_call        # callback: (method name, argument values) -> value, for super().m(...)

    # ---- statements
    def run(self, func):
        try:
            self.block(func.body)
        except Ret as r:
            return r.value
        return None

    def block(self, stmts):
        for k, s in enumerate(stmts):
            if isinstance(s, ast.If) and getattr(self, "loops", []):
                c = self.ev(s.test)
                if isinstance(c, TArr) and c.mask and c.shape == ():
                    # data-dependent branch inside a loop: its statements contribute under the indicator of the branch
                    saved = getattr(self, "guard", None)
                    if len(s.body) == 1 and isinstance(s.body[0], ast.Continue) and not s.orelse:
                        self.guard = binop("mul", saved, binop("sub", 1, c)) if saved is not None else binop("sub", 1, c)
                        try:
                            self.block(stmts[k + 1:])
                        finally:
                            self.guard = saved
                        return
                    self.guard = binop("mul", saved, c) if saved is not None else c
                    try:
                        self.block(s.body)
                    finally:
                        self.guard = saved
                    if s.orelse:
                        nc = binop("sub", 1, c)
                        self.guard = binop("mul", saved, nc) if saved is not None else nc
                        try:
                            self.block(s.orelse)
                        finally:
                            self.guard = saved
                    continue
            self.stmt(s)

    def stmt(self, s):
        if isinstance(s, ast.Expr):
            if isinstance(s.value, ast.Constant):
                return
            c = s.value
            loops = getattr(self, "loops", [])
            if isinstance(c, ast.Call) and isinstance(c.func, ast.Attribute) and c.func.attr == "append" and isinstance(c.func.value, ast.Name) and len(c.args) == 1 \
                    and not c.keywords and len(loops) == 1 and loops[0].get("full") and loops[0].get("top_level") is not None and s in loops[0]["top_level"]:
                # lst = []; for k in range(K): lst.append(v)   ==   the per-index list lst[k] = v
                name = c.func.value.id
                base = self.env.get(name)
                if isinstance(base, (list, tuple)) and len(base) == 0 and name not in loops[0]["lists"]:
                    ix = loops[0]["idx"]
                    loops[0]["lists"][name] = VecList(ix.dim, ix.name, self.ev(c.args[0]))
                    return
            self.ev(s.value)
            return
        if isinstance(s, ast.Assign):
            v = self.ev(s.value)
            for t in s.targets:
                self.assign(t, v)
            return
        if isinstance(s, ast.AugAssign):
            if isinstance(s.target, ast.Subscript) and getattr(self, "loops", []) and isinstance(s.op, (ast.Add, ast.Sub)):
                val = self.ev(s.value)
                if isinstance(s.op, ast.Sub):
                    val = binop("sub", 0, val)
                if self.indexed_store(s.target, val, "add"):
                    return
                raise Unsupported(f"accumulation {norm_src(s.target)[:40]} in a loop")
            cur = self.ev(ast.copy_location(_load(s.target), s.target))
            val = self.ev(s.value)
            opn = {ast.Add: "add", ast.Sub: "sub", ast.Mult: "mul", ast.Div: "div"}.get(type(s.op))
            if opn is None:
                raise Unsupported(f"augmented {type(s.op).__name__}")
            new = binop(opn, cur, val)
            if isinstance(cur, TArr) and tuple(new.shape) != tuple(cur.shape):
                raise Unsupported("in-place operation changes the shape")
            self.assign(s.target, new)
            return
        if isinstance(s, ast.If):
            c = self.ev(s.test)
            if not isinstance(c, bool):
                raise Unsupported(f"branch on a non-constant condition {norm_src(s.test)[:60]}")
            self.block(s.body if c else s.orelse)
            return
        if isinstance(s, ast.For):
            self.for_loop(s)
            return
        if isinstance(s, ast.Return):
            raise Ret(self.ev(s.value) if s.value is not None else None)
        if isinstance(s, ast.Pass):
            return
        raise Unsupported(f"statement {type(s).__name__}: {norm_src(s)[:60]}")

    def for_loop(self, s):
        """`for k in range(K)` / `for k2 in range(k1 + 1, K)`: the body may define temporaries, store into or accumulate onto
        positions (k, ...) of arrays, and fill a per-index list. It is read as the simultaneous definition
            arr = base + sum_k guard(k) * [position == index] * value(k)
        No loop-carried dependency is accepted (arrays written by the loop cannot be read in it; temporaries must be
        assigned before they are used in each iteration)."""
        it = s.iter
        if isinstance(it, ast.Call) and norm_src(it.func) in ("combinations", "itertools.combinations") and len(it.args) == 2 and isinstance(it.args[1], ast.Constant) \
                and it.args[1].value == 2 and isinstance(s.target, ast.Tuple) and len(s.target.elts) == 2 and all(isinstance(e, ast.Name) for e in s.target.elts) \
                and isinstance(it.args[0], ast.Call) and norm_src(it.args[0].func) == "range" and len(it.args[0].args) == 1 and not s.orelse:
            # for a, b in combinations(range(K), 2)  ==  for a in range(K): for b in range(a + 1, K)
            a, b = s.target.elts
            hi_ = it.args[0].args[0]
            rng = lambda *args_: ast.Call(func=ast.Name(id="range", ctx=ast.Load()), args=list(args_), keywords=[])
            inner = ast.For(target=b, iter=rng(ast.BinOp(left=ast.Name(id=a.id, ctx=ast.Load()), op=ast.Add(), right=ast.Constant(value=1)), hi_), body=s.body, orelse=[])
            outer = ast.For(target=a, iter=rng(hi_), body=[inner], orelse=[])
            for n_ in (inner, outer):
                ast.copy_location(n_, s)
                ast.fix_missing_locations(n_)
            return self.for_loop(outer)
        if not (isinstance(it, ast.Call) and norm_src(it.func) == "range" and len(it.args) in (1, 2) and isinstance(s.target, ast.Name) and not s.orelse):
            raise Unsupported(f"loop {norm_src(s)[:50]}")
        hi = self.ev(it.args[-1])
        d = _dim_of_size(hi)
        ix = None
        guard = Poly.const(1)
        if d is not None and len(it.args) == 1:
            ix = Idx(fresh(d), d)
        elif d is not None and len(it.args) == 2:
            lo = it.args[0]
            if isinstance(lo, ast.BinOp) and isinstance(lo.op, ast.Add) and isinstance(lo.left, ast.Constant) and lo.left.value == 1:
                lo = ast.BinOp(left=lo.right, op=lo.op, right=lo.left)
            if isinstance(lo, ast.BinOp) and isinstance(lo.op, ast.Add) and isinstance(lo.right, ast.Constant) and lo.right.value == 1:
                other = self.ev(lo.left)
                if isinstance(other, Idx) and other.dim == d:
                    ix = Idx(fresh(d), d)
                    guard = mk_lt(other.name, ix.name)
            elif isinstance(lo, ast.Constant) and lo.value == 0:
                ix = Idx(fresh(d), d)
        elif len(it.args) == 1 and isinstance(hi, Idx):
            ix = Idx(fresh(hi.dim), hi.dim)
            guard = mk_lt(ix.name, hi.name)
        if ix is None:
            raise Unsupported(f"loop range {norm_src(it)[:40]}")
        temps = set()
        for n in ast.walk(s):
            if isinstance(n, ast.Name) and isinstance(n.ctx, ast.Store) and n.id != s.target.id:
                temps.add(n.id)
        saved_env = dict(self.env)
        for t in temps:
            self.env.pop(t, None)
        frame = {"idx": ix, "guard": guard, "scatter": {}, "lists": {}, "full": len(it.args) == 1 and d is not None, "top_level": list(s.body)}
        self.loops = getattr(self, "loops", []) + [frame]
        self.env[s.target.id] = ix
        try:
            self.block(s.body)
        finally:
            self.loops = self.loops[:-1]
        self.env = saved_env
        # close this level: sum the contributions over this loop's index
        for name, contribs in frame["scatter"].items():
            base = self.env.get(name)
            if not self.loops:
                if not isinstance(base, TArr):
                    raise Unsupported(f"{name} is not an array")
                if any(kind == "set" for kind, _ in contribs) and not base.term.is_zero():
                    raise Unsupported(f"loop stores into the non-zero array {name}")
            for kind, arr in contribs:
                summed = TArr(arr.shape, mk_sum([(ix.name, ix.dim)], arr.term * guard))
                if self.loops:
                    self.loops[-1]["scatter"].setdefault(name, []).append((kind, summed))
                else:
                    self.env[name] = binop("add", self.env[name], summed)
        for name, vl in frame["lists"].items():
            if self.loops:
                raise Unsupported("per-index list filled in a nested loop")
            self.env[name] = vl

    def _written(self, name):
        return any(name in fr["scatter"] or name in fr["lists"] for fr in getattr(self, "loops", []))

    def indexed_store(self, t, v, kind):
        """arr[k, ...] = v / arr[:, k] += v inside a loop -> contribution to the simultaneous definition of arr"""
        loops = getattr(self, "loops", [])
        if not loops or not isinstance(t.value, ast.Name):
            return False
        name = t.value.id
        elts = t.slice.elts if isinstance(t.slice, ast.Tuple) else [t.slice]
        vals = []
        for e in elts:
            if isinstance(e, ast.Slice) and e.lower is None and e.upper is None and e.step is None:
                vals.append(None)
            else:
                x = self.ev(e)
                if not isinstance(x, Idx):
                    return False
                vals.append(x)
        if not any(isinstance(x, Idx) for x in vals):
            return False
        base = self.env.get(name)
        if isinstance(base, VecList):
            if len(vals) == 1 and vals[0] is loops[-1]["idx"] and len(loops) == 1 and base.dim == vals[0].dim and kind == "set":
                loops[-1]["lists"][name] = VecList(base.dim, vals[0].name, v)
                return True
            raise Unsupported("store into a per-index list")
        if not isinstance(base, TArr):
            return False
        vals += [None] * (base.ndim - len(vals))
        if len(vals) != base.ndim:
            raise Unsupported("too many indices")
        names = [x.name for x in vals if x is not None]
        if len(set(names)) != len(names):
            raise Unsupported("the same loop variable indexes two axes")
        slice_axes = [q for q, x in enumerate(vals) if x is None]
        v = scalar(v)
        if v.ndim > len(slice_axes):
            raise Unsupported("stored value has more axes than the slice")
        off = len(slice_axes) - v.ndim
        mp = {}
        for q, dd in enumerate(v.shape):
            tgt = slice_axes[off + q]
            if dd != 1:
                if base.shape[tgt] != dd:
                    raise Unsupported("stored value does not fit the slice")
                mp[ph(dd, q)] = ph(dd, tgt)
        term = subst(v.term, mp)
        for q, x in enumerate(vals):
            if x is not None:
                if base.shape[q] != x.dim:
                    raise Unsupported("index of another axis size")
                term = term * mk_delta(ph(x.dim, q), x.name)
        g = getattr(self, "guard", None)
        if g is not None:
            term = term * scalar(g).term
        loops[-1]["scatter"].setdefault(name, []).append((kind, TArr(base.shape, term)))
        return True

    def assign(self, t, v):
        if isinstance(t, ast.Name):
            if self._written(t.id):
                raise Unsupported("re-binding an array defined by the loop")
            self.env[t.id] = v
            return
        if isinstance(t, ast.Subscript) and self.indexed_store(t, v, "set"):
            return
        if isinstance(t, ast.Attribute) and isinstance(t.value, ast.Name) and t.value.id in self.env and self.env[t.value.id] is None:
            self.attrs[norm_src(t)] = v
            return
        if isinstance(t, ast.Subscript) and isinstance(t.slice, ast.Constant) and isinstance(t.slice.value, int):
            base = self.ev(t.value)
            if isinstance(base, list):
                base[t.slice.value] = v
                return
        if isinstance(t, ast.Tuple):
            if not isinstance(v, (tuple, list)) or len(v) != len(t.elts):
                raise Unsupported("tuple unpacking")
            for a, b in zip(t.elts, v):
                self.assign(a, b)
            return
        if isinstance(t, ast.Subscript):
            base = self.ev(t.value)
            idx = t.slice
            elts = idx.elts if isinstance(idx, ast.Tuple) else [idx]
            vals = [None if (isinstance(e, ast.Slice) and e.lower is None and e.upper is None and e.step is None) else self.ev(e) for e in elts]
            masks = [x for x in vals if isinstance(x, TArr) and x.mask]
            if masks and all(x is None or (isinstance(x, TArr) and x.mask) for x in vals):
                # boolean-mask store: at a generic point the masks produced by (floored quantity == 0) are empty
                if all(m.term.is_zero() for m in masks):
                    self.notes.append(f"masked store `{norm_src(t)}` is empty at a generic point")
                    return
                # a Kronecker mask (the diagonal): new = base*(1-mask) + value*mask
                if len(masks) == 1 and len(vals) == 1 and isinstance(base, TArr):
                    m = masks[0]
                    one_minus = binop("sub", 1, m)
                    new = binop("add", binop("mul", base, one_minus), binop("mul", scalar(v), m))
                    self.assign(t.value, TArr(new.shape, new.term))
                    return
            raise Unsupported(f"indexed store {norm_src(t)[:60]}")
        raise Unsupported(f"assignment target {norm_src(t)[:40]}")

    # ---- expressions
    def ev(self, e):
        if isinstance(e, ast.Constant):
            if isinstance(e.value, bool) or e.value is None or isinstance(e.value, str):
                return e.value
            if isinstance(e.value, int):
                return e.value
            if isinstance(e.value, float):
                return Fr(e.value).limit_denominator(10 ** 12)
            raise Unsupported("constant")
        if isinstance(e, ast.Name):
            if self._written(e.id):
                raise Unsupported(f"{e.id} is read in the loop that defines it")
            if e.id in self.env:
                return self.env[e.id]
            raise Unsupported(f"unbound name {e.id}")
        if isinstance(e, ast.Attribute):
            key = norm_src(e)
            if key in self.attrs:
                return self.attrs[key]
            if self.attr_default is not None and isinstance(e.value, ast.Name) and e.value.id in self.env and self.env[e.value.id] is None:
                v = self.attr_default(key)
                if v is not None:
                    return v
            v = self.ev(e.value)
            if isinstance(v, TArr):
                if e.attr == "T":
                    return transpose(v)
                if e.attr == "shape":
                    return tuple(Poly.sym(d) if d != 1 else 1 for d in v.shape)
                if e.attr == "ndim":
                    return v.ndim
            raise Unsupported(f"attribute {key[:50]}")
        if isinstance(e, ast.Tuple) or isinstance(e, ast.List):
            vals = tuple(self.ev(x) for x in e.elts)
            return vals if isinstance(e, ast.Tuple) else list(vals)
        if isinstance(e, ast.UnaryOp):
            v = self.ev(e.operand)
            if isinstance(e.op, ast.USub):
                if isinstance(v, (int, Fr)):
                    return -v
                v = scalar(v)
                return TArr(v.shape, -v.term)
            if isinstance(e.op, ast.UAdd):
                return v
            if isinstance(e.op, ast.Not) and isinstance(v, bool):
                return not v
            if isinstance(e.op, ast.Not) and isinstance(v, TArr) and v.mask:
                r = binop("sub", 1, v)
                return TArr(r.shape, r.term, mask=True)
            raise Unsupported("unary operator")
        if isinstance(e, ast.BinOp):
            a, b = self.ev(e.left), self.ev(e.right)
            if isinstance(e.op, ast.BitAnd):
                if isinstance(a, TArr) and isinstance(b, TArr) and a.mask and b.mask:
                    r = binop("mul", a, b)
                    return TArr(r.shape, r.term, mask=True)
                raise Unsupported("& on non-masks")
            if isinstance(e.op, ast.MatMult):
                return matmul(a, b)
            if isinstance(e.op, ast.Pow):
                if isinstance(a, (int, Fr)) and isinstance(b, (int, Fr)) and Fr(b).denominator == 1:
                    return Fr(a) ** int(b)
                return power(a, b if not isinstance(b, TArr) else b)
            opn = {ast.Add: "add", ast.Sub: "sub", ast.Mult: "mul", ast.Div: "div"}.get(type(e.op))
            if opn is None:
                raise Unsupported(f"operator {type(e.op).__name__}")
            if isinstance(e.op, ast.Mult) and isinstance(a, list) and len(a) == 1 and _dim_of_size(b) is not None:
                return VecList(_dim_of_size(b), None, a[0])
            if all(isinstance(x, (int, Fr)) and not isinstance(x, bool) for x in (a, b)):
                a, b = Fr(a), Fr(b)
                return {"add": a + b, "sub": a - b, "mul": a * b, "div": (a / b) if b != 0 else _unsup("division by zero")}[opn]
            if isinstance(a, tuple) or isinstance(b, tuple) or isinstance(a, list) or isinstance(b, list):
                raise Unsupported("arithmetic on tuples")
            return binop(opn, a, b)
        if isinstance(e, ast.ListComp):
            if len(e.generators) == 1 and not e.generators[0].ifs and isinstance(e.generators[0].target, ast.Name):
                src = self.ev(e.generators[0].iter)
                if isinstance(src, VecList):
                    saved = self.env.get(e.generators[0].target.id, _MISSING)
                    self.env[e.generators[0].target.id] = src.elem
                    try:
                        val = self.ev(e.elt)
                    finally:
                        if saved is _MISSING:
                            self.env.pop(e.generators[0].target.id, None)
                        else:
                            self.env[e.generators[0].target.id] = saved
                    return VecList(src.dim, src.index, val)
            raise Unsupported("list comprehension")
        if isinstance(e, ast.Compare):
            return self.compare(e)
        if isinstance(e, ast.BoolOp):
            vals = [self.ev(v) for v in e.values]
            if all(isinstance(v, bool) for v in vals):
                return all(vals) if isinstance(e.op, ast.And) else any(vals)
            if all(isinstance(v, TArr) and v.mask and v.shape == () for v in vals):
                acc = vals[0]
                for v in vals[1:]:
                    if isinstance(e.op, ast.And):
                        acc = binop("mul", acc, v)
                    else:
                        acc = binop("sub", binop("add", acc, v), binop("mul", acc, v))
                return TArr((), acc.term, mask=True)
            raise Unsupported("boolean operator on non-constants")
        if isinstance(e, ast.Subscript):
            return self.subscript(e)
        if isinstance(e, ast.Call):
            return self.call(e)
        raise Unsupported(f"expression {type(e).__name__}: {norm_src(e)[:60]}")

    def compare(self, e):
        if len(e.ops) != 1:
            raise Unsupported("chained comparison")
        a, b = self.ev(e.left), self.ev(e.comparators[0])
        if not (isinstance(a, TArr) and a.ndim > 0) and isinstance(b, TArr) and b.ndim > 0 and type(e.ops[0]) in (ast.Lt, ast.LtE, ast.Gt, ast.GtE, ast.Eq, ast.NotEq):
            # `eps < y` is `y > eps`: put the array on the left
            flip = {ast.Lt: ast.Gt, ast.LtE: ast.GtE, ast.Gt: ast.Lt, ast.GtE: ast.LtE, ast.Eq: ast.Eq, ast.NotEq: ast.NotEq}
            e = ast.copy_location(ast.Compare(left=e.comparators[0], ops=[flip[type(e.ops[0])]()], comparators=[e.left]), e)
            a, b = b, a
        if isinstance(e.ops[0], (ast.Is, ast.IsNot)):
            r = (a is None) == (b is None) if (a is None or b is None) else _unsup("is on values")
            return r if isinstance(e.ops[0], ast.Is) else not r
        if isinstance(a, (tuple, list)) and isinstance(b, (tuple, list)) and isinstance(e.ops[0], (ast.Eq, ast.NotEq)):
            # shapes: x.shape == (d, d), element by element
            if len(a) != len(b):
                return isinstance(e.ops[0], ast.NotEq)
            res = []
            for x_, y_ in zip(a, b):
                sub = ast.copy_location(ast.Compare(left=ast.Constant(value=0), ops=[ast.Eq()], comparators=[ast.Constant(value=0)]), e)
                px = x_.term if isinstance(x_, TArr) and x_.shape == () else (x_ if isinstance(x_, Poly) else (Poly.const(x_) if isinstance(x_, (int, Fr)) else None))
                py = y_.term if isinstance(y_, TArr) and y_.shape == () else (y_ if isinstance(y_, Poly) else (Poly.const(y_) if isinstance(y_, (int, Fr)) else None))
                if px is None or py is None:
                    if x_ == y_:
                        res.append(True)
                        continue
                    raise Unsupported(f"comparison {norm_src(e)[:60]}")
                if px == py:
                    res.append(True)
                elif px.is_const() and py.is_const():
                    res.append(False)
                else:
                    raise Unsupported(f"comparison {norm_src(e)[:60]}")
            eq = all(res)
            return eq if isinstance(e.ops[0], ast.Eq) else not eq
        if isinstance(a, TArr) and a.ndim > 0:
            src = norm_src(e)
            # clip mask of the raw predictions: 1 strictly inside the clip interval
            if isinstance(e.ops[0], (ast.Gt, ast.Lt, ast.GtE, ast.LtE)) and "epsilon" in norm_src(e.comparators[0]):
                if getattr(self, "symbolic_clip", False) and a.ndim == 2:
                    # the clip mask as a 0/1 tensor: entries at the epsilon bounds are constants of the score
                    nm = "mlo" if isinstance(e.ops[0], (ast.Gt, ast.GtE)) else "mhi"
                    return TArr(a.shape, Poly.atom(mk_var(nm, [ph(d, q) for q, d in enumerate(a.shape) if d != 1])), mask=True)
                self.notes.append(f"`{src}` is taken to hold (interior point)")
                return TArr(a.shape, Poly.const(1), mask=True)
            if self.mode == "model" and isinstance(e.ops[0], (ast.Gt, ast.GtE)) and isinstance(b, int) and b == 0:
                return TArr(a.shape, mk_step(a.term, strict=isinstance(e.ops[0], ast.Gt)), mask=True)
            if isinstance(e.ops[0], ast.Eq) and isinstance(b, int) and b == 0:
                # zero test of a floored quantity: empty off the diagonal at a generic point; the diagonal of a pairwise
                # distance (term vanishing identically when the two indices coincide) is zero
                return TArr(a.shape, zero_locus(a), mask=True)
            if self.mode == "objective" and isinstance(e.ops[0], (ast.Gt, ast.GtE, ast.Lt, ast.LtE)):
                d = binop("sub", a, b)
                if isinstance(e.ops[0], (ast.Lt, ast.LtE)):
                    d = TArr(d.shape, -d.term)
                return TArr(d.shape, mk_ind(d.term, ">=" if isinstance(e.ops[0], (ast.GtE, ast.LtE)) else ">"), mask=True)
            raise Unsupported(f"comparison {src[:60]}")
        if isinstance(a, (Poly, TArr)) or isinstance(b, (Poly, TArr)):
            pa = a.term if isinstance(a, TArr) and a.shape == () else (a if isinstance(a, Poly) else (Poly.const(a) if isinstance(a, (int, Fr)) else None))
            pb = b.term if isinstance(b, TArr) and b.shape == () else (b if isinstance(b, Poly) else (Poly.const(b) if isinstance(b, (int, Fr)) else None))
            if pa is not None and pb is not None and isinstance(e.ops[0], (ast.Eq, ast.NotEq)):
                if pa == pb:
                    return isinstance(e.ops[0], ast.Eq)
                if pa.is_const() and pb.is_const():
                    return not isinstance(e.ops[0], ast.Eq)
        if isinstance(a, (int, Fr)) and isinstance(b, (int, Fr)):
            op = type(e.ops[0])
            return {ast.Lt: a < b, ast.LtE: a <= b, ast.Gt: a > b, ast.GtE: a >= b, ast.Eq: a == b, ast.NotEq: a != b}[op]
        raise Unsupported(f"comparison {norm_src(e)[:60]}")

    def subscript(self, e):
        v = self.ev(e.value)
        idx = e.slice
        if isinstance(v, (tuple, list)):
            i = self.ev(idx)
            if isinstance(i, int):
                return v[i]
            raise Unsupported("tuple index")
        if isinstance(v, dict):
            k = self.ev(idx)
            if isinstance(k, str) and k in v:
                return v[k]
            raise Unsupported("dictionary key")
        if isinstance(v, VecList):
            k = self.ev(idx)
            if isinstance(k, Idx) and k.dim == v.dim and v.index is not None:
                return map_value(v.elem, lambda a: TArr(a.shape, subst(a.term, {v.index: k.name})))
            raise Unsupported("list index")
        if isinstance(v, TArr):
            elts = idx.elts if isinstance(idx, ast.Tuple) else [idx]
            out = v
            pos = 0
            for el in elts:
                if not isinstance(el, (ast.Slice, ast.Constant)) and not (isinstance(el, ast.Attribute)):
                    iv = self.ev(el)
                    if isinstance(iv, Idx):
                        if out.shape[pos] != iv.dim:
                            raise Unsupported("index of another axis size")
                        keep = [q for q in range(out.ndim) if q != pos]
                        tmp = TArr([1 if q == pos else dd for q, dd in enumerate(out.shape)], subst(out.term, {ph(iv.dim, pos): iv.name}), out.mask)
                        out = reindex(tmp, {q: (keep.index(q) if q in keep else None) for q in range(out.ndim)}, [out.shape[q] for q in keep])
                        continue
                if isinstance(el, ast.Slice) and el.lower is None and el.upper is None and el.step is None:
                    pos += 1
                    continue
                if isinstance(el, ast.Constant) and el.value is None:
                    out = expand_dims(out, pos)
                    pos += 1
                    continue
                if isinstance(el, ast.Attribute) and norm_src(el) == "np.newaxis":
                    out = expand_dims(out, pos)
                    pos += 1
                    continue
                raise Unsupported(f"index {norm_src(el)[:40]} (positional access)")
            return out
        raise Unsupported("subscript")

    def kw(self, call, name, pos=None, default=None):
        for k in call.keywords:
            if k.arg == name:
                return self.ev(k.value)
        if pos is not None and len(call.args) > pos:
            return self.ev(call.args[pos])
        return default

    def call(self, c):
        fn = norm_src(c.func)
        name = fn.split(".")[-1]
        is_np = isinstance(c.func, ast.Attribute) and isinstance(c.func.value, ast.Name) and c.func.value.id in ("np", "numpy")
        if is_np or fn in ("len", "abs", "float", "int"):
            return self.np_call(c, name)
        if getattr(self, "call_hook", None) is not None:
            r = self.call_hook(self, c, fn)
            if r is not _MISSING:
                return r
        if fn in ("ot.emd2", "emd2"):
            return self.emd2(c)
        if fn.endswith(".update_params") and len(c.args) == 2 and getattr(self, "on_update", None) is not None:
            self.on_update(self.ev(c.args[0]), self.ev(c.args[1]))
            raise Ret(None)
        if fn == "softmax" and len(c.args) == 1:
            z = scalar(self.ev(c.args[0]))
            if z.ndim != 2:
                raise Unsupported("softmax of a non-matrix")
            ez = TArr(z.shape, mk_exp(z.term))
            return binop("div", ez, reduce_sum(ez, 1, True))
        if isinstance(c.func, ast.Attribute) and isinstance(c.func.value, ast.Call) and norm_src(c.func.value.func) == "super" and self.super_call is not None:
            return self.super_call(c.func.attr, [self.ev(a) for a in c.args])
        # methods
        if isinstance(c.func, ast.Attribute):
            recv = self.ev(c.func.value)
            if isinstance(recv, TArr):
                return self.method(c, recv, name)
        # a plain helper function of the package (module level, positional parameters, no *args): interpreted with the argument terms
        res = getattr(self, "func_resolver", None)
        if res is not None and isinstance(c.func, ast.Name) and not c.keywords and getattr(self, "_depth", 0) < 4:
            fdef = res(c.func.id)
            if fdef is not None and not fdef.args.vararg and not fdef.args.kwarg and len(c.args) == len(fdef.args.args) and not fdef.decorator_list:
                env = {a.arg: self.ev(x) for a, x in zip(fdef.args.args, c.args)}
                sub = TermInterp(env, self.attrs, self.notes, self.mode, self.attr_default, self.super_call)
                sub.func_resolver = res
                sub._depth = getattr(self, "_depth", 0) + 1
                for k_ in ("call_hook", "on_update", "symbolic_clip"):
                    if hasattr(self, k_):
                        setattr(sub, k_, getattr(self, k_))
                return sub.run(fdef)
        raise Unsupported(f"call {fn[:50]}")

    def emd2(self, c):
        """optimal-transport cost as an opaque function of its two marginals, with its dual potentials"""
        from .e8_index import Poly as P
        a, b = scalar(self.ev(c.args[0])), scalar(self.ev(c.args[1]))
        if a.ndim != 1 or b.ndim != 1 or a.shape[0] != b.shape[0] or a.shape[0] == 1:
            raise Unsupported("emd2 marginals")
        d = a.shape[0]
        bnd = f"${d}0a"
        fa = subst(a.term, {ph(d, 0): bnd}).frozen()
        fb = subst(b.term, {ph(d, 0): bnd}).frozen()
        cost_name = norm_src(c.args[2]) if len(c.args) > 2 else "?"
        cost = TArr((), P.atom(("fn", "emd2", (fa, fb), (bnd,), cost_name)))
        log = self.kw(c, "log", None, False)
        if not log:
            return cost
        u = TArr([d], P.atom(("fn", "emd2_u", (fa, fb, ph(d, 0)), (bnd,), cost_name)))
        v = TArr([d], P.atom(("fn", "emd2_v", (fa, fb, ph(d, 0)), (bnd,), cost_name)))
        return (cost, {"u": u, "v": v})

    def method(self, c, x, name):
        if name in ("sum", "mean"):
            axis = self.kw(c, "axis", 0)
            keep = self.kw(c, "keepdims", 1, False)
            return reduce_sum(x, axis, bool(keep), mean=(name == "mean"))
        if name == "reshape":
            shp = self.ev(c.args[0]) if len(c.args) == 1 else tuple(self.ev(a) for a in c.args)
            if isinstance(shp, int):
                shp = (shp,)
            return reshape(x, shp)
        if name == "squeeze":
            return squeeze(x, self.kw(c, "axis", 0))
        if name == "transpose":
            ax = self.ev(c.args[0]) if len(c.args) == 1 else (tuple(self.ev(a) for a in c.args) or None)
            return transpose(x, ax)
        if name == "dot":
            return matmul(x, self.ev(c.args[0]))
        if name == "copy" or name == "astype":
            return x
        if name == "item":
            if x.ndim == 0 or all(d == 1 for d in x.shape):
                return TArr((), x.term)
        raise Unsupported(f"method {name}")

    def np_call(self, c, name):
        A = lambda i: self.ev(c.args[i])
        if name == "len":
            v = A(0)
            if isinstance(v, TArr) and v.ndim:
                return Poly.sym(v.shape[0]) if v.shape[0] != 1 else 1
            if isinstance(v, (tuple, list)):
                return len(v)
            raise Unsupported("len")
        if name in ("float", "int", "ascontiguousarray", "asarray", "array", "copy"):
            return A(0)
        if name == "clip":
            self.notes.append("np.clip is the identity strictly inside the clip interval")
            return A(0)
        if name in ("sum", "mean"):
            axis = self.kw(c, "axis", 1)
            keep = self.kw(c, "keepdims", None, False)
            return reduce_sum(A(0), axis, bool(keep), mean=(name == "mean"))
        if name == "log":
            x = scalar(A(0))
            return TArr(x.shape, mk_log(x.term))
        if name == "sqrt":
            return power(A(0), Fr(1, 2))
        if name == "square":
            return power(A(0), 2)
        if name == "exp":
            raise Unsupported("exp")
        if name in ("abs", "absolute"):
            x = scalar(A(0))
            return TArr(x.shape, mk_abs(x.term))
        if name == "sign":
            x = scalar(A(0))
            return TArr(x.shape, mk_sign(x.term))
        if name == "maximum":
            b = A(1)
            if isinstance(b, (int, Fr)) and b == 0:
                if self.mode == "model":
                    x = scalar(A(0))
                    return TArr(x.shape, x.term * mk_step(x.term))
                self.notes.append("np.maximum(x, 0) = x where x > 0 (generic point)")
                return A(0)
            raise Unsupported("np.maximum with a non-zero floor")
        if name in ("multiply", "add", "subtract", "divide"):
            return binop({"multiply": "mul", "add": "add", "subtract": "sub", "divide": "div"}[name], A(0), A(1))
        if name == "power":
            return power(A(0), A(1))
        if name in ("dot", "matmul"):
            return matmul(A(0), A(1))
        if name == "transpose":
            return transpose(A(0), self.kw(c, "axes", 1))
        if name == "expand_dims":
            return expand_dims(A(0), self.kw(c, "axis", 1))
        if name == "squeeze":
            return squeeze(A(0), self.kw(c, "axis", 1))
        if name == "repeat":
            x, n, axis = scalar(A(0)), A(1), self.kw(c, "axis", 2)
            if axis is None:
                raise Unsupported("repeat without axis")
            axis = norm_axis(axis, x.ndim)
            d = _dim_of_size(n)
            if x.shape[axis] != 1 or d is None:
                raise Unsupported("repeat of a symbolic axis")
            shape = list(x.shape)
            shape[axis] = d
            return TArr(shape, x.term)
        if name == "eye":
            d = _dim_of_size(A(0))
            if d is None:
                raise Unsupported("eye of a non-symbolic size")
            return eye(d)
        if name in ("ones", "zeros", "ones_like", "zeros_like"):
            v = A(0)
            val = Poly.const(1 if name.startswith("ones") else 0)
            if name.endswith("_like"):
                return TArr(scalar(v).shape, val)
            shp = v if isinstance(v, (tuple, list)) else (v,)
            dims = [_dim_of_size(s) or (1 if s == 1 else _unsup("numeric shape")) for s in shp]
            return TArr(dims, val)
        if name == "einsum":
            spec = A(0)
            if not isinstance(spec, str) or "->" not in spec or "." in spec:
                raise Unsupported("einsum without an explicit output")
            ins, outs = spec.replace(" ", "").split("->")
            ins = ins.split(",")
            ops = [scalar(self.ev(a)) for a in c.args[1:]]
            if len(ins) != len(ops):
                raise Unsupported("einsum operands")
            letter_dim = {}
            letter_idx = {}
            prod = Poly.const(1)
            for sub, op in zip(ins, ops):
                if len(sub) != op.ndim:
                    raise Unsupported("einsum rank")
                mp = {}
                for pos, (ch, d) in enumerate(zip(sub, op.shape)):
                    if d == 1:
                        continue
                    if letter_dim.setdefault(ch, d) != d:
                        raise Unsupported("einsum letter used for two axis sizes")
                    letter_idx.setdefault(ch, fresh(d))
                    mp[ph(d, pos)] = letter_idx[ch]
                prod = prod * subst(op.term, mp)
            summed = [(letter_idx[ch], letter_dim[ch]) for ch in letter_idx if ch not in outs]
            term = mk_sum(summed, prod) if summed else prod
            shape = [letter_dim.get(ch, 1) for ch in outs]
            term = subst(term, {letter_idx[ch]: ph(letter_dim[ch], pos) for pos, ch in enumerate(outs) if ch in letter_idx})
            return TArr(shape, term)
        if name == "vstack":
            v = A(0)
            if isinstance(v, VecList) and isinstance(v.elem, TArr) and v.index is not None and v.elem.ndim == 1:
                el = v.elem
                mp = {ph(dd, q): ph(dd, q + 1) for q, dd in enumerate(el.shape) if dd != 1}
                mp[v.index] = ph(v.dim, 0)
                return TArr([v.dim] + list(el.shape), subst(el.term, mp))
            raise Unsupported("vstack")
        if name == "diag":
            return diag(A(0))
        if name == "reshape":
            return reshape(A(0), A(1))
        if name == "where":
            m, a, b = A(0), A(1), A(2)
            if isinstance(m, TArr) and m.mask:
                return binop("add", binop("mul", m, a), binop("mul", binop("sub", 1, m), b))
            raise Unsupported("np.where on a non-mask")
        raise Unsupported(f"np.{name}")


_MISSING = object()


def zero_locus(a):
    """indicator of the set where the (floored, generically positive) array `a` is zero: only the structural zeros count,
    i.e. entries that vanish identically when two axes of equal size carry the same index (the diagonal of a distance matrix)"""
    sym = [(p, d) for p, d in enumerate(a.shape) if d != 1]
    if len(sym) == 2 and sym[0][1] == sym[1][1]:
        (p0, d), (p1, _) = sym
        on_diag = subst(a.term, {ph(d, p1): ph(d, p0)})
        from .e8_index import is_zero
        if is_zero(on_diag):
            return mk_delta(ph(d, p0), ph(d, p1))
    return Poly()


def _dim_of_size(v):
    if isinstance(v, Poly):
        s = v.single()
        if s and s[0] == 1 and len(s[1]) == 1 and s[1][0][0][0] == "sym" and s[1][0][1] == 1:
            return s[1][0][0][1]
    return None


def _unsup(msg):
    raise Unsupported(msg)


def _load(t):
    import copy
    n = _clone(t)
    for x in ast.walk(n):
        if hasattr(x, "ctx"):
            x.ctx = ast.Load()
    return n


def input_array(name, dims):
    """symbolic input tensor: entry name[i0, i1, ...] at the positional placeholders"""
    return TArr(dims, Poly.atom(mk_var(name, [ph(d, p) for p, d in enumerate(dims) if d != 1])))
