"""E8 applied to the GEMINI objectives: terms of evaluate(), of the reference definitions, and the two comparisons
(score = definition, gradient = derivative of the score)."""
import time

from . import e8_index as X
from .e8_index import Poly, Unsupported, subst, diff, is_zero, equal, instance_zero
from .e8_numpy import TermInterp, input_array, scalar, TArr
from .gemini_specs import spec_function, SPECS

ASSUMPTIONS = [
    "interpretation domain of the term translation: predictions strictly inside the clip interval (np.clip = identity, clip mask = 1), "
    "floored quantities positive off the structural diagonal (np.maximum(x, 0) = x, (x == 0) masks reduce to the diagonal), symmetric affinity",
    "numpy semantics of the translated subset (broadcasting, reductions, matmul, transpose, expand_dims, diag, eye) as encoded in gcverif/e8_numpy.py",
    "ot.emd2(a, b, M, log=True) returns the optimal transport cost and dual potentials (u for a, v for b); its differential is "
    "sum_i u_i da_i + sum_i v_i db_i inside a region where the optimal basis does not change",
]


def evaluate_terms(pm, cname, ovo, grad, symbolic_clip=False):
    f = pm.classes[cname].methods.get("evaluate")
    if f is None:
        raise Unsupported(f"{cname}.evaluate not found")
    params = [a.arg for a in f.args.args]
    if len(params) < 3:
        raise Unsupported("evaluate signature")
    env = {params[0]: None, params[1]: input_array("y", ["N", "K"]), params[2]: input_array("A", ["N", "N"])}
    if len(params) > 3:
        env[params[3]] = grad
    I = TermInterp(env, {f"{params[0]}.ovo": ovo, f"{params[0]}.epsilon": Poly.sym("eps")})
    I.symbolic_clip = symbolic_clip
    out = I.run(f)
    return out, I.notes


def as_scalar(v):
    v = scalar(v)
    if any(d != 1 for d in v.shape):
        raise Unsupported(f"score of shape {list(v.shape)}")
    return v.term


def check_gradient(pm, cname, ovo, budget=120):
    """-> (status, detail): status in exact | different | undecided.
    The predictions that reach the formulas are the clipped ones, p = clip(y): entries inside the clip interval vary with y, the
    others are constants. With the clip mask m as a 0/1 tensor, the derivative of the returned score with respect to y[a,j] is
    m[a,j] * dS/dp[a,j]; the returned gradient must be exactly that (a per-sample constant does NOT cancel along the simplex
    once an entry of the row is clipped, which is legal for any epsilon in (0, 1))."""
    from .e8_index import mk_var
    X.SIMPLEX["on"] = False
    out, notes = evaluate_terms(pm, cname, ovo, True, symbolic_clip=True)
    if not (isinstance(out, tuple) and len(out) == 2):
        raise Unsupported("evaluate(return_grad=True) does not return a pair")
    score = as_scalar(out[0])
    g = scalar(out[1])
    if tuple(g.shape) != ("N", "K"):
        return "different", f"the gradient has axes {list(g.shape)}, not [N, K]"
    m, j, j2 = "Nm", "Kj", "Kj2"
    if any(a[0] == "var" and a[1] in X.INDICATOR_VARS for mono in score.t for a, _ in mono) or "mlo" in repr(score) or "mhi" in repr(score):
        return "different", "the returned score depends on the clip mask itself (it must be computed from the clipped predictions only)"
    mask = Poly.atom(mk_var("mlo", (m, j))) * Poly.atom(mk_var("mhi", (m, j)))
    d = mask * diff(score, "y", (m, j))
    gt = subst(g.term, {"N@0": m, "K@1": j})
    D = gt - d
    if is_zero(D):
        return "exact", ""
    # classify the difference for the message: equal inside the clip interval (all masks 1)?
    from .e8_index import replace_tensor
    ones = lambda p_: replace_tensor(replace_tensor(p_, "mlo", lambda idx: Poly.const(1)), "mhi", lambda idx: Poly.const(1))
    try:
        D1 = ones(D)
        interior_equal = is_zero(D1)
        tangent = (not interior_equal) and is_zero(D1 - subst(D1, {j: j2}))
    except Unsupported:
        interior_equal = tangent = False
    if interior_equal:
        return "different", ("the gradient equals the derivative only while no prediction is clipped: the clip mask enters the computation before a reduction over the "
                             "samples, so the terms that clipped samples contribute through p(y=k) are lost (mask the finished gradient instead)")
    if tangent:
        return "different", ("the gradient differs from the derivative by a per-sample constant: this cancels along the simplex only while no entry of the row is clipped; "
                             "with a clipped entry (any epsilon in (0,1) is legal) the directional derivatives over the remaining entries are wrong")
    try:
        ok, wit = instance_zero(ones(D), [m, j], sizes_list=((2, 2), (2, 3)), simplex=False)
    except (Unsupported, ZeroDivisionError) as e:
        return "undecided", f"canonical forms differ and the finite instance cannot be expanded ({e})"
    if ok:
        return "undecided", "canonical forms differ but the instances N,K in {(2,2),(2,3)} agree: rewrite system incomplete for this form"
    return "different", f"at N={wit['N']}, K={wit['K']}, entry {wit['indices']}: gradient - d(score) leaves the residual {wit['residual'][:160]}"


def check_score(pm, cname, ovo):
    """-> (status, detail): equal | different | undecided"""
    X.SIMPLEX["on"] = True
    try:
        out, notes = evaluate_terms(pm, cname, ovo, False)
        score = as_scalar(out)
        sf, src = spec_function(cname, ovo)
        J = TermInterp({"y_pred": input_array("y", ["N", "K"]), "affinity": input_array("A", ["N", "N"])}, {})
        ref = as_scalar(J.run(sf))
        if equal(score, ref):
            return "equal", ""
        try:
            ok, wit = instance_zero(score - ref, [], sizes_list=((2, 2), (2, 3)), simplex=True)
        except Unsupported as e:
            return "undecided", f"canonical forms differ and the finite instance cannot be expanded ({e})"
        if ok:
            return "undecided", "canonical forms differ but the instances agree on the simplex"
        return "different", f"at N={wit['N']}, K={wit['K']}: score - definition = {wit['residual'][:200]}"
    finally:
        X.SIMPLEX["on"] = False


def check_same_score(pm, cname, ovo):
    X.SIMPLEX["on"] = False
    a, _ = evaluate_terms(pm, cname, ovo, False)
    b, _ = evaluate_terms(pm, cname, ovo, True)
    if not isinstance(b, tuple):
        raise Unsupported("no pair")
    return equal(as_scalar(a), as_scalar(b[0]))


def check_independence(pm, cname, ovo):
    """value of the score when the predictions do not depend on the sample (y[n,k] = c[k], sum_k c[k] = 1) -> Poly"""
    from .e8_index import replace_tensor, mk_var
    X.SIMPLEX["on"] = False
    out, notes = evaluate_terms(pm, cname, ovo, False)
    sc = as_scalar(out)
    X.POSITIVE_VARS.add("c")
    old = X.SIMPLEX["var"]
    X.SIMPLEX["var"] = "c"
    X.SIMPLEX["on"] = True
    try:
        return replace_tensor(sc, "y", lambda idx: Poly.atom(mk_var("c", (idx[1],))))
    finally:
        X.SIMPLEX["var"] = old
        X.SIMPLEX["on"] = False


def cross_check_instances(pm, cname, ovo, sizes_list=((2, 2), (2, 3), (3, 2))):
    """thorough tier: an independent route to the same two comparisons. Each side is written out separately at small sizes
    (every sum expanded over concrete indices, on the simplex for the score) and the two expansions are compared. A
    disagreement with the symbolic verdict means the normaliser is unsound or incomplete -> reported as an analysis error.
    -> list of (what, ok)"""
    from .e8_index import instantiate, on_simplex, cidx
    res = []
    X.SIMPLEX["on"] = False
    out, _ = evaluate_terms(pm, cname, ovo, True)
    score = as_scalar(out[0])
    g = scalar(out[1])
    m, j = "Nm", "Kj"
    gt = subst(g.term, {"N@0": m, "K@1": j})
    d = diff(score, "y", (m, j))
    ok = True
    for n_, k_ in sizes_list:
        sz = {"N": n_, "K": k_}
        for a in range(n_):
            for b in range(k_):
                env = {m: cidx("N", a), j: cidx("K", b)}
                if not is_zero(instantiate(gt, sz, env) - instantiate(d, sz, env)):
                    ok = False
    res.append(("gradient = derivative at N,K in " + str(list(sizes_list)), ok))
    X.SIMPLEX["on"] = True
    try:
        out2, _ = evaluate_terms(pm, cname, ovo, False)
        sc = as_scalar(out2)
        sf, src = spec_function(cname, ovo)
        J = TermInterp({"y_pred": input_array("y", ["N", "K"]), "affinity": input_array("A", ["N", "N"])}, {})
        ref = as_scalar(J.run(sf))
    finally:
        X.SIMPLEX["on"] = False
    ok2 = True
    for n_, k_ in sizes_list:
        sz = {"N": n_, "K": k_}
        q = on_simplex(instantiate(sc, sz, {}), sz) - on_simplex(instantiate(ref, sz, {}), sz)
        if not is_zero(q):
            ok2 = False
    res.append(("score = definition on the simplex at N,K in " + str(list(sizes_list)), ok2))
    return res
