"""Semantic matching helpers: resolve local names through their unique reaching definition, canonical comparison."""
import ast

from .pm import norm_src
from .flow import CFG, ENTRY, attr_chain
from .e6_algebra import to_rat, NotScalarArithmetic
from .e5_mirror import canon


def resolve_expr(cfg, st, expr, depth=0):
    """replace local names that have exactly one reaching (non-parameter) definition `name = <expr>` by that expression"""
    rd = cfg.reaching()
    if depth > 6:
        return expr
    import copy

    class R(ast.NodeTransformer):
        def visit_Name(self, n):
            if isinstance(n.ctx, ast.Load):
                ds = [d for d in rd.get(st, {}).get(n.id, frozenset())]
                if len(ds) == 1 and ds[0] is not ENTRY and isinstance(ds[0], ast.Assign) and len(ds[0].targets) == 1 \
                        and isinstance(ds[0].targets[0], ast.Name):
                    return resolve_expr(cfg, ds[0], copy.deepcopy(ds[0].value), depth + 1)
            return n
    return ast.fix_missing_locations(R().visit(copy.deepcopy(expr)))


def single_def(cfg, st, name):
    ds = [d for d in cfg.reaching().get(st, {}).get(name, frozenset())]
    if len(ds) == 1 and ds[0] is not ENTRY:
        return ds[0]
    return None


def canon_equal(a, b):
    """a, b: ast expressions (or source text). Equal as rational forms, else equal modulo commutativity."""
    if isinstance(a, str):
        a = ast.parse(a, mode="eval").body
    if isinstance(b, str):
        b = ast.parse(b, mode="eval").body
    try:
        return to_rat(a).equals(to_rat(b))
    except (NotScalarArithmetic, ZeroDivisionError):
        return canon(a) == canon(b)


def cfg_node(cfg, node):
    n = node
    while n is not None and n not in cfg.succ:
        n = getattr(n, "_parent", None)
    return n


def stmt_of(n):
    while n is not None and not isinstance(n, ast.stmt):
        n = getattr(n, "_parent", None)
    return n
