"""Semantic matching helpers: resolve local names through their unique reaching definition, canonical comparison."""
import ast

from .pm import norm_src
from .flow import CFG, ENTRY, attr_chain
from .e6_algebra import to_rat, NotScalarArithmetic
from .e5_mirror import canon


def resolve_expr(cfg, st, expr, depth=0):
    """replace local names that have exactly one reaching (non-parameter) definition `name = <expr>` by that expression"""
    rd = cfg.reaching()
    if depth > 6:
        return expr
    import copy

    class R(ast.NodeTransformer):
        def visit_Name(self, n):
            if isinstance(n.ctx, ast.Load):
                ds = [d for d in rd.get(st, {}).get(n.id, frozenset())]
                if len(ds) == 1 and ds[0] is not ENTRY and isinstance(ds[0], ast.Assign) and len(ds[0].targets) == 1 \
                        and isinstance(ds[0].targets[0], ast.Name):
                    return resolve_expr(cfg, ds[0], copy.deepcopy(ds[0].value), depth + 1)
            return n
    return ast.fix_missing_locations(R().visit(copy.deepcopy(expr)))


def single_def(cfg, st, name):
    ds = [d for d in cfg.reaching().get(st, {}).get(name, frozenset())]
    if len(ds) == 1 and ds[0] is not ENTRY:
        return ds[0]
    return None


def canon_equal(a, b):
    """a, b: ast expressions (or source text). Equal as rational forms, else equal modulo commutativity."""
    if isinstance(a, str):
        a = ast.parse(a, mode="eval").body
    if isinstance(b, str):
        b = ast.parse(b, mode="eval").body
    try:
        return to_rat(a).equals(to_rat(b))
    except (NotScalarArithmetic, ZeroDivisionError):
        return canon(a) == canon(b)


def cfg_node(cfg, node):
    n = node
    while n is not None and n not in cfg.succ:
        n = getattr(n, "_parent", None)
    return n


def stmt_of(n):
    while n is not None and not isinstance(n, ast.stmt):
        n = getattr(n, "_parent", None)
    return n


def expect_assign(ctx, rule, unit, qn, scope, target_src, expected, site, why, ok_note="", all_sites=False):
    """Judge `target = value` statements of `scope` (a function / loop node): the value must be canonically equal to one of
    `expected` (source texts). No assignment to that target -> unrecognised (cannot judge); a different value -> violation.
    returns the matching statement or None"""
    cands = [s for s in ast.walk(scope) if isinstance(s, (ast.Assign, ast.AugAssign)) and any(
        norm_src(t) == target_src for t in (s.targets if isinstance(s, ast.Assign) else [s.target]))]
    if not cands:
        ctx.unrecognised(rule, site, f"no assignment to {target_src}")
        return None
    good = [c for c in cands if isinstance(c, ast.Assign) and any(canon_equal(c.value, e) for e in expected)]
    if good and (not all_sites or len(good) == len(cands)):
        ctx.ok(rule, site, ok_note or f"{target_src} = {norm_src(good[0].value)[:80]}")
        return good[0]
    bad = next(c for c in cands if c not in good)
    ctx.violation(rule, unit.relpath, qn, norm_src(bad)[:200], f"{why} (found `{norm_src(bad)[:120]}`, expected {target_src} = {expected[0]})", line=bad.lineno, site=site)
    return None


def expect_call(ctx, rule, unit, qn, scope, callee, site, why, args=None, present_only=False):
    """a call of `callee` (dotted name) must exist in scope; optionally with the given normalised positional args"""
    from .astutil import call_name
    calls = [n for n in ast.walk(scope) if isinstance(n, ast.Call) and call_name(n) == callee]
    if not calls:
        ctx.unrecognised(rule, site, f"no call of {callee}")
        return None
    if args is None or any([norm_src(a) for a in c.args] == args for c in calls):
        ctx.ok(rule, site, norm_src(calls[0])[:100])
        return calls[0]
    ctx.violation(rule, unit.relpath, qn, norm_src(stmt_of(calls[0]))[:200], f"{why} (found `{norm_src(calls[0])[:120]}`)", line=calls[0].lineno, site=site)
    return None
