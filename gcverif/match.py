"""Semantic matching helpers: resolve local names through their unique reaching definition, canonical comparison."""
from .astutil import clone as _clone
import ast

from .pm import norm_src
from .flow import CFG, ENTRY, attr_chain
from .e6_algebra import to_rat, NotScalarArithmetic
from .e5_mirror import canon


def resolve_expr(cfg, st, expr, depth=0):
    """replace local names that have exactly one reaching (non-parameter) definition `name = <expr>` by that expression"""
    rd = cfg.reaching()
    if depth > 6:
        return expr
    import copy

    class R(ast.NodeTransformer):
        def visit_Name(self, n):
            if isinstance(n.ctx, ast.Load):
                ds = [d for d in rd.get(st, {}).get(n.id, frozenset())]
                if len(ds) == 1 and ds[0] is not ENTRY and isinstance(ds[0], ast.Assign) and len(ds[0].targets) == 1 \
                        and isinstance(ds[0].targets[0], ast.Name):
                    return resolve_expr(cfg, ds[0], _clone(ds[0].value), depth + 1)
            return n
    return ast.fix_missing_locations(R().visit(_clone(expr)))


def single_def(cfg, st, name):
    ds = [d for d in cfg.reaching().get(st, {}).get(name, frozenset())]
    if len(ds) == 1 and ds[0] is not ENTRY:
        return ds[0]
    return None


DUAL_METHODS = {"argmax", "argmin", "sum", "mean", "max", "min", "prod", "cumsum", "reshape", "transpose", "dot", "copy", "squeeze", "ravel", "any", "all", "std", "var",
                "clip", "round", "argsort", "sort", "nonzero", "flatten", "astype", "tolist"}
AXIS_FIRST = {"argmax", "argmin", "sum", "mean", "max", "min", "prod", "cumsum", "any", "all", "std", "var", "argsort", "squeeze"}


def normalise_calls(node):
    """np.f(x, ...) -> x.f(...) for functions that exist as array methods; axis keyword -> first positional; np.logical_not(x) -> ~x;
    np.flatnonzero(x) -> np.nonzero(x)[0]"""
    import copy

    class R(ast.NodeTransformer):
        def visit_Call(self, n):
            n = self.generic_visit(n)
            f = n.func
            if isinstance(f, ast.Attribute) and isinstance(f.value, ast.Name) and f.value.id in ("np", "numpy") and n.args:
                if f.attr == "logical_not" and len(n.args) == 1:
                    return ast.UnaryOp(op=ast.Invert(), operand=n.args[0])
                if f.attr in ("hstack", "vstack", "column_stack") and len(n.args) == 1 and not n.keywords and isinstance(n.args[0], (ast.List, ast.Tuple)):
                    # for operands of two or more dimensions (the only case where the axis-keyword form they are compared with is defined)
                    return ast.Call(func=ast.Attribute(value=ast.Name(id="np", ctx=ast.Load()), attr="concatenate", ctx=ast.Load()), args=[n.args[0]],
                                    keywords=[ast.keyword(arg="axis", value=ast.Constant(value=0 if f.attr == "vstack" else 1))])
                if f.attr == "concatenate" and len(n.args) == 2 and not n.keywords:
                    return ast.Call(func=f, args=[n.args[0]], keywords=[ast.keyword(arg="axis", value=n.args[1])])
                if f.attr in DUAL_METHODS:
                    n = ast.Call(func=ast.Attribute(value=n.args[0], attr=f.attr, ctx=ast.Load()), args=n.args[1:], keywords=n.keywords)
            f = n.func
            if isinstance(f, ast.Attribute) and f.attr in AXIS_FIRST and not n.args:
                ax = [k for k in n.keywords if k.arg == "axis"]
                if ax:
                    n = ast.Call(func=f, args=[ax[0].value], keywords=[k for k in n.keywords if k.arg != "axis"])
            return n
    if isinstance(node, str):
        node = ast.parse(node, mode="eval").body
    return ast.fix_missing_locations(R().visit(_clone(node)))


def canon_equal(a, b):
    """a, b: ast expressions (or source text). Equal as rational forms, else equal modulo commutativity and modulo the
    method / function spelling of numpy operations."""
    if isinstance(a, str):
        a = ast.parse(a, mode="eval").body
    if isinstance(b, str):
        b = ast.parse(b, mode="eval").body
    try:
        if to_rat(a).equals(to_rat(b)):
            return True
    except (NotScalarArithmetic, ZeroDivisionError):
        pass
    if canon(a) == canon(b):
        return True
    na, nb = normalise_calls(a), normalise_calls(b)
    try:
        if to_rat(na).equals(to_rat(nb)):
            return True
    except (NotScalarArithmetic, ZeroDivisionError):
        pass
    return canon(na) == canon(nb)


def arg_reduce(call):
    """(name, operand, axis expr or None) of x.argmax(k) / np.argmax(x, k) / np.argmax(x, axis=k) and friends, else None"""
    if not isinstance(call, ast.Call):
        return None
    n = normalise_calls(call)
    if isinstance(n, ast.Call) and isinstance(n.func, ast.Attribute) and n.func.attr in AXIS_FIRST:
        return n.func.attr, n.func.value, (n.args[0] if n.args else None)
    return None


def cfg_node(cfg, node):
    n = node
    while n is not None and n not in cfg.succ:
        n = getattr(n, "_parent", None)
    return n


def stmt_of(n):
    while n is not None and not isinstance(n, ast.stmt):
        n = getattr(n, "_parent", None)
    return n


def size_aliases(scope):
    """local names that are bound exactly once in `scope` to a size of an array: n, d = X.shape / n = len(X) / n = X.shape[0]"""
    import copy
    binds = {}
    for s_ in ast.walk(scope):
        if isinstance(s_, ast.Assign) and len(s_.targets) == 1:
            t, v = s_.targets[0], s_.value
            if isinstance(t, ast.Tuple) and isinstance(v, ast.Attribute) and v.attr == "shape":
                for i, e in enumerate(t.elts):
                    if isinstance(e, ast.Name):
                        binds.setdefault(e.id, []).append(f"{norm_src(v.value)}.shape[{i}]")
                    elif isinstance(e, (ast.Attribute, ast.Subscript)):
                        binds.setdefault(norm_src(e), []).append(f"{norm_src(v.value)}.shape[{i}]")
            elif isinstance(t, ast.Name):
                if isinstance(v, ast.Call) and norm_src(v.func) == "len" and len(v.args) == 1 and isinstance(v.args[0], ast.Name):
                    binds.setdefault(t.id, []).append(f"{v.args[0].id}.shape[0]")
                elif isinstance(v, ast.Subscript) and isinstance(v.value, ast.Attribute) and v.value.attr == "shape" and isinstance(v.slice, ast.Constant):
                    binds.setdefault(t.id, []).append(norm_src(v))
                else:
                    binds.setdefault(t.id, []).append(None)
        elif isinstance(s_, (ast.AugAssign, ast.For)):
            t = s_.target
            for n in ast.walk(t):
                if isinstance(n, ast.Name):
                    binds.setdefault(n.id, []).append(None)
    return {k: v[0] for k, v in binds.items() if len(v) == 1 and v[0] is not None}


def normalise_sizes(node, aliases):
    """rewrite size aliases and len(<name>) to the form <name>.shape[i] so that equal sizes compare equal"""
    import copy

    class R(ast.NodeTransformer):
        def visit_Name(self, n):
            if isinstance(n.ctx, ast.Load) and n.id in aliases:
                return ast.parse(aliases[n.id], mode="eval").body
            return n

        def visit_Attribute(self, n):
            k = norm_src(n)
            if isinstance(n.ctx, ast.Load) and k in aliases:
                return ast.parse(aliases[k], mode="eval").body
            return self.generic_visit(n)

        def visit_Call(self, n):
            n = self.generic_visit(n)
            if isinstance(n.func, ast.Name) and n.func.id == "len" and len(n.args) == 1 and isinstance(n.args[0], ast.Name) and not n.keywords:
                return ast.parse(f"{n.args[0].id}.shape[0]", mode="eval").body
            return n
    if isinstance(node, str):
        node = ast.parse(node, mode="eval").body
    return ast.fix_missing_locations(R().visit(_clone(node)))


_CFGS = {}


def equal_resolved(node_in_fn, value, forms):
    """is `value` canonically equal to one of `forms` (source texts), directly or after substituting on both sides the locals that
    have a single reaching definition at the statement of `node_in_fn` (hoisted or inlined temporaries do not matter)"""
    if any(canon_equal(value, e) for e in forms):
        return True
    fn = node_in_fn
    while fn is not None and not isinstance(fn, (ast.FunctionDef, ast.AsyncFunctionDef)):
        fn = getattr(fn, "_parent", None)
    if fn is None:
        return False
    try:
        from .flow import CFG
        cfg = _CFGS.get(id(fn))
        if cfg is None:
            cfg = _CFGS[id(fn)] = CFG(fn)
        st = cfg_node(cfg, node_in_fn)
        if st is None:
            return False
        rv = resolve_expr(cfg, st, value)
        return any(canon_equal(rv, resolve_expr(cfg, st, ast.parse(e, mode="eval").body if isinstance(e, str) else e)) for e in forms)
    except Exception:
        return False


def expect_assign(ctx, rule, unit, qn, scope, target_src, expected, site, why, ok_note="", all_sites=False):
    """Judge `target = value` statements of `scope` (a function / loop node): the value must be canonically equal to one of
    `expected` (source texts). No assignment to that target -> unrecognised (cannot judge); a different value -> violation.
    returns the matching statement or None"""
    cands = [s for s in ast.walk(scope) if isinstance(s, (ast.Assign, ast.AugAssign)) and any(
        norm_src(t) == target_src for t in (s.targets if isinstance(s, ast.Assign) else [s.target]))]
    if not cands:
        ctx.unrecognised(rule, site, f"no assignment to {target_src}")
        return None
    al = size_aliases(scope) if isinstance(scope, (ast.FunctionDef, ast.AsyncFunctionDef)) else {}
    good = [c for c in cands if isinstance(c, ast.Assign) and any(canon_equal(c.value, e) or canon_equal(normalise_sizes(c.value, al), normalise_sizes(e, al)) for e in expected)]
    if not good:
        # temporaries: compare after substituting, on both sides, every local that has a single definition reaching the statement
        fn = scope
        while fn is not None and not isinstance(fn, (ast.FunctionDef, ast.AsyncFunctionDef)):
            fn = getattr(fn, "_parent", None)
        if fn is not None:
            try:
                from .flow import CFG
                cfg = _CFGS.get(id(fn))
                if cfg is None:
                    cfg = _CFGS[id(fn)] = CFG(fn)
                for c in cands:
                    if not isinstance(c, ast.Assign):
                        continue
                    st = cfg_node(cfg, c)
                    if st is None:
                        continue
                    rv = resolve_expr(cfg, st, c.value)
                    for e in expected:
                        en = ast.parse(e, mode="eval").body if isinstance(e, str) else e
                        if canon_equal(rv, resolve_expr(cfg, st, en)):
                            good.append(c)
                            break
            except Exception:
                pass
    if good and (not all_sites or len(good) == len(cands)):
        ctx.ok(rule, site, ok_note or f"{target_src} = {norm_src(good[0].value)[:80]}")
        return good[0]
    bad = next(c for c in cands if c not in good)
    missing = missing_names(scope, expected)
    if missing:
        ctx.unrecognised(rule, site, f"the expected form is written with the temporaries {sorted(missing)}, which this function does not define")
        return None
    ctx.violation(rule, unit.relpath, qn, norm_src(bad)[:200], f"{why} (found `{norm_src(bad)[:120]}`, expected {target_src} = {expected[0]})", line=bad.lineno, site=site)
    return None


def missing_names(scope, expected):
    """plain names used by every expected form that are bound nowhere in the enclosing function (nor parameters, nor module names):
    the reference temporaries were inlined away, so the comparison cannot be made"""
    fn = scope
    while fn is not None and not isinstance(fn, (ast.FunctionDef, ast.AsyncFunctionDef)):
        fn = getattr(fn, "_parent", None)
    if fn is None:
        return set()
    bound = {a.arg for a in fn.args.args + fn.args.kwonlyargs + fn.args.posonlyargs}
    for n in ast.walk(fn):
        if isinstance(n, ast.Name) and isinstance(n.ctx, ast.Store):
            bound.add(n.id)
        elif isinstance(n, (ast.FunctionDef, ast.Lambda)) and n is not fn:
            bound |= {a.arg for a in n.args.args}
    mod = fn
    while getattr(mod, "_parent", None) is not None:
        mod = mod._parent
    glob = set()
    if isinstance(mod, ast.Module):
        for st in mod.body:
            if isinstance(st, (ast.Import, ast.ImportFrom)):
                glob |= {(a.asname or a.name).split(".")[0] for a in st.names}
            elif isinstance(st, (ast.FunctionDef, ast.ClassDef)):
                glob.add(st.name)
            elif isinstance(st, ast.Assign):
                glob |= {t.id for t in st.targets if isinstance(t, ast.Name)}
    import builtins
    out = None
    for e in expected:
        try:
            t = ast.parse(e, mode="eval").body if isinstance(e, str) else e
        except SyntaxError:
            continue
        own = {x.id for n in ast.walk(t) if isinstance(n, ast.comprehension) for x in ast.walk(n.target) if isinstance(x, ast.Name)} | \
              {a.arg for n in ast.walk(t) if isinstance(n, ast.Lambda) for a in n.args.args}
        names = {n.id for n in ast.walk(t) if isinstance(n, ast.Name)} - own
        miss = {n for n in names if n not in bound and n not in glob and not hasattr(builtins, n) and n not in ("np", "self")}
        out = miss if out is None else (out & miss)
    return out or set()


def expect_call(ctx, rule, unit, qn, scope, callee, site, why, args=None, present_only=False):
    """a call of `callee` (dotted name) must exist in scope; optionally with the given normalised positional args"""
    from .astutil import call_name
    calls = [n for n in ast.walk(scope) if isinstance(n, ast.Call) and call_name(n) == callee]
    if not calls:
        ctx.unrecognised(rule, site, f"no call of {callee}")
        return None
    if args is None or any([norm_src(a) for a in c.args] == args for c in calls):
        ctx.ok(rule, site, norm_src(calls[0])[:100])
        return calls[0]
    ctx.violation(rule, unit.relpath, qn, norm_src(stmt_of(calls[0]))[:200], f"{why} (found `{norm_src(calls[0])[:120]}`)", line=calls[0].lineno, site=site)
    return None


def value_cases(cfg, st, expr, depth=0):
    """[(literals, expression)]: the values `expr` can take at statement `st`, split along conditional expressions and along the reaching
    definitions of a plain name assigned in different branches; literals = conditions known to hold for that case (implied_literals form)"""
    from .flow import implied_literals, _atom, ENTRY
    base = frozenset(implied_literals(st)) if depth == 0 else frozenset()
    if depth > 4:
        return [(base, expr)]
    if isinstance(expr, ast.IfExp):
        out = []
        for pol, sub in ((True, expr.body), (False, expr.orelse)):
            lits = frozenset((c[1], c[2]) for c in _atom(expr.test, pol) if c[0] == "lit")
            out += [(base | lits | l2, e2) for l2, e2 in value_cases(cfg, st, sub, depth + 1)]
        return out
    if isinstance(expr, ast.Name):
        defs = cfg.reaching().get(st, {}).get(expr.id, frozenset())
        defs = [d for d in defs if d is not ENTRY]
        if defs and all(isinstance(d, ast.Assign) and len(d.targets) == 1 and isinstance(d.targets[0], ast.Name) for d in defs):
            out = []
            for d in defs:
                dl = frozenset(implied_literals(d))
                out += [(base | dl | l2, e2) for l2, e2 in value_cases(cfg, d, d.value, depth + 1)]
            return out
    return [(base, expr)]
