"""C06 - unselected features are inert; selection reads exact zeros; groups stay whole (structural clauses)."""
import ast

from ..pm import AnalysisError, norm_src, func_params
from ..flow import CFG, ENTRY, attr_chain
from ..astutil import call_name, self_name
from ..callgraph import resolve_name
from ..match import resolve_expr, canon_equal, cfg_node, stmt_of, single_def
from ..e3_axes import Interp, Arr, Num, Ax, Lst, NoneV, Frame, is_top
from ..scenarios import symbolic_estimator, nonusage, dedup_events

PROP = "C06"
EXPLANATION = (
    "(a) shrinkage wiring in both sparse _update_weights, decided on the CFG: every call of a proximal operator of "
    "gemclus.sparse._prox_grad is dominated by the optimiser step; its operands are the model's own (skip-)weights; its "
    "threshold argument, after resolving local names through their unique reaching definitions, is canonically "
    "alpha * optimiser_.learning_rate, and the learning rate is read after the optimiser step (Adam rewrites it in every "
    "update); output i of the operator is written back in place (np.copyto / slice store) into operand i on every path; (b) "
    "every matrix that multiplies X in _infer is such an operand, and get_selection / _n_selected_features / "
    "_group_lasso_penalty read the first of them through a row norm over the non-feature axis (axis types from the abstract "
    "interpretation); (c) groups stay whole: in the abstract interpretation of the group operators every operand handed to the "
    "elementary operator is a single row ([1, ...]) gathered with the group's indices, and groups_ is "
    "check_groups(self.groups, n_features) computed in fit before training, unconditionally. Not decided: numerical inertness "
    "(hierarchy bound), check_groups' partition logic over all group lists.")
ASSUMPTIONS = ["np.copyto(dst, src) writes src into dst in place", "np.linalg.norm(W, axis=1) is the per-feature row norm for W:[D,.]",
               "sklearn's AdamOptimizer updates its learning_rate attribute inside update_params"]

FAMS = [("SparseLinearModel", ["W_"], 0), ("SparseMLPModel", ["W_skip_", "W1_"], 1)]
PROX = "gemclus.sparse._prox_grad"


def prox_functions(pm):
    pu = pm.unit(PROX)
    return {n for n in pu.functions if n.endswith("prox_grad")}


def run(pm, ctx):
    ctx.rule("C06-a", "the shrinkage after each optimiser step must be the proximal step with threshold alpha x current learning rate, applied in place", floor=9)
    ctx.rule("C06-b", "selection must be read from the weights that inference multiplies the features with", floor=8)
    ctx.rule("C06-c", "a feature group is shrunk and zeroed as one block", floor=6)
    pu = pm.unit(PROX)
    pnames = prox_functions(pm)
    for cname, mats, n_extra in FAMS:
        ci = pm.classes.get(cname)
        if ci is None or "_update_weights" not in ci.methods:
            raise AnalysisError(f"anchor vanished: {cname}._update_weights")
        f = ci.methods["_update_weights"]
        unit, qn = ci.unit, f"{cname}._update_weights"
        cfg = CFG(f)
        sn = self_name(f)
        upd = [st for st in cfg.nodes if any(isinstance(n, ast.Call) and (call_name(n) or "").endswith("optimiser_.update_params") for e in cfg.header_exprs(st) for n in ast.walk(e))]
        calls = []
        for st in cfg.nodes:
            for e in cfg.header_exprs(st):
                for n in ast.walk(e):
                    if isinstance(n, ast.Call) and isinstance(n.func, ast.Name) and n.func.id in pnames:
                        kind, tgt = resolve_name(pm, unit, n.func.id)
                        if kind == "function" and tgt[0].modname == PROX:
                            calls.append((st, n))
        if not upd:
            ctx.unrecognised("C06-a", qn, "no optimiser_.update_params call")
            continue
        if not calls:
            ctx.violation("C06-a", unit.relpath, qn, norm_src(upd[0])[:120], "no proximal operator of _prox_grad is applied after the optimiser step: weights are never shrunk",
                          line=f.lineno, site=f"{qn}: prox step")
            continue
        # no path from the optimiser step to the end of the function may avoid the proximal step (the group-lasso step with a zero
        # threshold is the identity and may be skipped when alpha == 0; the hierarchical step is never the identity)
        site = f"{qn}: the proximal step cannot be skipped"
        early = [r for r in cfg.nodes if isinstance(r, ast.Return) and all(cfg.dominates(u_, r) for u_ in upd) and not any(cfg.dominates(st, r) for st, _ in calls)]
        if early:
            conds = [(h, br) for h, br in cfg.control_conditions(early[0]) if isinstance(h, ast.If)]
            ctest = norm_src(conds[0][0].test) if conds else ""
            zero_alpha = len(conds) == 1 and conds[0][1] is True and ctest.replace(" ", "") in (f"{sn}.alpha==0", f"0=={sn}.alpha", f"{sn}.alpha==0.0")
            if zero_alpha and cname.startswith("SparseLinear"):
                ctx.ok("C06-a", site, "skipped only when alpha == 0, where the group-lasso step is the identity")
            else:
                ctx.violation("C06-a", unit.relpath, qn, norm_src(early[0]), f"a path returns after the optimiser step without the proximal step (when `{ctest}`)" +
                              (": the hierarchical step still projects onto |W1| <= M ||W_skip|| when alpha = 0" if "MLP" in cname else ""), line=early[0].lineno, site=site)
        else:
            ctx.ok("C06-a", site)
        wb_all_ok = True
        for st, call in calls:
            site = f"{qn}: {call.func.id}"
            probs = []
            if not all(cfg.dominates(u, st) for u in upd):
                probs.append("the proximal step is not preceded by the optimiser step on every path")
            pf = pu.func(call.func.id)
            pparams = func_params(pf)
            grouped = pparams[0] == "groups"
            args = list(call.args)
            off = 1 if grouped else 0
            if grouped and not (args and attr_chain(args[0]) == f"{sn}.groups_"):
                probs.append(f"the group operator is not given {sn}.groups_")
            ops = args[off:off + len(mats)]
            opnames = [attr_chain(a) for a in ops]
            if opnames != [f"{sn}.{m}" for m in mats]:
                probs.append(f"operands {[norm_src(a) for a in ops]} are not the model's {mats}")
            thr = args[off + len(mats)] if len(args) > off + len(mats) else None
            if thr is None:
                probs.append("no threshold argument")
            else:
                full = resolve_expr(cfg, st, thr)
                if not canon_equal(full, f"{sn}.alpha * {sn}.optimiser_.learning_rate"):
                    probs.append(f"the threshold is {norm_src(full)}, not alpha * optimiser_.learning_rate")
                else:
                    # where is the learning rate read?
                    read_st = st
                    if isinstance(thr, ast.Name):
                        d = single_def(cfg, st, thr.id)
                        read_st = d if d is not None else st
                    if not all(cfg.dominates(u, read_st) and read_st is not u for u in upd):
                        probs.append("the learning rate is read before the optimiser step that rewrites it (stale threshold)")
            extra = args[off + len(mats) + 1:]
            if len(extra) != n_extra or (n_extra and attr_chain(extra[0]) != f"{sn}.M"):
                probs.append(f"hierarchy constant arguments are {[norm_src(a) for a in extra]}")
            # write back: outputs bound by this statement
            outs = []
            if isinstance(st, ast.Assign):
                t = st.targets[0]
                outs = [e.id for e in t.elts] if isinstance(t, ast.Tuple) and all(isinstance(e, ast.Name) for e in t.elts) else ([t.id] if isinstance(t, ast.Name) else [])
            if len(outs) != len(mats):
                probs.append(f"{len(outs)} outputs bound for {len(mats)} matrices")
            else:
                rd = cfg.reaching()
                for o, m in zip(outs, mats):
                    wb = []
                    for s2 in cfg.nodes:
                        for e in cfg.header_exprs(s2):
                            for n in ast.walk(e):
                                if isinstance(n, ast.Call) and call_name(n) == "np.copyto" and len(n.args) >= 2 and attr_chain(n.args[0]) == f"{sn}.{m}" \
                                        and isinstance(n.args[1], ast.Name) and n.args[1].id == o and st in rd[s2].get(o, ()):
                                    wb.append(s2)
                        if isinstance(s2, ast.Assign) and isinstance(s2.targets[0], ast.Subscript) and attr_chain(s2.targets[0].value) == f"{sn}.{m}" \
                                and isinstance(s2.value, ast.Name) and s2.value.id == o and st in rd[s2].get(o, ()):
                            wb.append(s2)
                    pdom = cfg.postdominators()
                    if not wb:
                        rebind = [s2 for s2 in cfg.nodes if isinstance(s2, ast.Assign) and attr_chain(s2.targets[0]) == f"{sn}.{m}"]
                        probs.append(f"output {o} is never written back in place into {sn}.{m}" + (" (the attribute is re-bound instead: the optimiser keeps the old array)" if rebind else ""))
                        wb_all_ok = False
                    elif not any(w in pdom[st] for w in wb):
                        probs.append(f"output {o} is not written back on every path")
            if probs:
                ctx.violation("C06-a", unit.relpath, qn, norm_src(st)[:200], "; ".join(probs), line=st.lineno, site=site)
            else:
                ctx.ok("C06-a", site, f"after update_params; threshold alpha*lr read after the step; outputs {outs} copied into {mats}")
        # both group branches present
        kinds = {pu.func(c.func.id).args.args[0].arg == "groups" for _, c in calls}
        if kinds == {True, False}:
            tests = [norm_src(h.test) for st, _ in calls for h, br in cfg.control_conditions(st) if isinstance(h, ast.If)]
            if any("groups_ is None" in t or "groups_ is not None" in t for t in tests):
                ctx.ok("C06-a", f"{qn}: plain operator when groups_ is None, group operator otherwise")
            else:
                ctx.unrecognised("C06-a", f"{qn}: branch", "plain/group operators are not selected by `groups_ is None`")
        else:
            ctx.violation("C06-a", unit.relpath, qn, "groups_", "only one of the plain / grouped proximal operators is used: declared groups are ignored or required", line=f.lineno,
                          site=f"{qn}: branch")
        # ---- operator output order for the hierarchical operator: output i derives from operand i
        if len(mats) == 2:
            pf = pu.func("mlp_prox_grad")
            site = "mlp_prox_grad: output order"
            rets = [n for n in ast.walk(pf) if isinstance(n, ast.Return)]
            params = func_params(pf)
            cfgp = CFG(pf)
            if len(rets) == 1 and isinstance(rets[0].value, ast.Tuple) and len(rets[0].value.elts) == 2 and all(isinstance(e, ast.Name) for e in rets[0].value.elts):
                r0, r1 = rets[0].value.elts
                s0, in0 = cfgp.backward_slice(rets[0], [r0.id])
                s1, in1 = cfgp.backward_slice(rets[0], [r1.id])
                # E3: shapes of the outputs equal shapes of operands 0 and 1
                I = Interp(pm)
                D, K, H = Ax("D"), Ax("K"), Ax("H")
                res = I.call_function(pu, pf, [Arr([D, K]), Arr([D, H]), Num("f"), Num("f")], {}, qual="mlp_prox_grad")
                from ..e3_axes import Tup
                okshape = isinstance(res, Tup) and len(res.items) == 2 and isinstance(res.items[0], Arr) and isinstance(res.items[1], Arr) \
                    and [a.name for a in res.items[0].axes] == ["D", "K"] and [a.name for a in res.items[1].axes] == ["D", "H"]
                evs = [e for e in dedup_events(nonusage(I.events)) if e.kind == "axis-mismatch"]
                if okshape and not evs:
                    ctx.ok("C06-a", site, f"returns ({res.items[0]!r}, {res.items[1]!r}) for operands ([D,K], [D,H])")
                elif evs:
                    ctx.violation("C06-a", pu.relpath, "mlp_prox_grad", norm_src(evs[0].stmt())[:160], f"[{evs[0].kind}] {evs[0].msg}", line=getattr(evs[0].node, "lineno", None), site=site)
                elif isinstance(res, Tup) and all(isinstance(x, Arr) for x in res.items):
                    ctx.violation("C06-a", pu.relpath, "mlp_prox_grad", norm_src(rets[0]), f"outputs have axes {res!r}: they do not line up with (skip weights, hidden weights)", line=rets[0].lineno, site=site)
                else:
                    ctx.unrecognised("C06-a", site, f"abstract result {res!r}")
            else:
                ctx.unrecognised("C06-a", site, "return is not a pair of names")
        # ---- b: inference and selection
        C, inf = pm.resolve_method(ci, "_infer")
        xparam = func_params(inf)[1]
        mult = set()
        for n in ast.walk(inf):
            pairs = []
            if isinstance(n, ast.BinOp) and isinstance(n.op, ast.MatMult):
                pairs.append((n.left, n.right))
            if isinstance(n, ast.Call) and (call_name(n) or "").split(".")[-1] in ("dot", "matmul") and len(n.args) == 2:
                pairs.append((n.args[0], n.args[1]))
            for L, R in pairs:
                if isinstance(L, ast.Name) and L.id == xparam:
                    ch = attr_chain(R)
                    if ch and ch.startswith(f"{sn}."):
                        mult.add(ch.split(".", 1)[1])
        site = f"{cname}._infer: feature weights"
        if not mult:
            ctx.unrecognised("C06-b", site, "no product of X with a weight attribute")
        elif mult <= set(mats):
            ctx.ok("C06-b", site, f"X multiplies {sorted(mult)}, all proximal operands")
        else:
            ctx.violation("C06-b", C.unit.relpath, f"{C.name}._infer", f"X @ {sorted(mult - set(mats))}", f"the features also enter through {sorted(mult - set(mats))}, "
                          f"which the proximal step never shrinks: a discarded feature still influences predictions", line=inf.lineno, site=site)
        if set(mats) - mult and mult:
            ctx.violation("C06-b", C.unit.relpath, f"{C.name}._infer", f"unused {sorted(set(mats) - mult)}", f"{sorted(set(mats) - mult)} is shrunk but does not multiply the features in _infer",
                          line=inf.lineno, site=site + " (unused)")
        sel_mat = mats[0]
        # abstract interpretation of the three readers
        I = Interp(pm)
        obj = symbolic_estimator(I, ci, "int")
        D, K, H = Ax("D"), Ax("K"), Ax("H")
        obj.attrs.update({"W_": Arr([D, K]), "W_skip_": Arr([D, K]), "W1_": Arr([D, H])})
        for mn, want in (("get_selection", "indices into D"), ("_n_selected_features", "count"), ("_group_lasso_penalty", "scalar")):
            m = ci.methods.get(mn)
            site = f"{cname}.{mn}"
            if m is None:
                C2, m = pm.resolve_method(ci, mn)
                if m is None:
                    raise AnalysisError(f"anchor vanished: {cname}.{mn}")
            reads = {attr_chain(n).split(".", 1)[1] for n in ast.walk(m) if isinstance(n, ast.Attribute) and (attr_chain(n) or "").startswith(f"{self_name(m)}.")
                     and attr_chain(n).count(".") == 1 and isinstance(n.ctx, ast.Load)}
            reads &= {"W_", "W_skip_", "W1_", "W2_", "b_", "b1_", "b2_"}
            n0 = len(I.events)
            res = I.call_method(obj, mn, [])
            ev = I.events[n0:]
            red = [e for e in ev if e.kind == "usage" and e.detail.get("cls") == "reduce"]
            red_axes = {e.detail.get("axis") for e in red if e.detail.get("op") == "norm"}
            probs = []
            if reads != {sel_mat}:
                probs.append(f"reads {sorted(reads)} instead of the selection matrix {sel_mat}")
            if "D" in red_axes:
                probs.append("the norm is taken over the feature axis (one value per output unit, not per feature)")
            if mn == "get_selection":
                if isinstance(res, Arr) and res.space is not None and res.space.name == "D":
                    pass
                elif isinstance(res, Arr):
                    probs.append(f"returns {res!r}, not indices into the feature axis")
                elif not probs:
                    ctx.unrecognised("C06-b", site, f"abstract result {res!r}")
                    continue
            if probs:
                ctx.violation("C06-b", unit.relpath, site, norm_src(m.body[-1])[:160], "; ".join(probs), line=m.lineno, site=site)
            elif not red_axes and mn != "get_selection":
                ctx.unrecognised("C06-b", site, "no row norm found")
            else:
                ctx.ok("C06-b", site, f"row norm of {sel_mat} over {sorted(a for a in red_axes if a)}; result {res!r}")
        nsel = ci.methods.get("_n_selected_features")
        if nsel is not None:
            cmps = [n for n in ast.walk(nsel) if isinstance(n, ast.Compare)]
            site = f"{cname}._n_selected_features: exact zero test"
            if not cmps:
                ctx.unrecognised("C06-b", site, "no comparison")
            elif all(isinstance(c.ops[0], (ast.NotEq, ast.Gt)) and isinstance(c.comparators[0], ast.Constant) and c.comparators[0].value == 0 for c in cmps):
                ctx.ok("C06-b", site)
            else:
                ctx.violation("C06-b", unit.relpath, f"{cname}._n_selected_features", norm_src(cmps[0]), "selected features are not those with a norm different from exactly 0 "
                              "(a tolerance would disagree with get_selection)", line=cmps[0].lineno, site=site)
        # ---- c: groups_ computed in fit, unconditionally, before training
        fit = ci.methods.get("fit")
        cfgf = CFG(fit)
        gs = [s for s in cfgf.nodes if isinstance(s, ast.Assign) and attr_chain(s.targets[0]) == f"{self_name(fit)}.groups_"]
        sup = [s for s in cfgf.nodes if any(isinstance(n, ast.Call) and norm_src(n.func) == "super().fit" for e in cfgf.header_exprs(s) for n in ast.walk(e))]
        site = f"{cname}.fit: groups_"
        if not gs or not sup:
            ctx.unrecognised("C06-c", site, "no store of groups_ / no call of the parent fit")
        else:
            g = gs[0]
            okv = isinstance(g.value, ast.Call) and call_name(g.value) == "check_groups" and g.value.args and attr_chain(g.value.args[0]) == f"{self_name(fit)}.groups"
            probs = []
            if not okv:
                probs.append(f"groups_ is {norm_src(g.value)}, not check_groups(self.groups, n_features)")
            if not all(cfgf.dominates(g, s) for s in sup):
                probs.append("groups_ is not (re)computed on every path before training")
            if cfgf.control_conditions(g):
                probs.append(f"groups_ is only computed under `{norm_src(cfgf.control_conditions(g)[-1][0].test)}`")
            if probs:
                ctx.violation("C06-c", unit.relpath, f"{cname}.fit", norm_src(g)[:160], "; ".join(probs), line=g.lineno, site=site)
            else:
                ctx.ok("C06-c", site, "check_groups(self.groups, n_features) unconditionally before training")
    from .c16_extra import check_groups_completion
    check_groups_completion(pm, ctx, "C06-c")
    # ---- c: group operators keep a group in one flattened row (abstract interpretation)
    for gname, elem, nmat in (("group_linear_prox_grad", "linear_prox_grad", 1), ("group_mlp_prox_grad", "mlp_prox_grad", 2)):
        gf = pu.func(gname)
        D, K, H, G = Ax("D"), Ax("K"), Ax("H"), Ax("G")
        seen_args = []

        class Spy(Interp):
            def call_function(self, unit, func, args, kwargs=None, **kw):
                if func.name == elem:
                    seen_args.append((list(args), self.stack[-1].qual if self.stack else "?"))
                return Interp.call_function(self, unit, func, args, kwargs, **kw)
        I = Spy(pm)
        groups = Lst(elem=Lst(elem=Num("i", space=D), length=G), length=Ax("NG"))
        args = [groups, Arr([D, K])] + ([Arr([D, H])] if nmat == 2 else []) + [Num("f")] + ([Num("f")] if nmat == 2 else [])
        res = I.call_function(pu, gf, args, {}, qual=gname)
        site = f"{gname}: one flattened row per group"
        evs = [e for e in dedup_events(nonusage(I.events)) if e.kind in ("axis-mismatch", "index-space")]
        if evs:
            e = evs[0]
            ctx.violation("C06-c", pu.relpath, gname, norm_src(e.stmt())[:160], f"[{e.kind}] {e.msg}", line=getattr(e.node, "lineno", None), site=site)
            continue
        # the rows of a group are those listed in the group: selecting by a position range takes other groups' rows along
        posn = [e for e in I.events if e.kind == "usage" and e.detail.get("cls") == "positional" and str(e.detail.get("axis")) == "D"
                and e.detail.get("op") in ("slice", "slice-object", "prefix-slice")] if hasattr(I, "events") else []
        if posn:
            e = posn[0]
            ctx.violation("C06-c", pu.relpath, gname, norm_src(e.stmt())[:160], "the rows of a group are selected by a range of positions along the feature axis instead of by "
                          "the indices listed in the group: a non-contiguous or unsorted group is shrunk together with rows of other groups", line=getattr(e.node, "lineno", None), site=site)
            continue
        if not seen_args:
            # inlined operator: the norm of a group must be the l2 norm of the flattened block
            spec = None
            for c in ast.walk(gf):
                if isinstance(c, ast.Call) and (call_name(c) or "").endswith("linalg.norm") and c.args:
                    kw = {k.arg: norm_src(k.value) for k in c.keywords}
                    a0 = c.args[0]
                    flat = isinstance(a0, ast.Call) and isinstance(a0.func, ast.Attribute) and a0.func.attr in ("reshape", "ravel", "flatten")
                    if kw.get("ord") in ("2", "-2", "np.inf", "1", "'nuc'") and "axis" not in kw and not flat:
                        spec = c
            if spec is not None:
                ctx.violation("C06-c", pu.relpath, gname, norm_src(spec)[:100], f"`{norm_src(spec)}` on the 2-d block of a group is a matrix norm (ord=2: the largest singular value), "
                              f"not the l2 norm of the flattened block: groups of rank >= 2 are zeroed too early and shrunk too much", line=spec.lineno, site=site)
            else:
                ctx.unrecognised("C06-c", site, f"the group operator does not call {elem}: an inlined operator is not judged by this rule")
            continue
        bad = []
        for a, q in seen_args:
            for x in a[:nmat]:
                if isinstance(x, Arr):
                    if not (len(x.axes) == 2 and x.axes[0].one):
                        bad.append(x)
                else:
                    bad.append(x)
        if any(is_top(b) for b in bad):
            ctx.unrecognised("C06-c", site, f"operand of {elem} is {bad[0]!r}")
        elif bad:
            ctx.violation("C06-c", pu.relpath, gname, f"{elem}({bad[0]!r}, ...)", f"the rows of a group reach {elem} as {bad[0]!r} instead of one flattened row [1, .]: "
                          f"each feature of the group is thresholded on its own norm, so a group can be split", line=gf.lineno, site=site)
        else:
            ctx.ok("C06-c", site, f"{elem} receives {seen_args[0][0][:nmat]}")
        # result has the operand's axes
        want = [["D", "K"]] + ([["D", "H"]] if nmat == 2 else [])
        from ..e3_axes import Tup
        got = [res] if nmat == 1 else (res.items if isinstance(res, Tup) else [])
        site = f"{gname}: result"
        if len(got) == nmat and all(isinstance(g_, Arr) and [a.name for a in g_.axes] == w for g_, w in zip(got, want)):
            ctx.ok("C06-c", site, f"{[repr(g_) for g_ in got]}")
        elif any(is_top(g_) for g_ in got) or not got:
            ctx.unrecognised("C06-c", site, f"abstract result {res!r}")
        else:
            ctx.violation("C06-c", pu.relpath, gname, "return", f"returns {res!r}, not arrays shaped like the operands", line=gf.lineno, site=site)


def controls(pm, tier):
    out = []

    def mut(mod, find, repl, rule, name, also=()):
        def apply(pm_):
            u = pm_.unit(mod)
            if find not in u.src:
                return None
            return {u.relpath: u.src.replace(find, repl, 1)}
        out.append({"name": name, "rule": rule, "apply": apply, "also": also})
    LS, MS, P, B = "gemclus.sparse._linear_sparse", "gemclus.sparse._mlp_sparse", "gemclus.sparse._prox_grad", "gemclus.sparse._base_sparse"
    mut(LS, "            new_W = linear_prox_grad(self.W_, self.alpha * self.optimiser_.learning_rate)", "            new_W = linear_prox_grad(self.W_, self.alpha * self.learning_rate)", "C06-a", "threshold uses the initial learning rate")
    mut(LS, "        np.copyto(self.W_, new_W)", "        self.W_sparse_ = new_W", "C06-a", "shrunk weights not written back")
    mut(MS, "            new_W_skip, new_W1 = group_mlp_prox_grad(self.groups_, self.W_skip_, self.W1_,", "            new_W1, new_W_skip = group_mlp_prox_grad(self.groups_, self.W_skip_, self.W1_,", "C06-a", "grouped branch swaps its outputs")
    mut(MS, "        np.copyto(self.W1_, new_W1)\n", "", "C06-a", "hidden weights never shrunk")
    mut(MS, "        # First update the weights according to our optimiser\n        self.optimiser_.update_params(weights, gradients)\n",
        "        threshold = self.alpha * self.optimiser_.learning_rate\n        # First update the weights according to our optimiser\n        self.optimiser_.update_params(weights, gradients)\n", "C06-a", "placeholder")
    out.pop()

    def stale(pm_):
        u = pm_.unit(MS)
        a = "        self.optimiser_.update_params(weights, gradients)\n"
        if a not in u.src or "self.alpha * self.optimiser_.learning_rate" not in u.src:
            return None
        s = u.src.replace(a, "        threshold = self.alpha * self.optimiser_.learning_rate\n" + a, 1)
        s = s.replace("self.alpha * self.optimiser_.learning_rate,\n                                               self.M)", "threshold,\n                                               self.M)")
        s = s.replace("self.alpha * self.optimiser_.learning_rate, self.M)", "threshold, self.M)")
        return {u.relpath: s}
    out.append({"name": "threshold computed before the optimiser step (stale Adam rate)", "rule": "C06-a", "apply": stale})
    mut(MS, "        return np.nonzero(np.linalg.norm(self.W_skip_, axis=1, ord=2))[0]", "        return np.nonzero(np.linalg.norm(self.W1_, axis=1, ord=2))[0]", "C06-b", "selection read from the hidden weights")
    mut(LS, "        return (np.linalg.norm(self.W_, axis=1, ord=2) != 0).sum()", "        return (np.linalg.norm(self.W_, axis=0, ord=2) != 0).sum()", "C06-b", "feature count over the cluster axis")
    mut(P, "        group_W_star = linear_prox_grad(group_W.reshape((1, -1)), alpha)", "        group_W_star = linear_prox_grad(group_W, alpha)", "C06-c", "group rows shrunk one by one")
    mut(MS, "        output_skip = X @ self.W_skip_\n", "        output_skip = X @ self.W_skip_ + X @ self.W_res_\n", "C06-b", "an unshrunk feature path in _infer")
    mut(LS, "        self.groups_ = check_groups(self.groups, X.shape[1])  # Intercept", "        if not hasattr(self, 'groups_'):\n            self.groups_ = check_groups(self.groups, X.shape[1])  # Intercept", "C06-c", "groups_ only computed at the first fit")
    mut("gemclus.sparse._mlp_sparse", "        self.optimiser_.update_params(weights, gradients)\n\n        # Then statisfy", "        self.optimiser_.update_params(weights, gradients)\n        if self.alpha == 0:\n            return\n\n        # Then statisfy", "C06-a", "hierarchical projection skipped when alpha == 0")
    return out
