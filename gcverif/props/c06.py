"""C06 - unselected features are inert; selection reads exact zeros; groups stay whole (structural clauses)."""
import ast

from ..pm import AnalysisError, norm_src, func_params
from ..flow import CFG, attr_chain
from ..astutil import call_name, self_name
from ..callgraph import resolve_name
from ..e6_algebra import to_rat, NotScalarArithmetic
from ..e3_axes import Interp, Arr, Num, Ax, Lst, NoneV
from ..scenarios import symbolic_estimator, nonusage, dedup_events

PROP = "C06"
EXPLANATION = (
    "(a) shrinkage wiring in both sparse _update_weights: the optimiser step comes first; then, on each branch of "
    "`self.groups_ is None`, the (group) proximal operator of the model family is applied to the model's own (skip-)weights "
    "with a threshold whose canonical form is alpha * optimiser_.learning_rate (and M for the hierarchical operator); its "
    "outputs are copied in place (np.copyto) into the very arrays they were computed from, output i into input i; (b) every "
    "matrix that multiplies X in _infer is such a copyto target, and get_selection / _n_selected_features / "
    "_group_lasso_penalty all read the same (skip-)matrix through a row norm over the non-feature axis (checked on axis "
    "types); (c) groups stay whole: the group operators send the rows of each group through one operator call as a single "
    "flattened row and write the result back to the same rows with the group's shape; the iterated groups are "
    "check_groups(self.groups, n_features) computed in fit before training, completed with singleton groups. Not decided: "
    "numerical inertness (hierarchy bound), correctness of check_groups' partition logic over all group lists.")
ASSUMPTIONS = ["np.copyto(dst, src) writes src into dst in place", "np.linalg.norm(W, axis=1) is the per-feature row norm for W:[D,.]"]

FAMS = [("gemclus.sparse._linear_sparse", "SparseLinearModel", "linear_prox_grad", "group_linear_prox_grad", ["W_"], []),
        ("gemclus.sparse._mlp_sparse", "SparseMLPModel", "mlp_prox_grad", "group_mlp_prox_grad", ["W_skip_", "W1_"], ["self.M"])]


def run(pm, ctx):
    ctx.rule("C06-a", "the shrinkage after each optimiser step must be the proximal step with threshold alpha x learning rate, applied in place", floor=8)
    ctx.rule("C06-b", "selection must be read from the weights that inference multiplies the features with", floor=10)
    ctx.rule("C06-c", "a feature group is shrunk and zeroed as one block", floor=8)
    pu = pm.unit("gemclus.sparse._prox_grad")
    for mod, cname, prox, gprox, mats, extra in FAMS:
        ci = pm.classes.get(cname)
        if ci is None or "_update_weights" not in ci.methods:
            raise AnalysisError(f"anchor vanished: {cname}._update_weights")
        f = ci.methods["_update_weights"]
        unit, qn = ci.unit, f"{cname}._update_weights"
        # ---- a
        body = f.body
        upd = [i for i, s in enumerate(body) if isinstance(s, ast.Expr) and isinstance(s.value, ast.Call) and call_name(s.value) == "self.optimiser_.update_params"]
        ifs = [i for i, s in enumerate(body) if isinstance(s, ast.If) and norm_src(s.test) in ("self.groups_ is None", "self.groups_ is not None")]
        copies = [i for i, s in enumerate(body) if isinstance(s, ast.Expr) and isinstance(s.value, ast.Call) and call_name(s.value) == "np.copyto"]
        site = f"{qn}: order"
        if len(upd) == 1 and len(ifs) == 1 and copies and upd[0] < ifs[0] < min(copies) and [norm_src(a) for a in body[upd[0]].value.args] == func_params(f)[1:3]:
            ctx.ok("C06-a", site, "optimiser step, then prox, then in-place copy")
        else:
            ctx.violation("C06-a", unit.relpath, qn, norm_src(body[ifs[0]].test) if ifs else "prox step", "the shrinkage is not applied after the optimiser step and "
                          "before the in-place copy", line=f.lineno, site=site)
            continue
        branch = body[ifs[0]]
        none_first = norm_src(branch.test) == "self.groups_ is None"
        plain, grouped = (branch.body, branch.orelse) if none_first else (branch.orelse, branch.body)
        outs = None
        for label, blk, fname, lead in (("plain", plain, prox, []), ("grouped", grouped, gprox, ["self.groups_"])):
            site = f"{qn}: {label} branch"
            asg = [s for s in blk if isinstance(s, ast.Assign) and isinstance(s.value, ast.Call)]
            if len(asg) != 1 or call_name(asg[0].value) != fname:
                ctx.violation("C06-a", unit.relpath, qn, norm_src(blk[0])[:160] if blk else label, f"the {label} branch does not call {fname}", line=branch.lineno, site=site)
                continue
            call = asg[0].value
            args = [norm_src(a) for a in call.args]
            want_prefix = lead + [f"self.{m}" for m in mats]
            probs = []
            if args[:len(want_prefix)] != want_prefix:
                probs.append(f"operands are {args[:len(want_prefix)]}, expected {want_prefix}")
            thr = call.args[len(want_prefix)] if len(call.args) > len(want_prefix) else None
            try:
                okthr = thr is not None and to_rat(thr).equals(to_rat(ast.parse("self.alpha * self.optimiser_.learning_rate", mode="eval").body))
            except NotScalarArithmetic:
                okthr = False
            if not okthr:
                probs.append(f"threshold is {norm_src(thr) if thr is not None else 'missing'}, not alpha * optimiser_.learning_rate")
            if args[len(want_prefix) + 1:] != extra:
                probs.append(f"trailing arguments {args[len(want_prefix) + 1:]} (expected {extra})")
            tg = asg[0].targets[0]
            names = [norm_src(e) for e in tg.elts] if isinstance(tg, ast.Tuple) else [norm_src(tg)]
            if outs is None:
                outs = names
            elif outs != names:
                probs.append("the two branches bind their results to different names")
            if len(names) != len(mats):
                probs.append(f"{len(names)} outputs for {len(mats)} matrices")
            if probs:
                ctx.violation("C06-a", unit.relpath, qn, norm_src(asg[0])[:200], "; ".join(probs), line=asg[0].lineno, site=site)
            else:
                ctx.ok("C06-a", site, norm_src(call)[:120])
        # copies: output i -> matrix i
        got = []
        for i in copies:
            c = body[i].value
            got.append((norm_src(c.args[0]), norm_src(c.args[1])))
        want = [(f"self.{m}", o) for m, o in zip(mats, outs or [])]
        site = f"{qn}: in-place copy"
        if outs is not None and sorted(got) == sorted(want):
            ctx.ok("C06-a", site, f"{got}")
        else:
            ctx.violation("C06-a", unit.relpath, qn, norm_src(body[copies[0]]) if copies else "np.copyto", f"prox outputs are copied as {got}, expected {want}: a "
                          f"shrunk matrix is not written back to the array the optimiser holds", line=f.lineno, site=site)
        # operator signatures / return order (output i derives from input i)
        pf = pu.func(prox)
        rets = [n for n in ast.walk(pf) if isinstance(n, ast.Return)]
        site = f"{prox}: output order"
        if len(mats) == 2:
            params = func_params(pf)
            okk = False
            if len(rets) == 1 and isinstance(rets[0].value, ast.Tuple) and len(rets[0].value.elts) == 2:
                cfg = CFG(pf)
                r0, r1 = rets[0].value.elts
                s0, in0 = cfg.backward_slice(rets[0], [r0.id]) if isinstance(r0, ast.Name) else (set(), set())
                # beta_star = x_star * v  (v = W_skip_): the first output must be a rescaling of the first input
                d0 = [s for s in s0 if isinstance(s, ast.Assign) and isinstance(s.targets[0], ast.Name) and s.targets[0].id == r0.id]
                okk = bool(d0) and isinstance(d0[0].value, ast.BinOp) and isinstance(d0[0].value.op, ast.Mult) and \
                    any(_alias_of(cfg, d0[0], x, params[0]) for x in (d0[0].value.left, d0[0].value.right))
                d1 = [s for s in cfg.nodes if isinstance(s, ast.Assign) and isinstance(s.targets[0], ast.Name) and isinstance(r1, ast.Name) and s.targets[0].id == r1.id]
                okk = okk and bool(d1) and any(isinstance(n, ast.Name) and _alias_of(cfg, d1[0], n, params[1]) for n in ast.walk(d1[0].value))
            if okk:
                ctx.ok("C06-a", site, "(rescaled skip weights, clipped hidden weights)")
            else:
                ctx.violation("C06-a", pu.relpath, prox, norm_src(rets[0]) if rets else "return", "the first output is not a rescaling of the skip weights / the second "
                              "is not derived from the hidden weights", line=pf.lineno, site=site)
        # ---- b: inference and selection read the shrunk matrices
        C, inf = pm.resolve_method(ci, "_infer")
        xparam = func_params(inf)[1]
        mult = set()
        for n in ast.walk(inf):
            if isinstance(n, ast.BinOp) and isinstance(n.op, ast.MatMult) and isinstance(n.left, ast.Name) and n.left.id == xparam:
                ch = attr_chain(n.right)
                if ch and ch.startswith("self."):
                    mult.add(ch[5:])
        site = f"{cname}._infer: feature weights"
        if mult and mult <= set(mats):
            ctx.ok("C06-b", site, f"X multiplies {sorted(mult)}, all proximal outputs")
        else:
            ctx.violation("C06-b", C.unit.relpath, f"{C.name}._infer", f"X @ {sorted(mult - set(mats))}", f"the features also enter through {sorted(mult - set(mats))}, "
                          f"which the proximal step never shrinks: a discarded feature still influences predictions", line=inf.lineno, site=site)
        if set(mats) - mult:
            ctx.violation("C06-b", C.unit.relpath, f"{C.name}._infer", f"unused {sorted(set(mats) - mult)}", f"{sorted(set(mats) - mult)} is shrunk but not used by _infer",
                          line=inf.lineno, site=site + " (unused)")
        sel_mat = mats[0]
        for mn in ("get_selection", "_n_selected_features", "_group_lasso_penalty"):
            m = ci.methods.get(mn)
            site = f"{cname}.{mn}"
            if m is None:
                raise AnalysisError(f"anchor vanished: {cname}.{mn}")
            norms = [n for n in ast.walk(m) if isinstance(n, ast.Call) and call_name(n) == "np.linalg.norm"]
            okk = len(norms) == 1 and norm_src(norms[0].args[0]) == f"self.{sel_mat}"
            if okk:
                kw = {k.arg: norm_src(k.value) for k in norms[0].keywords}
                okk = kw.get("axis") == "1" and kw.get("ord", "2") in ("2", "None")
            if okk:
                ctx.ok("C06-b", site, f"row norm of self.{sel_mat} over the non-feature axis")
            else:
                ctx.violation("C06-b", unit.relpath, site, norm_src(norms[0]) if norms else "norm", f"{mn} does not read the l2 row norm (axis=1) of self.{sel_mat}", line=m.lineno, site=site)
        gs = ci.methods["get_selection"]
        rets = [n for n in ast.walk(gs) if isinstance(n, ast.Return)]
        if rets and norm_src(rets[0].value).startswith("np.nonzero(") and norm_src(rets[0].value).endswith(")[0]"):
            ctx.ok("C06-b", f"{cname}.get_selection = indices of non-zero rows")
        else:
            ctx.violation("C06-b", unit.relpath, f"{cname}.get_selection", norm_src(rets[0]) if rets else "return", "get_selection is not nonzero(row norms)", line=gs.lineno)
        ns_ = ci.methods["_n_selected_features"]
        rets = [n for n in ast.walk(ns_) if isinstance(n, ast.Return)]
        if rets and "!= 0" in norm_src(rets[0].value) and norm_src(rets[0].value).endswith(".sum()"):
            ctx.ok("C06-b", f"{cname}._n_selected_features counts rows with norm != 0 (exact zeros)")
        else:
            ctx.violation("C06-b", unit.relpath, f"{cname}._n_selected_features", norm_src(rets[0]) if rets else "return", "the feature count does not test `!= 0` exactly",
                          line=ns_.lineno)
        # E3: axis types of the selection (norm over K leaves D)
        I = Interp(pm)
        obj = symbolic_estimator(I, ci, "int")
        D, K, H = Ax("D"), Ax("K"), Ax("H")
        obj.attrs.update({"W_": Arr([D, K]), "W_skip_": Arr([D, K]), "W1_": Arr([D, H])})
        sel = I.call_method(obj, "get_selection", [])
        site = f"{cname}.get_selection (abstract)"
        if isinstance(sel, Arr) and sel.space is not None and sel.space.name == "D":
            ctx.ok("C06-b", site, repr(sel))
        else:
            ctx.violation("C06-b", unit.relpath, f"{cname}.get_selection", "return", f"the selection is {sel!r}, not indices into the feature axis", line=gs.lineno, site=site)

        # ---- c: group operator
        gf = pu.func(gprox)
        site = f"{gprox}: one call per group"
        loops = [n for n in ast.walk(gf) if isinstance(n, ast.For)]
        probs = []
        if len(loops) != 1 or norm_src(loops[0].iter) != func_params(gf)[0]:
            probs.append("no single loop over the groups")
        else:
            lp = loops[0]
            g = norm_src(lp.target)
            calls = [n for n in ast.walk(lp) if isinstance(n, ast.Call) and call_name(n) == prox]
            if len(calls) != 1:
                probs.append(f"{prox} is not called exactly once per group")
            else:
                c = calls[0]
                nm = len(mats)
                for a in c.args[:nm]:
                    s_ = norm_src(a)
                    if not s_.endswith(".reshape((1, -1))"):
                        probs.append(f"operand {s_} is not flattened to a single row")
                # operands are W[g]
                srcs = {}
                for s in lp.body:
                    if isinstance(s, ast.Assign) and isinstance(s.value, ast.Subscript) and norm_src(s.value.slice) == g:
                        srcs[norm_src(s.targets[0])] = norm_src(s.value.value)
                ops = [norm_src(a).replace(".reshape((1, -1))", "") for a in c.args[:nm]]
                mats_in = [srcs.get(o) for o in ops]
                if None in mats_in or mats_in != func_params(gf)[1:1 + nm]:
                    probs.append(f"operands {ops} are not the rows [g] of {func_params(gf)[1:1 + nm]}")
                # write back
                stores = [s for s in lp.body if isinstance(s, ast.Assign) and isinstance(s.targets[0], ast.Subscript) and norm_src(s.targets[0].slice) == g]
                if len(stores) != nm:
                    probs.append(f"{len(stores)} write-backs for {nm} matrices")
                for s in stores:
                    if ".reshape(" not in norm_src(s.value) or not norm_src(s.value).endswith(".shape)"):
                        probs.append(f"{norm_src(s)} does not restore the group's shape")
                tail = [norm_src(a) for a in c.args[nm:]]
                if tail != func_params(gf)[1 + nm:]:
                    probs.append(f"threshold/constant arguments {tail} are not passed through unchanged")
        if probs:
            ctx.violation("C06-c", pu.relpath, gprox, norm_src(loops[0])[:160] if loops else gprox, "; ".join(probs), line=gf.lineno, site=site)
        else:
            ctx.ok("C06-c", site)
            ctx.ok("C06-c", f"{gprox}: results written back to the rows of the group with its shape")
        # groups_ computed in fit before training
        fit = ci.methods.get("fit")
        fsrc = [norm_src(s) for s in fit.body]
        want = "self.groups_ = check_groups(self.groups, X.shape[1])"
        site = f"{cname}.fit: groups_"
        if want in fsrc and any(s.startswith("return super().fit(X, y)") for s in fsrc) and fsrc.index(want) < [i for i, s in enumerate(fsrc) if s.startswith("return super().fit")][0]:
            ctx.ok("C06-c", site, "check_groups(self.groups, n_features) before training")
        else:
            ctx.violation("C06-c", unit.relpath, f"{cname}.fit", "groups_", "groups_ is not the checked/completed group list computed before training", line=fit.lineno, site=site)
    # check_groups completes partial lists with singletons and returns the user's list when complete
    su = pm.unit("gemclus.sparse._base_sparse")
    cg = su.func("check_groups")
    src = [norm_src(s) for s in ast.walk(cg) if isinstance(s, ast.stmt)]
    site = "check_groups: completion"
    if "new_groups = groups + [[i] for i in range(n_features_in) if i not in all_indices]" in src and "return new_groups" in src and "return groups" in src and "return None" in src:
        ctx.ok("C06-c", site, "missing features become singleton groups")
    else:
        ctx.violation("C06-c", su.relpath, "check_groups", "new_groups", "partial group lists are not completed with one singleton group per missing feature", line=cg.lineno, site=site)
    if "all_indices.extend(list(g))" in src:
        ctx.ok("C06-c", "check_groups: coverage computed from every index of every group")
    else:
        ctx.violation("C06-c", su.relpath, "check_groups", "all_indices", "the covered indices are not collected from every group", line=cg.lineno, site="check_groups: coverage")


def _alias_of(cfg, st, node, param):
    """node is the parameter `param` or a local bound directly to it (v = W_skip_)"""
    if not isinstance(node, ast.Name):
        return False
    if node.id == param:
        return True
    for d in cfg.reaching()[st].get(node.id, ()):
        if d is not None and isinstance(d, ast.Assign) and isinstance(d.value, ast.Name) and d.value.id == param:
            return True
    return False


def controls(pm, tier):
    out = []

    def mut(mod, find, repl, rule, name, also=()):
        def apply(pm_):
            u = pm_.unit(mod)
            if find not in u.src:
                return None
            return {u.relpath: u.src.replace(find, repl, 1)}
        out.append({"name": name, "rule": rule, "apply": apply, "also": also})
    LS, MS, P, B = "gemclus.sparse._linear_sparse", "gemclus.sparse._mlp_sparse", "gemclus.sparse._prox_grad", "gemclus.sparse._base_sparse"
    mut(LS, "            new_W = linear_prox_grad(self.W_, self.alpha * self.optimiser_.learning_rate)", "            new_W = linear_prox_grad(self.W_, self.alpha * self.learning_rate)", "C06-a", "threshold uses the initial learning rate")
    mut(LS, "        np.copyto(self.W_, new_W)", "        self.W_sparse_ = new_W", "C06-a", "shrunk weights not written back")
    mut(MS, "            new_W_skip, new_W1 = group_mlp_prox_grad(self.groups_, self.W_skip_, self.W1_,", "            new_W1, new_W_skip = group_mlp_prox_grad(self.groups_, self.W_skip_, self.W1_,", "C06-a", "grouped branch swaps its outputs")
    mut(MS, "        np.copyto(self.W1_, new_W1)\n", "", "C06-a", "hidden weights never shrunk")
    mut(MS, "        return np.nonzero(np.linalg.norm(self.W_skip_, axis=1, ord=2))[0]", "        return np.nonzero(np.linalg.norm(self.W1_, axis=1, ord=2))[0]", "C06-b", "selection read from the hidden weights")
    mut(LS, "        return (np.linalg.norm(self.W_, axis=1, ord=2) != 0).sum()", "        return (np.linalg.norm(self.W_, axis=0, ord=2) != 0).sum()", "C06-b", "feature count over the cluster axis")
    mut(P, "        group_W_star = linear_prox_grad(group_W.reshape((1, -1)), alpha)", "        group_W_star = linear_prox_grad(group_W, alpha)", "C06-c", "group rows shrunk one by one")
    mut(B, "            new_groups = groups + [[i] for i in range(n_features_in) if i not in all_indices]", "            new_groups = groups + [[i for i in range(n_features_in) if i not in all_indices]]", "C06-c", "leftover features lumped into one group")
    mut(MS, "        output_skip = X @ self.W_skip_\n", "        output_skip = X @ self.W_skip_ + X @ self.W_res_\n", "C06-b", "an unshrunk feature path in _infer")
    return out
