"""C16 - invalid hyper-parameters and malformed inputs are rejected, never trained on (structural clauses)."""
import ast
import re

from ..pm import AnalysisError, norm_src, func_params
from ..flow import CFG, attr_chain, ENTRY
from ..astutil import self_name, replace_node, call_name, kwarg, parents
from ..e2_tables import TableEval, constructor_contract, effective_params, doms_contained, none_guarded, init_signature
from ..callgraph import resolve_call, reachable_methods, resolve_name

PROP = "C16"
EXPLANATION = (
    "Static rules over the resolved program: (a) every constructor parameter of every estimator has an entry in the "
    "effective _parameter_constraints table (tables are evaluated symbolically, ** spreads through the class table); "
    "(b) typestate: every prediction entry point must-read a learned attribute all of whose stores are dominated by "
    "_validate_params() and by the input validation inside fit; (c) domain containment of each hyper-parameter in the "
    "domain of the constructor parameter it is forwarded to, and None-guards at every use of a nullable hyper-parameter; "
    "(d) public GEMINI constructors/functions carry a constraint_params decorator whose keys cover their parameters; "
    "(e) documented cross-parameter checks exist and dominate training; (f) guards of print_kauri_tree precede output; "
    "(g) same documented domain => same constraint across estimators; (h) the array trained on is the validated one. "
    "Not decided: what scikit-learn's validators accept for concrete values.")
ASSUMPTIONS = [
    "scikit-learn's _validate_params / validate_data / check_array / check_is_fitted behave as documented",
    "constraint tables are dict literals with ** spreads of parent tables (anything else is an analysis error)",
]

PREDICT_ENTRY = ["predict", "predict_proba", "score"]


def doc_params(ci):
    doc = ast.get_docstring(ci.node) or ""
    out = {}
    m = re.search(r"Parameters\s*\n\s*-+\s*\n(.*?)(\n\s*\n\s*(Attributes|References|See Also|Examples|Returns)\s*\n\s*-+|\Z)", doc, re.S)
    if not m:
        return out
    body = m.group(1)
    lines = body.split("\n")
    base_indent = min((len(l) - len(l.lstrip()) for l in lines if l.strip()), default=0)
    cur = None
    for l in lines:
        if not l.strip():
            continue
        ind = len(l) - len(l.lstrip())
        if ind == base_indent and ":" in l:
            name, typ = l.split(":", 1)
            cur = name.strip()
            out[cur] = re.sub(r"\s+", " ", typ.strip())
        elif cur and ind == base_indent and l.strip().startswith(("default", "callable")):
            out[cur] += " " + l.strip()
    return out


def fit_validation_points(pm, K):
    """statements in K's fit chain that perform parameter validation / input validation.
    returns list of (class, func, cfg, {'params': stmt or None, 'input': stmt or None})"""
    out = []
    for C, unit, f in reachable_methods(pm, K, "fit", max_depth=3):
        if f.name != "fit":
            continue
        cfg = CFG(f)
        pv = iv = None
        for st in cfg.nodes:
            for e in cfg.header_exprs(st):
                for n in ast.walk(e):
                    if isinstance(n, ast.Call):
                        cn = call_name(n) or ""
                        if cn.endswith("._validate_params") and pv is None:
                            pv = st
                        if cn.split(".")[-1] in ("validate_data",) and iv is None:
                            iv = st
        out.append((C, f, cfg, {"params": pv, "input": iv}))
    return out


def safe_fitted_attrs(pm, K):
    """attributes all of whose stores (for class K) happen after _validate_params() and validate_data in fit."""
    chain = fit_validation_points(pm, K)
    # the fit that validates
    validating = [(C, f, cfg, v) for (C, f, cfg, v) in chain if v["params"] is not None and v["input"] is not None]
    stores = {}   # attr -> list of (func, stmt, safe)
    methods = {}
    for c in K.mro:
        if c.external:
            continue
        for name, f in c.methods.items():
            rc, rf = pm.resolve_method(K, name)
            # include overridden methods too when reachable through super(): keep all GemClus methods of the MRO
            methods[(c.name, name)] = (c, f)
    # which methods are only called after validation: compute call sites
    def stmt_safe_in_fit(C, f, cfg, v, st):
        if not (cfg.dominates(v["params"], st) and cfg.dominates(v["input"], st) and st is not v["params"] and st is not v["input"]):
            return False
        # a rejection written in fit itself (an inconsistent combination of hyper-parameters ...) must come before the store: a `raise` that can
        # still be reached after it leaves the attribute behind on a rejected configuration
        try:
            later = cfg.reachable_from(st)
        except Exception:
            return True
        return not any(isinstance(r_, ast.Raise) for r_ in later if r_ is not st)

    safe_funcs = set()
    changed = True
    call_sites = {}  # callee func id -> list of (C, f, stmt)
    for (cn, mn), (c, f) in methods.items():
        for st in ast.walk(f):
            if isinstance(st, ast.Call):
                kind, tgt = resolve_call(pm, K, c, f, st)
                if kind == "method" and not tgt[0].external:
                    call_sites.setdefault(id(tgt[1]), []).append((c, f, st))
    fit_cfgs = {id(f): (C, f, cfg, v) for (C, f, cfg, v) in chain}

    def site_safe(c, f, callnode):
        # statement containing callnode
        st = callnode
        while not isinstance(st, ast.stmt):
            st = st._parent
        if id(f) in fit_cfgs:
            C, ff, cfg, v = fit_cfgs[id(f)]
            if v["params"] is not None and v["input"] is not None:
                # find the CFG node (top-level stmt or header) holding st
                node = st
                while node not in cfg.succ and node is not None and not isinstance(node, ast.FunctionDef):
                    node = getattr(node, "_parent", None)
                return node in cfg.succ and stmt_safe_in_fit(C, ff, cfg, v, node)
            # a non-validating fit (wrapper such as KernelRIM.fit / sparse fit): not safe by itself
            return False
        return id(f) in safe_funcs

    while changed:
        changed = False
        for (cn, mn), (c, f) in methods.items():
            if id(f) in safe_funcs or mn in ("fit", "__init__"):
                continue
            sites = call_sites.get(id(f), [])
            if sites and all(site_safe(c2, f2, cs) for (c2, f2, cs) in sites):
                safe_funcs.add(id(f))
                changed = True
    attrs_safe, attrs_unsafe = set(), set()
    for (cn, mn), (c, f) in methods.items():
        sn = self_name(f)
        for n in ast.walk(f):
            if isinstance(n, ast.Attribute) and isinstance(n.ctx, ast.Store) and isinstance(n.value, ast.Name) and n.value.id == sn:
                if mn == "__init__":
                    attrs_unsafe.add(n.attr)
                    continue
                ok = False
                if id(f) in safe_funcs:
                    ok = True
                elif id(f) in fit_cfgs:
                    ok = site_safe(c, f, n)
                (attrs_safe if ok else attrs_unsafe).add(n.attr)
    # stores through other receivers in free functions (clf.x = ..., gemini_model.x = ...)
    for u in pm.units.values():
        for q, f in u.functions.items():
            if "." in q:
                continue
            for n in ast.walk(f):
                if isinstance(n, ast.Attribute) and isinstance(n.ctx, ast.Store) and isinstance(n.value, ast.Name):
                    attrs_unsafe.add(n.attr)
    return attrs_safe - attrs_unsafe, bool(validating)


def must_reads(pm, K, name, depth=0, seen=None):
    """attributes of self certainly read when method `name` of K returns normally (unconditional statements only,
    following unconditional self-method calls)."""
    seen = seen if seen is not None else set()
    C, f = pm.resolve_method(K, name)
    if f is None or C.external or id(f) in seen or depth > 6:
        return set()
    seen.add(id(f))
    sn = self_name(f)
    out = set()
    for st in f.body:
        if isinstance(st, (ast.If, ast.For, ast.While, ast.Try, ast.With, ast.FunctionDef)):
            # the test / iterable itself is evaluated unconditionally
            exprs = [st.test] if isinstance(st, (ast.If, ast.While)) else ([st.iter] if isinstance(st, ast.For) else [])
        else:
            exprs = [st]
        for e in exprs:
            for n in ast.walk(e):
                if isinstance(n, ast.Attribute) and isinstance(n.ctx, ast.Load) and isinstance(n.value, ast.Name) and n.value.id == sn:
                    out.add(n.attr)
                if isinstance(n, ast.Call):
                    kind, tgt = resolve_call(pm, K, C, f, n)
                    if kind == "method" and not tgt[0].external:
                        # super().m / self.m
                        if isinstance(n.func, ast.Attribute) and isinstance(n.func.value, ast.Call):
                            c2, f2 = tgt
                            sub = _must_reads_func(pm, K, c2, f2, depth + 1, seen)
                        else:
                            sub = must_reads(pm, K, n.func.attr, depth + 1, seen)
                        out |= sub
        if isinstance(st, (ast.Return, ast.Raise)):
            break
    return out


def _must_reads_func(pm, K, C, f, depth, seen):
    if id(f) in seen:
        return set()
    seen.add(id(f))
    sn = self_name(f)
    out = set()
    for st in f.body:
        if isinstance(st, (ast.If, ast.For, ast.While, ast.Try, ast.With)):
            continue
        for n in ast.walk(st):
            if isinstance(n, ast.Attribute) and isinstance(n.ctx, ast.Load) and isinstance(n.value, ast.Name) and n.value.id == sn:
                out.add(n.attr)
            if isinstance(n, ast.Call):
                kind, tgt = resolve_call(pm, K, C, f, n)
                if kind == "method" and not tgt[0].external and isinstance(n.func, ast.Attribute) and isinstance(n.func.value, ast.Name):
                    out |= must_reads(pm, K, n.func.attr, depth + 1, seen)
    return out


def hyper_param_uses(pm, K, p):
    """all loads of self.<p> (and clf.<p> / gemini_model.<p> in receiver-typed free functions) for class K"""
    out = []
    for c in K.mro:
        if c.external:
            continue
        for mn, f in c.methods.items():
            if mn == "__init__":
                continue
            sn = self_name(f)
            for n in ast.walk(f):
                if isinstance(n, ast.Attribute) and isinstance(n.ctx, ast.Load) and n.attr == p and isinstance(n.value, ast.Name) \
                        and n.value.id == sn:
                    out.append((c.unit, f"{c.name}.{mn}", f, n, f"{sn}.{p}"))
    return out


def receiver_typed_uses(pm, p, recv_funcs):
    out = []
    for (unit, fname, recv) in recv_funcs:
        f = unit.functions.get(fname)
        if f is None:
            continue
        for n in ast.walk(f):
            if isinstance(n, ast.Attribute) and isinstance(n.ctx, ast.Load) and n.attr == p and isinstance(n.value, ast.Name) \
                    and n.value.id == recv:
                out.append((unit, fname, f, n, f"{recv}.{p}"))
    return out


NONE_OK_CALLEES = {"check_random_state": "documented to accept None (fresh RandomState)"}


def nullable_use_ok(pm, K, unit, f, node, chain, te):
    """a load of a possibly-None hyper-parameter is acceptable"""
    if none_guarded(node, chain):
        return True, "guarded by an is-None test"
    par = node._parent
    # passed as an argument
    if isinstance(par, ast.Call) and (node in par.args):
        cn = (call_name(par) or "").split(".")[-1]
        if cn in NONE_OK_CALLEES:
            return True, NONE_OK_CALLEES[cn]
        if cn in ("isinstance", "callable", "hasattr"):
            return True, "type test"
        # GemClus callee: its parameter must itself be None-guarded
        kind, tgt = resolve_name(pm, unit, cn) if isinstance(par.func, ast.Name) else (None, None)
        if kind == "function":
            u2, f2 = tgt
            idx = par.args.index(node)
            params = func_params(f2)
            if idx < len(params):
                pn = params[idx]
                uses = [n for n in ast.walk(f2) if isinstance(n, ast.Name) and n.id == pn and isinstance(n.ctx, ast.Load)]
                if all(none_guarded(u, pn) for u in uses):
                    return True, f"callee {cn} guards its parameter {pn}"
        return False, f"passed to {cn} which is not known to accept None"
    if isinstance(par, ast.keyword) and isinstance(par._parent, ast.Call):
        call = par._parent
        cn = (call_name(call) or "").split(".")[-1]
        kind, tgt = resolve_name(pm, unit, cn) if isinstance(call.func, ast.Name) else (None, None)
        if kind == "class":
            ci = tgt
            c2, init = init_signature(pm, ci)
            tab = te.decorator_constraints(init, c2.unit)
            if tab is None:
                try:
                    tab = te.class_constraints(ci)
                except AnalysisError:
                    tab = None
            if tab and par.arg in tab and any(d.admits_none() for d in tab[par.arg]):
                return True, f"forwarded to {ci.name}({par.arg}=) which admits None"
            return False, f"forwarded to {ci.name}({par.arg}=) which does not admit None"
        return False, f"keyword argument of unresolved callee {cn}"
    if isinstance(par, ast.Compare) and all(isinstance(o, (ast.Eq, ast.NotEq, ast.Is, ast.IsNot)) for o in par.ops):
        return True, "equality/identity comparison"
    if isinstance(par, ast.Return) or isinstance(par, ast.Assign):
        return True, "value passed on unchanged"
    if isinstance(par, (ast.JoinedStr, ast.FormattedValue)):
        return True, "formatted"
    if isinstance(par, ast.BoolOp) or isinstance(par, ast.If) or isinstance(par, ast.IfExp) and node is par.test:
        return True, "truth test"
    return False, f"used in {type(par).__name__} without a None guard"


SPARSE_RECV = None


def run(pm, ctx):
    te = TableEval(pm)
    ests = pm.estimators()
    if len(ests) < 10:
        raise AnalysisError(f"only {len(ests)} estimators found")

    # ---------------------------------------------------------------- C16-a
    ctx.rule("C16-a", "every constructor parameter must have a constraint entry, otherwise _validate_params never "
             "looks at it and any value is trained on", floor=150)
    for K in ests:
        c, init = init_signature(pm, K)
        tab = te.class_constraints(K)
        for p in func_params(init)[1:]:
            site = f"{K.name}.__init__({p})"
            if p in tab:
                ctx.ok("C16-a", site, str(tab[p]))
            else:
                ctx.violation("C16-a", K.unit.relpath, K.name, f"parameter {p}",
                              f"hyper-parameter {p} of {K.name} has no entry in _parameter_constraints",
                              line=K.node.lineno, site=site)

    # ---------------------------------------------------------------- C16-b typestate
    ctx.rule("C16-b", "predict/predict_proba/score must read a learned attribute that only exists once "
             "_validate_params() and the input validation of fit have succeeded; otherwise a rejected configuration "
             "can leave a usable model", floor=50)
    for K in pm.concrete_estimators():
        safe, has_validating_fit = safe_fitted_attrs(pm, K)
        if not has_validating_fit:
            ctx.violation("C16-b", K.unit.relpath, f"{K.name}.fit", "fit",
                          f"no fit in the MRO of {K.name} calls both _validate_params() and validate_data", line=K.node.lineno)
            continue
        entries = list(PREDICT_ENTRY)
        if K.name == "Douglas":
            entries.append("find_active_points")
        for e in entries:
            C, f = pm.resolve_method(K, e)
            if f is None or C.external:
                continue
            reads = must_reads(pm, K, e)
            site = f"{K.name}.{e}"
            good = sorted(reads & safe)
            if good:
                ctx.ok("C16-b", site, f"must-reads {good}")
            else:
                ctx.violation("C16-b", C.unit.relpath, f"{C.name}.{e}", f"must-reads {sorted(reads)}",
                              f"{K.name}.{e} returns without reading any attribute stored only after validation "
                              f"(validated-only attributes: {sorted(safe)})", line=f.lineno, site=site)

    # ---------------------------------------------------------------- C16-c containment + nullability
    run_containment(pm, ctx, te, "C16-c")

    # ---------------------------------------------------------------- C16-d decorators
    ctx.rule("C16-d", "public functions and GEMINI constructors validate their arguments through constraint_params; "
             "a parameter without a key is never checked", floor=40)
    targets = []
    for cname in ("KLGEMINI", "TVGEMINI", "HellingerGEMINI", "ChiSquareGEMINI", "MMDGEMINI", "WassersteinGEMINI"):
        ci = pm.classes.get(cname)
        if ci is None:
            raise AnalysisError(f"anchor vanished: class {cname}")
        targets.append((ci.unit, f"{cname}.__init__", ci.methods.get("__init__")))
    du = pm.unit("gemclus.data.synthetic_data")
    for fn in ("draw_gmm", "multivariate_student_t", "gstm", "celeux_one", "celeux_two"):
        targets.append((du, fn, du.func(fn)))
    ku = pm.unit("gemclus.tree.kauri")
    targets.append((ku, "print_kauri_tree", ku.func("print_kauri_tree")))
    mu = pm.unit("gemclus.mlcl")
    targets.append((mu, "add_mlcl_constraint", mu.func("add_mlcl_constraint")))
    for unit, qn, f in targets:
        if f is None:
            raise AnalysisError(f"anchor vanished: {qn}")
        tab = te.decorator_constraints(f, unit)
        if tab is None:
            ctx.violation("C16-d", unit.relpath, qn, "decorator", f"{qn} has no constraint_params decorator", line=f.lineno)
            continue
        params = [p for p in func_params(f) if p != "self"]
        for p in params:
            site = f"{qn}({p})"
            if p in tab:
                ctx.ok("C16-d", site, str(tab[p]))
            else:
                # otherwise validated in the body?
                validated = False
                for n in ast.walk(f):
                    if isinstance(n, ast.Call) and any(isinstance(a, ast.Name) and a.id == p for a in n.args):
                        cn = (call_name(n) or "").split(".")[-1]
                        if cn in ("check_array", "_check_linking_constraint", "check_random_state"):
                            validated = True
                if validated:
                    ctx.ok("C16-d", site, "validated in the body")
                else:
                    ctx.violation("C16-d", unit.relpath, qn, f"parameter {p}",
                                  f"parameter {p} of {qn} has no constraint and is not validated in the body", line=f.lineno, site=site)
        for k in tab:
            if k not in params:
                ctx.advisory("C16-d", qn, f"constraint key {k!r} names no parameter of {qn}")
    # MI forwards to the decorated KLGEMINI constructor
    mi = pm.classes.get("MI")
    if mi is not None and "__init__" in mi.methods:
        probs, how, consts = constructor_contract(pm, mi)
        if how.get("epsilon") == "forwarded" and not probs:
            ctx.ok("C16-d", "MI.__init__(epsilon)", "forwarded to KLGEMINI.__init__")
        else:
            ctx.violation("C16-d", mi.unit.relpath, "MI.__init__", "epsilon", "MI does not forward epsilon to the validated "
                          "KLGEMINI constructor", line=mi.node.lineno)

    # ---------------------------------------------------------------- C16-e cross-parameter checks
    ctx.rule("C16-e", "documented inconsistent combinations must raise before anything is trained", floor=22)
    cross_checks(pm, ctx)

    # ---------------------------------------------------------------- C16-f guards of print_kauri_tree
    ctx.rule("C16-f", "isinstance and check_is_fitted must run before the first print", floor=2)
    print_guards(pm, ctx, "C16-f")

    # ---------------------------------------------------------------- C16-g sibling constraints
    ctx.rule("C16-g", "two estimators documenting a hyper-parameter with the same type line must validate it with the "
             "same constraint: one of two different domains contradicts the shared documentation", floor=20)
    by_name = {}
    for K in ests:
        tab = te.class_constraints(K)
        docs = doc_params(K)
        for p, doms in tab.items():
            by_name.setdefault(p, []).append((K, sorted(map(repr, doms)), docs.get(p)))
    for p, lst in sorted(by_name.items()):
        if len(lst) < 2:
            continue
        ref = lst[0]
        for K, doms, doc in lst[1:]:
            site = f"{p}: {ref[0].name} vs {K.name}"
            if doms == ref[1]:
                ctx.ok("C16-g", site)
            elif doc is not None and ref[2] is not None and doc == ref[2]:
                ctx.violation("C16-g", K.unit.relpath, K.name, f"constraint of {p}",
                              f"{p} is documented identically ({doc!r}) in {ref[0].name} and {K.name} but validated "
                              f"differently: {ref[1]} vs {doms}", line=K.node.lineno, site=site)
            else:
                ctx.ok("C16-g", site, "different documentation, different domain")
    # documented RandomState instance must be admitted
    for K in ests:
        tab = te.class_constraints(K)
        doc = doc_params(K).get("random_state")
        if doc and "RandomState" in doc and "random_state" in tab:
            site = f"{K.name}.random_state doc"
            if any(d.kind == "keyword" and d.name == "random_state" for d in tab["random_state"]):
                ctx.ok("C16-g", site)
            else:
                ctx.violation("C16-g", K.unit.relpath, K.name, "constraint of random_state",
                              f"random_state is documented as {doc!r} but the constraint {tab['random_state']} rejects "
                              f"RandomState instances", line=K.node.lineno, site=site)

    # ---------------------------------------------------------------- C16-h trained array is the validated one
    ctx.rule("C16-h", "the array handed to parameter initialisation, affinity computation and batching must be the "
             "result of validate_data(..., ensure_min_samples=<number of clusters>)", floor=3)
    validated_flow(pm, ctx)

    # ---------------------------------------------------------------- C16-i the validating decorator itself
    from .c16_extra import decorator_integrity, data_classes
    ctx.rule("C16-i", "constraint_params validates every argument that has a table entry, before the call, and raises a "
             "ValueError/TypeError-family error exactly when no alternative constraint is satisfied", floor=4)
    decorator_integrity(pm, ctx, "C16-i")

    # ---------------------------------------------------------------- C16-j classes of malformed training data
    ctx.rule("C16-j", "each class of malformed training data (non-numeric, sparse, non-finite, not 2-D, empty) is rejected by a "
             "validation call that dominates every use of the data", floor=10)
    data_classes(pm, ctx, "C16-j")


def run_containment(pm, ctx, te, rid):
    ctx.rule(rid, "a value accepted by the estimator's validation must be accepted by everything it is forwarded to, and "
             "a hyper-parameter that may be None must never be used without an is-None guard", floor=60)
    sparse_unit = pm.unit("gemclus.sparse._base_sparse")
    recv_funcs = [(sparse_unit, "_path", "clf"), (sparse_unit, "compute_val_score", "clf")]
    for K in pm.concrete_estimators():
        tab = te.class_constraints(K)
        # -- forwarding through get_gemini
        C, gg = pm.resolve_method(K, "get_gemini")
        if gg is not None and not C.external:
            sn = self_name(gg)
            for n in ast.walk(gg):
                if isinstance(n, ast.Call) and isinstance(n.func, ast.Name):
                    kind, tgt = resolve_name(pm, C.unit, n.func.id)
                    if kind != "class":
                        continue
                    G = tgt
                    gc, ginit = init_signature(pm, G)
                    gtab = te.decorator_constraints(ginit, gc.unit)
                    if gtab is None:
                        continue
                    for kw in n.keywords:
                        if isinstance(kw.value, ast.Attribute) and isinstance(kw.value.value, ast.Name) and kw.value.value.id == sn:
                            hp = kw.value.attr
                            site = f"{K.name}.{hp} -> {G.name}({kw.arg}=)"
                            if hp not in tab or kw.arg not in gtab:
                                continue
                            bad = doms_contained(tab[hp], gtab[kw.arg])
                            if bad:
                                ctx.violation(rid, C.unit.relpath, f"{C.name}.get_gemini", f"{kw.arg}=self.{hp} [{K.name}]",
                                              f"{K.name} accepts {hp} in {bad} which {G.name}.__init__({kw.arg}) rejects",
                                              line=n.lineno, site=site, detail={"estimator": str(tab[hp]), "gemini": str(gtab[kw.arg])})
                            else:
                                ctx.ok(rid, site)
        # -- nullability
        for p, doms in tab.items():
            if not any(d.kind == "none" for d in doms):
                continue
            uses = hyper_param_uses(pm, K, p)
            if any(c.name in ("SparseLinearModel", "SparseMLPModel") for c in K.mro):
                uses += receiver_typed_uses(pm, p, recv_funcs)
            for unit, qn, f, node, chain in uses:
                ok, why = nullable_use_ok(pm, K, unit, f, node, chain, te)
                site = f"{K.name}: {qn} uses {chain} @{norm_src(node._parent)[:60]}"
                if ok:
                    ctx.ok(rid, site, why)
                else:
                    st = node
                    while not isinstance(st, ast.stmt):
                        st = st._parent
                    ctx.violation(rid, unit.relpath, qn, norm_src(st)[:160],
                                  f"{p} may be None for {K.name} (constraint {doms}) but is {why}", line=node.lineno, site=site)


def cross_checks(pm, ctx):
    # Kauri: 2*min_samples_leaf > min_samples_split raises before find_best_split
    ku = pm.unit("gemclus.tree.kauri")
    f = ku.func("Kauri.fit")
    cfg = CFG(f)
    guard = None
    for st in cfg.nodes:
        if isinstance(st, ast.If):
            names = {attr_chain(n) for n in ast.walk(st.test) if isinstance(n, ast.Attribute)}
            if {"self.min_samples_leaf", "self.min_samples_split"} <= names and st.body and isinstance(st.body[-1], ast.Raise):
                guard = st
    train = [st for st in cfg.nodes if any(isinstance(n, ast.Call) and (call_name(n) or "") == "find_best_split"
                                            for e in cfg.header_exprs(st) for n in ast.walk(e))]
    if not train:
        raise AnalysisError("anchor vanished: find_best_split call in Kauri.fit")
    if guard is None:
        # the documented rejection is missing altogether: nothing relates the two hyper-parameters before training
        ctx.violation("C16-e", ku.relpath, "Kauri.fit", "min_samples_leaf/min_samples_split check",
                      "no raising check relating min_samples_leaf and min_samples_split", line=f.lineno)
    else:
        from ..e6_algebra import linear_guard_implies
        ok = all(cfg.dominates(guard, t) for t in train)
        # the test must be 2*leaf > split (or equivalent)
        sem = linear_guard_implies(guard.test, "2*self.min_samples_leaf - self.min_samples_split", ">", 0)
        if ok and sem:
            ctx.ok("C16-e", "Kauri.fit: 2*min_samples_leaf <= min_samples_split", norm_src(guard.test))
        else:
            ctx.violation("C16-e", ku.relpath, "Kauri.fit", norm_src(guard.test),
                          "the min_samples check does not dominate tree construction or is not 2*leaf > split",
                          line=guard.lineno)
    # Douglas: mask length check raises before leaf_scores_/cut points are created
    du = pm.unit("gemclus.tree.douglas")
    from ..astutil import deref_self_aliases
    f = deref_self_aliases(du.func("Douglas._init_params"))
    cfg = CFG(f)
    guard = None
    for st in cfg.nodes:
        if isinstance(st, ast.If) and st.body and isinstance(st.body[-1], ast.Raise):
            # the length test, alone or in a conjunction with `feature_mask is not None`
            conj = st.test.values if isinstance(st.test, ast.BoolOp) and isinstance(st.test.op, ast.And) else [st.test]
            lens = [c for c in conj if isinstance(c, ast.Compare) and isinstance(c.ops[0], ast.NotEq) and "len(self.feature_mask)" in norm_src(c) and "shape[1]" in norm_src(c)]
            rest = [c for c in conj if c not in lens]
            if len(lens) == 1 and all(norm_src(c) in ("self.feature_mask is not None",) for c in rest):
                guard = st
    uses = [st for st in cfg.nodes if not isinstance(st, ast.If) and "self.feature_mask[" in norm_src(st)]
    if guard is not None and uses and all(cfg.dominates(guard, u) for u in uses):
        ctx.ok("C16-e", "Douglas._init_params: len(feature_mask) == n_features", norm_src(guard.test))
    else:
        ctx.violation("C16-e", du.relpath, "Douglas._init_params", "feature_mask length check",
                      "feature_mask is indexed without a dominating length check that raises", line=f.lineno)
    # sparse fits: check_groups before super().fit
    for mod, cls in (("gemclus.sparse._linear_sparse", "SparseLinearModel"), ("gemclus.sparse._mlp_sparse", "SparseMLPModel")):
        u = pm.unit(mod)
        f = u.func(f"{cls}.fit")
        cfg = CFG(f)
        cg = [st for st in cfg.nodes if isinstance(st, ast.Assign) and "check_groups(self.groups" in norm_src(st)
              and attr_chain(st.targets[0]) == "self.groups_"]
        sup = [st for st in cfg.nodes if "super().fit(" in norm_src(st)]
        if cg and sup and all(cfg.dominates(cg[0], s) for s in sup):
            ctx.ok("C16-e", f"{cls}.fit: groups_ = check_groups(groups, n_features) before training")
        else:
            ctx.violation("C16-e", u.relpath, f"{cls}.fit", "check_groups", "groups are not checked before training", line=f.lineno)
    # check_groups: decision table over abstract group lists
    from .c16_extra import check_groups_table, check_groups_completion
    check_groups_table(pm, ctx, "C16-e")
    check_groups_completion(pm, ctx, "C16-e")


def print_guards(pm, ctx, rid):
    ku = pm.unit("gemclus.tree.kauri")
    f = ku.func("print_kauri_tree")
    cfg = CFG(f)
    first_out = None
    for st in cfg.nodes:
        s = norm_src(st)
        if (isinstance(st, ast.Expr) and isinstance(st.value, ast.Call) and (call_name(st.value) in ("print", "print_node"))):
            first_out = st
            break
    if first_out is None:
        raise AnalysisError("anchor vanished: output statement of print_kauri_tree")
    inst = [st for st in cfg.nodes if isinstance(st, ast.If) and "isinstance(kauri_tree, Kauri)" in norm_src(st.test)
            and isinstance(st.test, ast.UnaryOp) and st.body and isinstance(st.body[-1], ast.Raise)]
    fitted = [st for st in cfg.nodes if isinstance(st, ast.Expr) and norm_src(st) == "check_is_fitted(kauri_tree)"]
    for name, g in (("isinstance(kauri_tree, Kauri)", inst), ("check_is_fitted(kauri_tree)", fitted)):
        if g and cfg.dominates(g[0], first_out):
            ctx.ok(rid, f"print_kauri_tree: {name} precedes output")
        else:
            ctx.violation(rid, ku.relpath, "print_kauri_tree", name, f"{name} does not dominate the first output", line=f.lineno)


def validated_flow(pm, ctx):
    for mod, qn, nclu in (("gemclus._base_gemini", "DiscriminativeModel.fit", "self.n_clusters"),
                          ("gemclus.tree.kauri", "Kauri.fit", None)):
        u = pm.unit(mod)
        f = u.func(qn)
        cfg = CFG(f)
        vd = None
        for st in cfg.nodes:
            if isinstance(st, ast.Assign) and isinstance(st.value, ast.Call) and (call_name(st.value) or "").split(".")[-1] == "validate_data":
                vd = st
        if vd is None:
            ctx.violation("C16-h", u.relpath, qn, "validate_data", "the result of validate_data is not bound", line=f.lineno)
            continue
        tgt = vd.targets[0].id if isinstance(vd.targets[0], ast.Name) else None
        call = vd.value
        ems = kwarg(call, "ensure_min_samples")
        if nclu is not None:
            if ems is not None and attr_chain(ems) == nclu:
                ctx.ok("C16-h", f"{qn}: ensure_min_samples={nclu}")
            else:
                ctx.violation("C16-h", u.relpath, qn, norm_src(vd), f"validate_data is not given ensure_min_samples={nclu}",
                              line=vd.lineno)
        # every later use of X as a call argument must be reached only by this definition
        rd = cfg.reaching()
        bad = []
        n_uses = 0
        for st in cfg.nodes:
            if st is vd or not cfg.dominates(vd, st):
                continue
            if tgt in cfg.uses(st):
                n_uses += 1
                if rd[st].get(tgt) != frozenset([vd]):
                    bad.append(st)
        # no training-relevant use of the raw parameter before validation
        pre = [st for st in cfg.nodes if st is not vd and not cfg.dominates(vd, st) and tgt in cfg.uses(st)
               and not any((call_name(n) or "").split(".")[-1] in ("check_array",) for n in ast.walk(st) if isinstance(n, ast.Call))]
        if bad or pre or n_uses == 0:
            st = (bad or pre or [vd])[0]
            ctx.violation("C16-h", u.relpath, qn, norm_src(st)[:120], "the data used for training is not (only) the validated array",
                          line=st.lineno)
        else:
            ctx.ok("C16-h", f"{qn}: {n_uses} uses of {tgt} all reached by the validate_data result")


# ------------------------------------------------------------------------------------------- controls
def controls(pm, tier):
    out = []

    def drop_constraint(pm_):
        u = pm_.unit("gemclus.sparse._mlp_sparse")
        ci = pm_.classes["SparseMLPModel"]
        d = ci.class_attrs["_parameter_constraints"]
        for k, v in zip(d.keys, d.values):
            if k is not None and k.value == "groups":
                src = replace_node(u, k, '"groups_unused"')
                return {u.relpath: src}
        return None
    out.append({"name": "drop the groups constraint of SparseMLPModel", "rule": "C16-a", "apply": drop_constraint})

    def narrow_gemini_metric(pm_):
        u = pm_.unit("gemclus.gemini._geomdistances")
        f = pm_.classes["WassersteinGEMINI"].methods["__init__"]
        for d in f.decorator_list:
            if isinstance(d, ast.Call):
                tab = d.args[0]
                for k, v in zip(tab.keys, tab.values):
                    if k.value == "metric" and len(v.elts) > 1:
                        return {u.relpath: replace_node(u, v, "[" + norm_src(v.elts[0]) + "]")}
        return None
    out.append({"name": "WassersteinGEMINI.metric no longer admits callables", "rule": "C16-c", "apply": narrow_gemini_metric})

    def nullable_ncuts(pm_):
        u = pm_.unit("gemclus.tree.douglas")
        d = pm_.classes["Douglas"].class_attrs["_parameter_constraints"]
        for k, v in zip(d.keys, d.values):
            if k is not None and k.value == "n_cuts":
                return {u.relpath: replace_node(u, v, "[" + ", ".join(norm_src(e) for e in v.elts) + ", None]")}
        return None
    out.append({"name": "Douglas.n_cuts admits None", "rule": "C16-c", "apply": nullable_ncuts})

    def early_store(pm_):
        u = pm_.unit("gemclus._base_gemini")
        f = u.func("DiscriminativeModel.fit")
        for st in f.body:
            if "_validate_params" in norm_src(st):
                ind = " " * st.col_offset
                return {u.relpath: replace_node(u, st, "self._init_params(None, X)\n" + ind + norm_src(st))}
        return None
    out.append({"name": "parameters initialised before _validate_params()", "rule": "C16-b", "apply": early_store})

    def drop_decorator(pm_):
        u = pm_.unit("gemclus.gemini._fdivergences")
        f = pm_.classes["TVGEMINI"].methods["__init__"]
        if f.decorator_list:
            return {u.relpath: replace_node(u, f.decorator_list[0], "staticmethod_placeholder".replace("staticmethod_placeholder", "(lambda g: g)"))}
        return None
    out.append({"name": "TVGEMINI.__init__ loses its constraint_params decorator", "rule": "C16-d", "apply": drop_decorator})

    def weaken_kauri_check(pm_):
        u = pm_.unit("gemclus.tree.kauri")
        f = u.func("Kauri.fit")
        for n in ast.walk(f):
            if isinstance(n, ast.If) and "min_samples_leaf" in norm_src(n.test) and "min_samples_split" in norm_src(n.test):
                return {u.relpath: replace_node(u, n.test, "self.min_samples_leaf > self.min_samples_split")}
        return None
    out.append({"name": "Kauri min_samples check loses its factor 2", "rule": "C16-e", "apply": weaken_kauri_check})

    def rs_constraint(pm_):
        u = pm_.unit("gemclus._base_gemini")
        d = pm_.classes["DiscriminativeModel"].class_attrs["_parameter_constraints"]
        for k, v in zip(d.keys, d.values):
            if k is not None and k.value == "random_state":
                return {u.relpath: replace_node(u, v, '[Interval(Integral, 0, None, closed="left"), None]')}
        return None
    out.append({"name": "random_state constraint rejects RandomState again", "rule": "C16-g", "apply": rs_constraint})

    def unvalidated_array(pm_):
        u = pm_.unit("gemclus._base_gemini")
        f = u.func("DiscriminativeModel.fit")
        for st in f.body:
            if isinstance(st, ast.Assign) and "validate_data" in norm_src(st.value):
                return {u.relpath: replace_node(u, st, norm_src(st.value))}
        return None
    out.append({"name": "result of validate_data discarded in DiscriminativeModel.fit", "rule": "C16-h", "apply": unvalidated_array})

    def textual(mod, find, repl, rule, name):
        def apply(pm_):
            u = pm_.unit(mod)
            if find not in u.src:
                return None
            return {u.relpath: u.src.replace(find, repl, 1)}
        out.append({"name": name, "rule": rule, "apply": apply})
    textual("gemclus.sparse._base_sparse", "        if len(all_indices) == n_features_in:", "        if len(all_indices) >= n_features_in:", "C16-e",
            "covering but overlapping groups take the partition branch")
    textual("gemclus.sparse._base_sparse", "            if len(set(all_indices)) != len(all_indices):", "            if len(set(all_indices)) > len(all_indices):", "C16-e",
            "duplicate test can never fire")
    textual("gemclus._constraints", "                if param_name not in parameter_constraints:\n                    continue",
            "                if param_name not in parameter_constraints:\n                    break", "C16-i", "validation stops at the first argument without entry")
    textual("gemclus._constraints", "                if not is_satisfied:\n                    if len(local_constraints) == 1:",
            "                if not is_satisfied and len(local_constraints) > 1:\n                    if len(local_constraints) == 1:", "C16-i",
            "single-constraint parameters never raise")
    textual("gemclus._base_gemini", "        X = check_array(X)\n        X = validate_data(self, X, accept_sparse=True, dtype=np.float64, ensure_min_samples=self.n_clusters)",
            "        X = validate_data(self, X, dtype=np.float64, ensure_min_samples=self.n_clusters)", "C16-j", "numeric-dtype guard merged away")
    textual("gemclus.tree.kauri", "        X = check_array(X)\n        X = validate_data(self, X, accept_sparse=True,", "        X = validate_data(self, X, accept_sparse=True,", "C16-j",
            "Kauri.fit accepts sparse and string data")
    return out
