"""C04 - fit succeeds on every valid configuration and yields a coherent model (structural clauses)."""
import ast

from ..pm import AnalysisError, norm_src, func_params
from ..flow import CFG, attr_chain
from ..astutil import replace_node, call_name, kwarg, self_name, reindent
from ..e1_resolve import check_self_loads, check_receiver_typed, check_imports, check_keywords, check_numpy_names
from ..e2_tables import TableEval
from ..e3_axes import Arr, Num, Ax, NoneV, StrV, Tup, is_top
from ..scenarios import fit_scenario, nonusage, dedup_events
from .c16 import run_containment

PROP = "C04"
EXPLANATION = (
    "(a) every self.<attr>, receiver-typed attribute, import, keyword argument and numpy name used by GemClus resolves in "
    "the class hierarchy / the sources and stubs of the packages installed in /venv; (b) no abstract method is left in a "
    "concrete estimator or GEMINI; (c) coherence wiring: abstract interpretation of fit followed by predict_proba / predict / "
    "score on new data gives labels_:[N] indices into the cluster axis, predict_proba:[M,K] ending in a row-wise softmax, "
    "predict:[M] arg-max over the cluster axis of predict_proba, a scalar score from the same GEMINI object, n_iter_ = "
    "max_iter, optimiser class selected by solver; (d) accepted => usable (domain containment / None guards, shared with "
    "C16-c); (e) no axis mismatch or index-space event anywhere on the fit / predict path of any estimator, for int and "
    "None batch sizes and every GEMINI registry name. Not decided: termination and finite arithmetic.")
ASSUMPTIONS = ["installed package sources/stubs under /venv describe the API that runs", "numpy shape semantics of gcverif/e3_numpy.py"]
ADOPT = [("C02", ["C02-f"], "a batch of one sample (batch_size = 1 or a trailing batch) makes all clusters coincide: without the zero-distance masks the MMD gradient is NaN and fit returns NaN probabilities"),
         ("C12", ["C12-a"], "a hyper-parameter that the constructor drops is silently replaced by the parent's default"),
         ("C17", ["C17-e"], "an overflowing exponential turns predict_proba rows into NaN, which are not probability vectors"),
         ("C15", ["C15-b"], "Douglas probabilities are products of the soft bin memberships: they must be probability vectors"),
         ("C09", ["C09-b"], "Kauri.fit allocates its leaf/cluster membership matrices with max_leaves rows/columns: a growth loop that can run with n_leaves == max_leaves "
                            "(or on an empty worklist) indexes past them and fit raises instead of returning labels and a tree")]


def run(pm, ctx):
    ctx.rule("C04-a", "a name that does not resolve in the installed dependency makes every fit raise", floor=300)
    n = check_self_loads(pm, ctx, "C04-a")
    check_receiver_typed(pm, ctx, "C04-a")
    check_imports(pm, ctx, "C04-a")
    check_keywords(pm, ctx, "C04-a")
    rnd = check_numpy_names(pm, ctx, "C04-a")

    ctx.rule("C04-b", "a concrete estimator / GEMINI with an abstract method left cannot be instantiated", floor=24)
    exported = set()
    for mod in ("gemclus.linear", "gemclus.mlp", "gemclus.sparse", "gemclus.nonparametric", "gemclus.tree", "gemclus.gemini"):
        u = pm.unit(mod)
        allv = u.assigns.get("__all__")
        if isinstance(allv, ast.List):
            exported |= {e.value for e in allv.elts if isinstance(e, ast.Constant)}
    for name in sorted(exported):
        ci = pm.classes.get(name)
        if ci is None:
            continue
        left = pm.abstract_methods_left(ci)
        if left and name not in ("DiscriminativeModel",):
            ctx.violation("C04-b", ci.unit.relpath, name, "abstract methods", f"{name} is exported but leaves {left} abstract", line=ci.node.lineno,
                          site=name)
        else:
            ctx.ok("C04-b", name)

    ctx.rule("C04-c", "labels_/predict/predict_proba/score/n_iter_/optimiser must be wired to the same forward function", floor=60)
    ctx.rule("C04-e", "shape soundness of the whole fit and predict path for any batch size", floor=40)
    ctx.rule("C04-f", "drawing without replacement never asks for more items than the population holds (numpy raises ValueError otherwise)", floor=1)
    sample_sizes(pm, ctx)
    te = TableEval(pm)
    names = sorted(te.imported_str_set("gemclus.gemini._utils", "AVAILABLE_GEMINIS"))
    for K in pm.concrete_estimators():
        variants = [("int", None), ("none", None)]
        has_gemini = "gemini" in [p for p in func_params(pm.resolve_method(K, "__init__")[1])]
        if has_gemini and ctx.tier != "control":
            for g in (names if ctx.tier == "thorough" else ["mmd_ovo", "wasserstein_ovo", "kl_ovo", "tv_ovo", "hellinger_ova", "chi2_ovo", "mi"]):
                variants.append(("int", g))
        for batch, gname in variants:
            ov = {"gemini": StrV(gname)} if gname else None
            I, obj, res = fit_scenario(pm, K, batch=batch, overrides=ov)
            site = f"{K.name}[batch={batch}{', gemini=' + gname if gname else ''}]"
            M = Ax("M")
            Xnew = Arr([M, Ax("D")])
            pp = pr = sc = None
            if K.name != "Kauri":
                pp = I.call_method(obj, "predict_proba", [Xnew])
            pr = I.call_method(obj, "predict", [Xnew])
            if not (K.name in ("CategoricalModel", "CategoricalMMD", "CategoricalWasserstein")):
                sc = I.call_method(obj, "score", [Xnew, NoneV()])
            evs = [e for e in dedup_events(nonusage(I.events)) if e.kind in ("axis-mismatch", "index-space", "unequal-split")]
            # the categorical models are transductive: predicting new data is outside their contract
            if K.name.startswith("Categorical"):
                evs = [e for e in evs if not any(q.endswith(".predict") or q.endswith(".predict_proba") or q.endswith(".score") for q in e.ctxpath)]
            for e in evs:
                st = e.stmt()
                ctx.violation("C04-e", e.unit.relpath, e.func, norm_src(st)[:200] if st is not None else "?",
                              f"[{e.kind}] {e.msg} (scenario {site})", line=getattr(e.node, "lineno", None), site=site)
            if not evs:
                ctx.ok("C04-e", site, f"{I.n_exprs} expressions, {I.n_top} unknown")
            if gname is not None:
                continue
            # ---- coherence from the abstract results
            lab = obj.attrs.get("labels_")
            kax = "Kmax" if K.name == "Kauri" else "K"
            if isinstance(lab, Arr) and [a.name for a in lab.axes] == ["N"] and lab.elem == "i" and lab.space is not None and lab.space.name == kax:
                ctx.ok("C04-c", f"{site}: labels_", repr(lab))
            else:
                ctx.violation("C04-c", K.unit.relpath, f"{K.name}.fit", "labels_", f"labels_ is {lab!r}, expected one index into the cluster axis per sample",
                              line=K.node.lineno, site=f"{site}: labels_")
            if K.name != "Kauri" and not K.name.startswith("Categorical"):
                if isinstance(pp, Arr) and [a.name for a in pp.axes] == ["M", "K"] and "softmax" in pp.tags:
                    ctx.ok("C04-c", f"{site}: predict_proba", repr(pp))
                else:
                    ctx.violation("C04-c", K.unit.relpath, f"{K.name}.predict_proba", "predict_proba", f"predict_proba(X:[M,D]) is {pp!r}, expected the "
                                  f"row-wise softmax output [M,K]", line=K.node.lineno, site=f"{site}: predict_proba")
            if not K.name.startswith("Categorical"):
                if isinstance(pr, Arr) and [a.name for a in pr.axes] == ["M"] and pr.space is not None and pr.space.name in (kax,) or \
                        (K.name == "Kauri" and isinstance(pr, Arr) and [a.name for a in pr.axes] == ["M"]):
                    ctx.ok("C04-c", f"{site}: predict", repr(pr))
                else:
                    ctx.violation("C04-c", K.unit.relpath, f"{K.name}.predict", "predict", f"predict(X:[M,D]) is {pr!r}, expected [M] indices into the cluster axis",
                                  line=K.node.lineno, site=f"{site}: predict")
                if isinstance(sc, Num):
                    ctx.ok("C04-c", f"{site}: score", repr(sc))
                elif K.name == "Kauri" and (is_top(sc) or isinstance(sc, Num)):
                    ctx.ok("C04-c", f"{site}: score", "scalar (compiled objective)")
                elif is_top(sc):
                    ctx.undecided_site("C04-c", f"{site}: score", f"abstract value of score: {sc!r}")
                else:
                    ctx.violation("C04-c", K.unit.relpath, f"{K.name}.score", "score", f"score is {sc!r}, expected a scalar", line=K.node.lineno,
                                  site=f"{site}: score")
    wiring(pm, ctx)
    run_containment(pm, ctx, te, "C04-d")


def sample_sizes(pm, ctx):
    import ast as _a
    from ..match import size_aliases, normalise_sizes, resolve_expr, cfg_node, canon_equal
    from ..flow import CFG
    n_sites = 0
    for u in pm.units.values():
        if u.is_pyx:
            continue
        for f in [n for n in _a.walk(u.tree) if isinstance(n, _a.FunctionDef)]:
            calls = [c for c in _a.walk(f) if isinstance(c, _a.Call) and isinstance(c.func, _a.Attribute) and c.func.attr == "choice"
                     and any(k.arg == "replace" and isinstance(k.value, _a.Constant) and k.value.value is False for k in c.keywords)]
            if not calls:
                continue
            al = size_aliases(f)
            cfg = CFG(f)
            for c in calls:
                n_sites += 1
                site = f"{u.relpath}:{f.name}: {norm_src(c)[:60]}"
                pop = c.args[0] if c.args else None
                size = next((k.value for k in c.keywords if k.arg == "size"), c.args[1] if len(c.args) > 1 else None)
                if pop is None or size is None:
                    ctx.unrecognised("C04-f", site, "population / size argument")
                    continue
                st = cfg_node(cfg, c)
                P = normalise_sizes(resolve_expr(cfg, st, pop), al)
                S = normalise_sizes(resolve_expr(cfg, st, size), al)

                def bounded(e):
                    """True: e <= P provable; False: e is bounded by another size only; None: unknown"""
                    if canon_equal(e, P):
                        return True
                    if isinstance(e, _a.IfExp):
                        rs = [bounded(e.body), bounded(e.orelse)]
                        return True if all(r is True for r in rs) else (False if any(r is False for r in rs) else None)
                    if isinstance(e, _a.Call) and norm_src(e.func) in ("min", "np.minimum") and e.args:
                        if any(canon_equal(a, P) for a in e.args):
                            return True
                        sizes = [a for a in e.args if ".shape[" in str(norm_src(a)) or str(norm_src(a)).startswith("len(")]
                        return False if sizes else None
                    if isinstance(e, _a.Constant) and e.value == 1:
                        return True
                    return None
                r = bounded(S)
                if r is True:
                    ctx.ok("C04-f", site, f"size {norm_src(S)[:50]} <= population {norm_src(P)[:30]}")
                elif r is False:
                    ctx.violation("C04-f", u.relpath, f.name, norm_src(c)[:140], f"the number of items drawn without replacement, `{norm_src(S)[:80]}`, is not bounded by the population "
                                  f"`{norm_src(P)}` (it is clamped by another size): a legal value above the population makes fit raise ValueError", line=c.lineno, site=site)
                else:
                    ctx.unrecognised("C04-f", site, f"cannot relate size `{norm_src(S)[:60]}` to the population `{norm_src(P)[:30]}`")
    if n_sites == 0:
        ctx.ok("C04-f", "no draw without replacement in the package")


def wiring(pm, ctx):
    u = pm.unit("gemclus._base_gemini")
    # predict = argmax over axis 1 of self.predict_proba
    f = u.func("DiscriminativeModel.predict")
    rets = [n for n in ast.walk(f) if isinstance(n, ast.Return)]
    ok = False
    if len(rets) == 1 and isinstance(rets[0].value, ast.Call):
        from ..match import arg_reduce
        ar = arg_reduce(rets[0].value)
        if ar and ar[0] == "argmax":
            inner, ax = ar[1], ar[2]
            if isinstance(inner, ast.Call) and call_name(inner) == "self.predict_proba" and isinstance(ax, ast.Constant) and ax.value in (1, -1):
                ok = True
    if ok:
        ctx.ok("C04-c", "DiscriminativeModel.predict = argmax(self.predict_proba(X), axis=1)")
    else:
        ctx.violation("C04-c", u.relpath, "DiscriminativeModel.predict", norm_src(rets[0]) if rets else "return",
                      "predict is not the arg-max over clusters of self.predict_proba(X)", line=f.lineno)
    # predict_proba returns self._infer(validated X)
    f = u.func("DiscriminativeModel.predict_proba")
    cfg = CFG(f)
    rets = [n for n in cfg.nodes if isinstance(n, ast.Return)]
    ok = False
    if len(rets) == 1:
        stmts, inputs = cfg.backward_slice(rets[0])
        calls = [n for s in list(stmts) + [rets[0]] for n in ast.walk(s) if isinstance(n, ast.Call) and call_name(n) == "self._infer"]
        ok = len(calls) == 1 and isinstance(rets[0].value, (ast.Name, ast.Call))
        if ok and isinstance(rets[0].value, ast.Name):
            d = cfg.reaching()[rets[0]].get(rets[0].value.id, frozenset())
            ok = len(d) == 1 and isinstance(next(iter(d)), ast.Assign) and isinstance(next(iter(d)).value, ast.Call) \
                and call_name(next(iter(d)).value) == "self._infer"
    if ok:
        ctx.ok("C04-c", "DiscriminativeModel.predict_proba returns self._infer(X)")
    else:
        ctx.violation("C04-c", u.relpath, "DiscriminativeModel.predict_proba", norm_src(rets[0]) if rets else "return",
                      "predict_proba does not return the value of self._infer", line=f.lineno)
    # fit: labels_ = self._infer(X).argmax(1); n_iter_ = max_iter; optimiser by solver
    f = u.func("DiscriminativeModel.fit")
    cfg = CFG(f)
    lab = [s for s in cfg.nodes if isinstance(s, ast.Assign) and attr_chain(s.targets[0]) == "self.labels_"]
    from ..match import arg_reduce
    ar = arg_reduce(lab[0].value) if len(lab) == 1 else None
    ok = bool(ar) and ar[0] == "argmax" and isinstance(ar[2], ast.Constant) and ar[2].value in (1, -1) and isinstance(ar[1], ast.Call) and call_name(ar[1]) == "self._infer"
    loops = [s for s in cfg.nodes if isinstance(s, ast.For) and "range(self.max_iter)" in norm_src(s.iter)]
    if ok and loops and cfg.dominates(loops[0], lab[0]) and lab[0] not in _body_nodes(loops[0]):
        ctx.ok("C04-c", "DiscriminativeModel.fit: labels_ = argmax of the final forward pass, after training")
    else:
        ctx.violation("C04-c", u.relpath, "DiscriminativeModel.fit", norm_src(lab[0]) if lab else "labels_",
                      "labels_ is not the arg-max of self._infer(X) computed after the training loop", line=f.lineno)
    ni = [s for s in cfg.nodes if isinstance(s, ast.Assign) and attr_chain(s.targets[0]) == "self.n_iter_"]
    if len(ni) == 1 and norm_src(ni[0].value) == "self.max_iter":
        ctx.ok("C04-c", "DiscriminativeModel.fit: n_iter_ = max_iter")
    else:
        ctx.violation("C04-c", u.relpath, "DiscriminativeModel.fit", norm_src(ni[0]) if ni else "n_iter_", "n_iter_ does not record max_iter", line=f.lineno)
    # the class instantiated for self.optimiser_, case by case (if/else around the store, a conditional expression, a class picked first)
    from ..match import value_cases
    stores = [s_ for s_ in cfg.nodes if isinstance(s_, ast.Assign) and attr_chain(s_.targets[0]) == "self.optimiser_"]
    want = {"sgd": "SGDOptimizer", "adam": "AdamOptimizer"}
    probs, n_cases = [], 0
    def _opt_cases(st_):
        """(literals, constructor call) cases of the stored value; a call of a loop-free private method of the class is followed into its returns"""
        from ..flow import return_cases
        out_ = []
        for lits, val in value_cases(cfg, st_, st_.value):
            if isinstance(val, ast.Call) and isinstance(val.func, ast.Attribute) and isinstance(val.func.value, ast.Name) and val.func.value.id == "self" \
                    and val.func.attr in pm.classes["DiscriminativeModel"].methods:
                try:
                    rc = return_cases(pm.classes["DiscriminativeModel"].methods[val.func.attr])
                except Exception:
                    rc = None
                if rc and all(k_ == "return" and v_ is not None for k_, v_, _ in rc):
                    out_.extend((frozenset(lits) | frozenset(l_), v_) for _, v_, l_ in rc)
                    continue
            out_.append((lits, val))
        return out_
    table_ok = None
    for st_ in stores:
        v0 = st_.value
        # a lookup table NAME[self.solver](...) with a module-level literal {"sgd": SGDOptimizer, "adam": AdamOptimizer}
        if isinstance(v0, ast.Call) and isinstance(v0.func, ast.Subscript) and isinstance(v0.func.value, ast.Name) and norm_src(v0.func.slice) == "self.solver" \
                and isinstance(u.assigns.get(v0.func.value.id), ast.Dict):
            d_ = u.assigns[v0.func.value.id]
            got_ = {k_.value: norm_src(v_) for k_, v_ in zip(d_.keys, d_.values) if isinstance(k_, ast.Constant)}
            table_ok = got_ == want
            if not table_ok:
                probs.append(f"the solver table {got_} does not map sgd/adam to their optimisers")
            n_cases += 2
            continue
        for lits, val in _opt_cases(st_):
            if not isinstance(val, ast.Call):
                probs.append(f"`{norm_src(val)[:50]}` is not a constructor call")
                continue
            for lits2, cls in value_cases(cfg, st_, val.func):
                known = dict(lits | lits2)
                sel = [(k, known[f"self.solver == '{k}'"]) for k in want if f"self.solver == '{k}'" in known]
                name = norm_src(cls)
                n_cases += 1
                if not sel:
                    probs.append(f"{name} is built whatever the solver")
                    continue
                k, pol = sel[0]
                expected = want[k] if pol else [v for kk, v in want.items() if kk != k][0]
                if name != expected:
                    probs.append(f"solver {'==' if pol else '!='} '{k}' builds {name}, expected {expected}")
    if stores and n_cases >= 2 and not probs:
        ctx.ok("C04-c", "DiscriminativeModel.fit: optimiser class selected by solver")
    elif not stores:
        ctx.unrecognised("C04-c", "DiscriminativeModel.fit: optimiser", "no store to self.optimiser_")
    else:
        ctx.violation("C04-c", u.relpath, "DiscriminativeModel.fit", norm_src(stores[0])[:120], "the optimiser class does not follow solver" + (": " + "; ".join(probs) if probs else ""),
                      line=stores[0].lineno)
    # score = gemini(self.predict_proba(X), gemini.compute_affinity(X, y)) with one get_gemini() object
    f = u.func("DiscriminativeModel.score")
    src = [norm_src(s) for s in f.body if not (isinstance(s, ast.Expr) and isinstance(s.value, ast.Constant))]
    cfg = CFG(f)
    rets = [n for n in cfg.nodes if isinstance(n, ast.Return)]
    ok = False
    if len(rets) == 1:
        stmts, inputs = cfg.backward_slice(rets[0])
        calls = [call_name(n) for s in list(stmts) + [rets[0]] for n in ast.walk(s) if isinstance(n, ast.Call)]
        gg = [s for s in stmts if isinstance(s, ast.Assign) and isinstance(s.value, ast.Call) and call_name(s.value) == "self.get_gemini"]
        if len(gg) == 1:
            g = gg[0].targets[0].id
            ok = f"{g}.compute_affinity" in calls and "self.predict_proba" in calls and calls.count("self.get_gemini") == 1 \
                and any(isinstance(n, ast.Call) and isinstance(n.func, ast.Name) and n.func.id == g for n in ast.walk(rets[0]))
    if ok:
        ctx.ok("C04-c", "DiscriminativeModel.score = gemini(predict_proba(X), gemini.compute_affinity(X, y)) with one GEMINI object")
    else:
        ctx.violation("C04-c", u.relpath, "DiscriminativeModel.score", norm_src(rets[0]) if rets else "return",
                      "score is not the GEMINI of predict_proba evaluated with the affinity of the same GEMINI object", line=f.lineno)
    # _infer's value must not depend on retain
    for K in pm.concrete_estimators():
        C, inf = pm.resolve_method(K, "_infer")
        if inf is None or C.external:
            continue
        site = f"{C.name}._infer independent of retain"
        cfg = CFG(inf)
        rets = [n for n in cfg.nodes if isinstance(n, ast.Return)]
        bad = None
        for r in rets:
            if any(isinstance(h, ast.If) and "retain" in norm_src(h.test) for h, _ in cfg.control_conditions(r)):
                bad = r
            stmts, inputs = cfg.backward_slice(r)
            for s in stmts:
                if any(isinstance(h, ast.If) and "retain" in norm_src(h.test) for h, _ in cfg.control_conditions(s)):
                    bad = s
            if "retain" in inputs:
                bad = r
        if bad is not None:
            ctx.violation("C04-c", C.unit.relpath, f"{C.name}._infer", norm_src(bad), "the value returned by _infer depends on retain", line=bad.lineno, site=site)
        else:
            ctx.ok("C04-c", site)


def _body_nodes(loop):
    return {n for n in ast.walk(loop) if isinstance(n, ast.stmt) and n is not loop}


# ------------------------------------------------------------------------------------------- controls
def controls(pm, tier):
    out = []

    def old_api(pm_):
        u = pm_.unit("gemclus._base_gemini")
        f = u.func("DiscriminativeModel.fit")
        for n in ast.walk(f):
            if isinstance(n, ast.Call) and call_name(n) == "validate_data":
                args = ", ".join(norm_src(a) for a in n.args[1:]) + "".join(f", {k.arg}={norm_src(k.value)}" for k in n.keywords)
                return {u.relpath: replace_node(u, n, f"self._validate_data({args})")}
        return None
    out.append({"name": "fit calls the removed BaseEstimator._validate_data", "rule": "C04-a", "apply": old_api})

    def bad_kw(pm_):
        u = pm_.unit("gemclus.mlcl")
        for n in ast.walk(u.tree):
            if isinstance(n, ast.keyword) and n.arg == "ensure_min_features":
                call = n._parent
                return {u.relpath: replace_node(u, call, norm_src(call).replace("ensure_min_features", "ensure_min_columns"))}
        return None
    out.append({"name": "check_array called with a keyword it does not have", "rule": "C04-a", "apply": bad_kw})

    def infer_in_predict(pm_):
        u = pm_.unit("gemclus._base_gemini")
        f = u.func("DiscriminativeModel.predict")
        for n in ast.walk(f):
            if isinstance(n, ast.Call) and call_name(n) == "self.predict_proba":
                return {u.relpath: replace_node(u, n, "self._infer(X, retain=False)")}
        return None
    out.append({"name": "predict bypasses predict_proba (breaks KernelRIM)", "rule": "C04-c", "also": ("C04-e",), "apply": infer_in_predict})

    def labels_axis(pm_):
        u = pm_.unit("gemclus._base_gemini")
        f = u.func("DiscriminativeModel.fit")
        for n in ast.walk(f):
            if isinstance(n, ast.Assign) and attr_chain(n.targets[0]) == "self.labels_":
                return {u.relpath: replace_node(u, n.value, "self._infer(X).argmax(0)")}
        return None
    out.append({"name": "labels_ arg-max over the sample axis", "rule": "C04-c", "apply": labels_axis})

    def retain_dependent(pm_):
        ci = pm_.classes["MLPModel"]
        f = ci.methods["_infer"]
        for n in f.body:
            if isinstance(n, ast.If) and norm_src(n.test) == "retain":
                return {ci.unit.relpath: replace_node(ci.unit, n, reindent(ast.unparse(n) + "\n    H = H * 1.0001", n.col_offset))}
        return None
    out.append({"name": "MLP output depends on retain", "rule": "C04-c", "apply": retain_dependent})

    def wrong_batch_rows(pm_):
        u = pm_.unit("gemclus._base_gemini")
        f = u.func("DiscriminativeModel._batchify")
        for n in ast.walk(f):
            if isinstance(n, ast.Assign) and norm_src(n.targets[0]) == "affinity_batch" and "batch_indices" in norm_src(n.value):
                return {u.relpath: replace_node(u, n.value, "affinity_matrix[batch_indices]")}
        return None
    out.append({"name": "affinity batch keeps all columns", "rule": "C04-e", "apply": wrong_batch_rows})

    def swapped_solver(pm_):
        u = pm_.unit("gemclus._base_gemini")
        f = u.func("DiscriminativeModel.fit")
        for n in ast.walk(f):
            if isinstance(n, ast.If) and "self.solver" in norm_src(n.test):
                return {u.relpath: replace_node(u, n.test, 'self.solver == "adam"')}
        return None
    out.append({"name": "solver test inverted", "rule": "C04-c", "apply": swapped_solver})

    def clamp_by_samples(pm_):
        u = pm_.unit("gemclus.tree.kauri")
        a = "max_features = min(X.shape[1], max(self.max_features, 1)) if self.max_features is not None else X.shape[1]"
        if a not in u.src:
            return None
        return {u.relpath: u.src.replace(a, "max_features = min(n, max(self.max_features, 1)) if self.max_features is not None else X.shape[1]", 1)}
    out.append({"name": "max_features clamped by the number of samples", "rule": "C04-f", "apply": clamp_by_samples})
    return out
