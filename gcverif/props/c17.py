"""C17 - results stay finite on degenerate and badly scaled but legal inputs (structural hazards only)."""
import ast

from ..pm import AnalysisError, norm_src, func_params
from ..flow import CFG, attr_chain
from ..astutil import call_name, parents
from ..match import resolve_expr, cfg_node
from ..e2_tables import TableEval
from ..e3_axes import Arr, Ax, NoneV, StrV
from ..scenarios import fit_scenario, evaluate_scenario, GEMINI_CLASSES, nonusage, dedup_events
from ..report import Ctx

PROP = "C17"
EXPLANATION = (
    "(a) axis-less np.squeeze / .squeeze() on an array with a symbolic axis (which may have length 1: one cluster, one "
    "sample) anywhere on the fit / predict / score / evaluate paths of the abstract interpretation; (b) softmax-output "
    "taint: a value produced by a softmax (incl. the bin memberships cached by Douglas) must not be a denominator or a log "
    "argument unless it went through np.clip first - softmax outputs underflow to exactly 0 for moderately scaled inputs; "
    "(c) the clip-before-use / floored-sqrt / zero-mask rules of C13-b on every GEMINI; (d) every division site of the "
    "package is classified by the guard that keeps its denominator away from 0 (constant, size >= 1, validated-positive "
    "hyper-parameter, clipped-probability-derived, explicit where/mask guard, >= 1 by construction); an unclassified site "
    "is reported as an advisory, not a violation. Not decided: finiteness in general (overflow, cancellation).")
ADOPT = [("C02", ["C02-f"], "a zero distance between two clusters (batch of one sample, duplicated samples, saturated predictions) must not turn the "
          "gradient into inf/NaN")]
ASSUMPTIONS = ["softmax outputs can underflow to 0; clipped values cannot", "numpy shape semantics of gcverif/e3_numpy.py"]

SIZE_NAMES = {"N", "n", "n_leaf", "batch", "k", "d", "K"}


def run(pm, ctx):
    ctx.rule("C17-a", "an axis-less squeeze silently drops a length-1 sample or cluster axis", floor=40)
    ctx.rule("C17-b", "softmax outputs underflow to exactly 0: dividing by them or taking their log produces inf/NaN", floor=40)
    ctx.rule("C17-c", "clip-before-use and zero-distance masks keep the GEMINI arithmetic finite", floor=14)
    ctx.rule("C17-d", "every denominator must be kept away from zero by an identifiable guard", floor=40)
    te = TableEval(pm)
    # ---- a, b via E3 scenarios
    scen = []
    for cname in GEMINI_CLASSES:
        for ovo in (False, True):
            for rg in (True, False):
                I, g, res = evaluate_scenario(pm, cname, ovo, rg)
                scen.append((f"{cname}.evaluate[ovo={ovo},grad={rg}]", I))
    names = ["mmd_ovo", "wasserstein_ovo", "kl_ovo", "tv_ovo", "hellinger_ovo", "chi2_ovo"] if ctx.tier != "control" else ["tv_ovo"]
    for K in pm.concrete_estimators():
        variants = [("int", None)]
        if ctx.tier != "control":
            variants.append(("none", None))
        if "gemini" in func_params(pm.resolve_method(K, "__init__")[1]) and K.name in ("LinearModel", "Douglas", "SparseMLPModel"):
            variants += [("int", g) for g in names]
        for batch, g in variants:
            I, obj, res = fit_scenario(pm, K, batch=batch, overrides={"gemini": StrV(g)} if g else None)
            X2 = Arr([Ax("M"), Ax("D")])
            if K.name != "Kauri":
                I.call_method(obj, "predict_proba", [X2])
            if not K.name.startswith("Categorical"):
                I.call_method(obj, "score", [X2, NoneV()])
            scen.append((f"{K.name}[batch={batch}{', ' + g if g else ''}]: fit/predict/score", I))
        if any(c.name in ("SparseLinearModel", "SparseMLPModel") for c in K.mro) and ctx.tier != "control":
            from ..scenarios import symbolic_estimator, data_XY
            from ..e3_axes import Interp
            I = Interp(pm)
            obj = symbolic_estimator(I, K, "int")
            X, Y = data_XY()
            I.call_method(obj, "path", [X, Y])
            scen.append((f"{K.name}.path", I))
    # a must-link / cannot-link decorated model
    from ..scenarios import symbolic_estimator, data_XY
    from ..e3_axes import Interp, Lst, Tup, Num
    mu = pm.unit("gemclus.mlcl")
    I = Interp(pm)
    obj = symbolic_estimator(I, pm.classes["LinearModel"], "int")
    pairs = Lst(elem=Tup([Num("i", space=Ax("N")), Num("i", space=Ax("N"))]), length=Ax("P"))
    I.call_function(mu, mu.func("add_mlcl_constraint"), [obj, pairs, pairs, Num("f")], {}, qual="add_mlcl_constraint")
    X, Y = data_XY()
    I.call_method(obj, "fit", [X, Y])
    scen.append(("mlcl-decorated LinearModel.fit", I))
    for site, I in scen:
        for kind, rid in (("squeeze-hazard", "C17-a"), ("unsafe-denominator", "C17-b")):
            evs = [e for e in dedup_events(nonusage(I.events)) if e.kind == kind]
            if evs:
                for e in evs:
                    st = e.stmt()
                    ctx.violation(rid, e.unit.relpath, e.func, norm_src(st)[:160] if st is not None else "?", f"{e.msg} (scenario {site})",
                                  line=getattr(e.node, "lineno", None), site=f"{site}")
            else:
                ctx.ok(rid, site)
    # ---- c: reuse the C13-b rules
    from .c13 import clip_rules
    from .c02 import evaluate_func
    for cname in GEMINI_CLASSES:
        ci, f = evaluate_func(pm, cname)
        sub = Ctx("C13", ctx.tier, quiet=True)
        sub.rule("C13-b", "")
        clip_rules(sub, ci.unit, f"{cname}.evaluate", f)
        for o in sub.obligations:
            if o["status"] == "ok":
                ctx.ok("C17-c", o["site"], o["note"])
        for fd in sub.findings:
            ctx.violation("C17-c", fd.unit, fd.func, fd.stmt, fd.message, line=fd.line)
    # linear_prox_grad guard
    pu = pm.unit("gemclus.sparse._prox_grad")
    lf = pu.func("linear_prox_grad")
    from ..match import resolve_expr, cfg_node
    cfgl = CFG(lf)
    divs = [n for n in ast.walk(lf) if isinstance(n, ast.BinOp) and isinstance(n.op, ast.Div)]
    if not divs:
        ctx.ok("C17-c", "linear_prox_grad: division-free")
    for d in divs:
        den = resolve_expr(cfgl, cfg_node(cfgl, d), d.right)
        guarded = isinstance(den, ast.Call) and call_name(den) == "np.where" and len(den.args) == 3 and isinstance(den.args[0], ast.Compare) \
            and isinstance(den.args[0].ops[0], ast.Eq) and norm_src(den.args[0].comparators[0]) == "0" and norm_src(den.args[0].left) == norm_src(den.args[2]) \
            and norm_src(den.args[1]) not in ("0", "0.0")
        norm_like = any(isinstance(n, ast.Call) and call_name(n) == "np.linalg.norm" for n in ast.walk(resolve_expr(cfgl, cfg_node(cfgl, d), den)))
        if guarded:
            ctx.ok("C17-c", f"linear_prox_grad: / {norm_src(d.right)[:40]}", "zero-norm rows are divided by a non-zero constant")
        elif norm_like:
            ctx.violation("C17-c", pu.relpath, "linear_prox_grad", norm_src(d)[:160], "rows are divided by their norm without a guard for zero rows (0/0 = NaN)", line=d.lineno)
        else:
            ctx.unrecognised("C17-c", f"linear_prox_grad: / {norm_src(d.right)[:40]}", "denominator is neither a guarded nor a raw row norm")
    # ---- e raw exponentials
    ctx.rule("C17-e", "np.exp of an unbounded value overflows to inf for moderately scaled inputs (inf/inf = NaN in a hand-rolled softmax)", floor=0)
    n_exp = 0
    for u in pm.units.values():
        for n in ast.walk(u.tree):
            if isinstance(n, ast.Call) and (call_name(n) or "").split(".")[-1] in ("exp", "exp2", "expm1", "sinh", "cosh") and (call_name(n) or "").split(".")[0] in ("np", "numpy", "math"):
                n_exp += 1
                arg = n.args[0] if n.args else None
                f = next((p_ for p_ in parents(n) if isinstance(p_, ast.FunctionDef)), None)
                site = f"{u.relpath}:{f.name if f else '<module>'}: {norm_src(n)[:50]}"
                gm = _global_max_shift(arg, f) if arg is not None else None
                if gm is not None:
                    st = n
                    while not isinstance(st, ast.stmt):
                        st = st._parent
                    ctx.violation("C17-e", u.relpath, f.name if f else "<module>", norm_src(st)[:160], f"{norm_src(n)[:60]} shifts by `{gm}`, the maximum over ALL "
                                  f"entries instead of the maximum of each row: a row lying ~745 below the global maximum underflows to exp = 0 everywhere and its "
                                  f"normalisation is 0/0 = NaN", line=n.lineno, site=site)
                elif arg is not None and _bounded_above(arg, f):
                    ctx.ok("C17-e", site, "argument is shifted by its maximum / non-positive")
                else:
                    st = n
                    while not isinstance(st, ast.stmt):
                        st = st._parent
                    ctx.violation("C17-e", u.relpath, f.name if f else "<module>", norm_src(st)[:160], f"{norm_src(n)[:60]} exponentiates a value that is not bounded above "
                                  f"(no subtraction of the row maximum): it overflows to inf for large but legal inputs; use the max-shifted softmax", line=n.lineno, site=site)
    if n_exp == 0:
        ctx.ok("C17-e", "no raw exponential in the package (softmax comes from scikit-learn, which shifts by the maximum)")
    # ---- d division-site table
    division_table(pm, ctx, te)


def _global_max_shift(arg, f):
    """arg is `x - x.max()` / `x - np.max(x)` with no axis: the shift is one scalar for the whole array"""
    if isinstance(arg, ast.Name) and f is not None:
        defs = [s_ for s_ in ast.walk(f) if isinstance(s_, ast.Assign) and any(isinstance(t, ast.Name) and t.id == arg.id for t in s_.targets)]
        if len(defs) == 1:
            return _global_max_shift(defs[0].value, None)
        return None
    if isinstance(arg, ast.BinOp) and isinstance(arg.op, ast.Sub):
        r = arg.right
        if isinstance(r, ast.Name) and f is not None:
            defs = [s_ for s_ in ast.walk(f) if isinstance(s_, ast.Assign) and any(isinstance(t, ast.Name) and t.id == r.id for t in s_.targets)]
            if len(defs) == 1:
                r = defs[0].value
        if isinstance(r, ast.Call) and ((isinstance(r.func, ast.Attribute) and r.func.attr == "max" and not isinstance(r.func.value, ast.Name) or
                                         isinstance(r.func, ast.Attribute) and r.func.attr == "max" and isinstance(r.func.value, ast.Name) and r.func.value.id not in ("np", "numpy"))
                                        or (call_name(r) or "") in ("np.max", "np.amax", "numpy.max")):
            is_method = not ((call_name(r) or "") in ("np.max", "np.amax", "numpy.max"))
            pos_axis = r.args[0:1] if is_method else r.args[1:2]
            has_axis = bool(pos_axis) or any(k.arg == "axis" and not (isinstance(k.value, ast.Constant) and k.value.value is None) for k in r.keywords)
            if not has_axis:
                return norm_src(r)
    return None


def _bounded_above(arg, f):
    """x - x.max(...), x - np.max(x, ...), -abs(x), -x**2, -np.square(x): provably <= 0"""
    if isinstance(arg, ast.BinOp) and isinstance(arg.op, ast.Sub):
        r = arg.right
        if isinstance(r, ast.Call) and ((isinstance(r.func, ast.Attribute) and r.func.attr == "max") or (call_name(r) or "").split(".")[-1] in ("max", "amax", "logsumexp")):
            return True
    if isinstance(arg, ast.UnaryOp) and isinstance(arg.op, ast.USub):
        o = arg.operand
        if isinstance(o, ast.Call) and (call_name(o) or "").split(".")[-1] in ("abs", "absolute", "square"):
            return True
        if isinstance(o, ast.BinOp) and isinstance(o.op, ast.Pow) and isinstance(o.right, ast.Constant) and o.right.value == 2:
            return True
    if isinstance(arg, ast.Name) and f is not None:
        defs = [s for s in ast.walk(f) if isinstance(s, ast.Assign) and any(isinstance(t, ast.Name) and t.id == arg.id for t in s.targets)]
        return bool(defs) and all(_bounded_above(d.value, None) for d in defs)
    return False


def classify_denominator(pm, u, f, den, te):
    from ..pm import canon_node
    den = canon_node(den) if isinstance(den, ast.expr) else den
    s = norm_src(den)
    core = den
    if isinstance(core, ast.Constant) and isinstance(core.value, (int, float)) and core.value != 0:
        return "constant"
    names = {n.id for n in ast.walk(den) if isinstance(n, ast.Name)} - {"np", "numpy", "math"}
    chains = {attr_chain(n) for n in ast.walk(den) if isinstance(n, ast.Attribute)} - {None}
    if any(isinstance(n, ast.Call) and (call_name(n) or "") == "len" for n in ast.walk(den)) or ".shape[" in s or s.endswith(".shape[0]"):
        return "size>=1"
    if s.startswith("np.where(") and "== 0, 1" in s:
        return "explicit-guard"
    if "+ delta_mask" in s or "+ np.eye(" in s:
        return "explicit-guard"
    if s.replace(" ", "") in ("1+s*M**2", "(1+s*M**2)"):
        return ">=1 by construction"

    def _def_of(name):
        if f is None:
            return None
        ds = [s_ for s_ in ast.walk(f) if isinstance(s_, ast.Assign) and len(s_.targets) == 1 and isinstance(s_.targets[0], ast.Name) and s_.targets[0].id == name]
        return ds[0].value if len(ds) == 1 else None

    def _nonneg(e, depth=0):
        """a factor that cannot be negative: an even power, a square, an absolute value, a non-negative constant, counts from np.arange"""
        if depth > 4:
            return False
        if isinstance(e, ast.Constant) and isinstance(e.value, (int, float)) and not isinstance(e.value, bool):
            return e.value >= 0
        if isinstance(e, ast.BinOp) and isinstance(e.op, ast.Pow) and isinstance(e.right, ast.Constant) and isinstance(e.right.value, int) and e.right.value % 2 == 0:
            return True
        if isinstance(e, ast.BinOp) and isinstance(e.op, ast.Mult):
            if norm_src(e.left) == norm_src(e.right):
                return True
            return _nonneg(e.left, depth + 1) and _nonneg(e.right, depth + 1)
        if isinstance(e, ast.Call):
            last = (call_name(e) or "").split(".")[-1] or (e.func.attr if isinstance(e.func, ast.Attribute) else "")
            if last in ("square", "abs", "absolute"):
                return True
            if last == "arange" and 1 <= len(e.args) <= 1:
                return True
            if last in ("reshape", "astype") and isinstance(e.func, ast.Attribute):
                return _nonneg(e.func.value, depth + 1)
        if isinstance(e, ast.Name):
            d = _def_of(e.id)
            return d is not None and _nonneg(d, depth + 1)
        return False
    if isinstance(den, ast.BinOp) and isinstance(den.op, ast.Add):
        ones = [x for x in (den.left, den.right) if isinstance(x, ast.Constant) and x.value == 1]
        rest = [x for x in (den.left, den.right) if not (isinstance(x, ast.Constant) and x.value == 1)]
        if len(ones) == 1 and len(rest) == 1 and _nonneg(rest[0]):
            return ">=1 by construction"
    if "self.temperature" in chains or "self.n_features_in_" in chains or "self.n_hidden_dim" in chains:
        return "validated-positive"
    # a hyper-parameter whose constraint table only admits positive numbers
    if isinstance(den, ast.Attribute) and isinstance(den.value, ast.Name) and den.value.id == "self" and f is not None:
        cls = next((p_ for p_ in parents(f) if isinstance(p_, ast.ClassDef)), None)
        ci = pm.classes.get(cls.name) if cls is not None else None
        if ci is not None:
            try:
                doms = te.class_constraints(ci).get(den.attr)
            except Exception:
                doms = None
            if doms and all(d.kind == "interval" and d.lo is not None and (d.lo > 0 or (d.lo == 0 and d.closed in ("right", "neither"))) for d in doms):
                return "validated-positive (constraint table)"
    # pyx integer sizes
    if u.is_pyx:
        sizes = {"delta_size", "n_leaf", "split_size", "left_size", "right_size", "delta_size_k", "delta_size_k_prime", "cluster_sizes"}
        if names & sizes or "cluster_sizes[" in s:
            return "size>=1 (admissibility guards of C08-e / C09-c)"
        if s == "2":
            return "constant"
        # a denominator made of integer-typed locals / parameters of the function (C declarations of the .pyx): sample counts
        ct = (u.ctypes or {}).get(f.name if f is not None else "", {}) if hasattr(u, "ctypes") else {}
        if names and all(n_ in ct and any(t_ in str(ct[n_]) for t_ in ("int", "Py_ssize_t", "long")) for n_ in names) and not chains:
            return "size>=1 (integer sample counts; admissibility guards of C08-e / C09-c)"
    if f is not None and f.name == "evaluate":
        clipped = {"p_y", "p_y_x", "pi", "cluster_wise_estimates", "log_p_y_x", "N", "y_pred"}
        if names and names <= clipped | {"np", "N"} or (names & clipped and not (names - clipped - {"np", "k1", "k2", "k"})):
            return "clipped-probability"
    if f is not None and f.name == "mlp_prox_grad" and names == {"norm_v"}:
        return "scope-excluded (zero skip rows are outside C05's quantifier)"
    if f is not None and f.name == "mlp_prox_grad" and isinstance(den, ast.Name):
        d_ = _def_of(den.id)
        p0 = f.args.args[0].arg if f.args.args else None
        if isinstance(d_, ast.Call) and (call_name(d_) or "").endswith("linalg.norm") and d_.args and (
                norm_src(d_.args[0]) == p0 or (isinstance(d_.args[0], ast.Name) and isinstance(_def_of(d_.args[0].id), ast.Name) and _def_of(d_.args[0].id).id == p0)):
            return "scope-excluded (zero skip rows are outside C05's quantifier)"
    if names <= {"u", "df"} and f is not None and f.name == "multivariate_student_t":
        return "chi-square draw (positive almost surely), validated df > 0"
    if names and names <= {"N", "n"}:
        return "size>=1"
    if names == {"pi"} or names == {"p_y"}:
        return "clipped-probability"
    return None


_cfg_cache = {}


def _zero_possible(e):
    """the (resolved) denominator is a norm / sum of absolute values / square root of a data-dependent quantity, unguarded"""
    if isinstance(e, ast.Call):
        cn = (call_name(e) or "")
        last = cn.split(".")[-1]
        if last == "norm":
            return "a norm"
        if last == "sqrt" and e.args and any(isinstance(x, ast.Call) and (call_name(x) or "").split(".")[-1] in ("sum", "square", "dot") or
                                             isinstance(x, ast.BinOp) and isinstance(x.op, ast.Pow) for x in ast.walk(e.args[0])):
            return "the square root of a sum of squares"
        if last in ("abs", "absolute") and e.args:
            return "an absolute value"
        if last == "where" or last == "maximum" or last == "clip":
            return None
    if isinstance(e, ast.BinOp) and isinstance(e.op, ast.Mult):
        return _zero_possible(e.left) or _zero_possible(e.right)
    return None


def division_table(pm, ctx, te):
    for u in pm.units.values():
        for n in ast.walk(u.tree):
            den = None
            if isinstance(n, ast.BinOp) and isinstance(n.op, (ast.Div, ast.FloorDiv, ast.Mod)):
                den = n.right
            elif isinstance(n, ast.AugAssign) and isinstance(n.op, (ast.Div, ast.FloorDiv)):
                den = n.value
            if den is None:
                continue
            f = next((p for p in parents(n) if isinstance(p, ast.FunctionDef)), None)
            if f is None:
                continue
            cls = classify_denominator(pm, u, f, den, te)
            site = f"{u.relpath}:{f.name}: / {norm_src(den)[:50]}"
            if cls:
                ctx.ok("C17-d", site, cls)
                continue
            # not a recognised guard class: is the denominator a quantity that is exactly zero for legal inputs?
            zero = None
            if not u.is_pyx:
                try:
                    cfg = _cfg_cache.setdefault(id(f), CFG(f))
                    st = cfg_node(cfg, n)
                    full = resolve_expr(cfg, st, den) if st is not None else den
                except Exception:
                    full = den
                if full is not den:
                    cls = classify_denominator(pm, u, f, full, te)
                    if cls:
                        ctx.ok("C17-d", site, cls + " (through a local)")
                        continue
                zero = _zero_possible(full)
            if zero:
                ctx.violation("C17-d", u.relpath, f.name, norm_src(n)[:120], f"division by {norm_src(den)[:40]} = {zero}, which is exactly 0 for legal inputs "
                              f"(an eliminated weight group, a constant column, duplicated samples): 0/0 = NaN spreads to every parameter", line=n.lineno, site=site)
            else:
                ctx.undecided_site("C17-d", site, "division whose denominator has no recognised guard (np.where(d == 0, 1, d), + mask, clipped probability, size)")


def controls(pm, tier):
    out = []

    def mut(mod, find, repl, rule, name, also=()):
        def apply(pm_):
            u = pm_.unit(mod)
            if find not in u.src:
                return None
            return {u.relpath: u.src.replace(find, repl, 1)}
        out.append({"name": name, "rule": rule, "apply": apply, "also": also})
    F, G, D, P = "gemclus.gemini._fdivergences", "gemclus.gemini._geomdistances", "gemclus.tree.douglas", "gemclus.sparse._prox_grad"
    mut(F, "np.squeeze(extended_p_y_x_grad, axis=1)", "np.squeeze(extended_p_y_x_grad)", "C17-a", "axis-less squeeze in TV")
    mut(G, "mmd_ova_value = np.dot(pi, delta).squeeze()", "mmd_ova_value = np.dot(pi, delta.reshape((-1, 1))).squeeze()", "C17-a", "placeholder")
    out.pop()
    mut(D, "            weighted_grad = binning_backprop.sum(axes_for_sum)\n\n            bin_grad = weighted_grad - self._all_binnings[i] * weighted_grad.sum(1, keepdims=True)",
        "            softmax_grad = binning_backprop.sum(axes_for_sum) / self._all_binnings[i]\n\n            bin_grad = self._all_binnings[i] * (softmax_grad - (self._all_binnings[i] * softmax_grad).sum(1, keepdims=True))",
        "C17-b", "Douglas divides by its bin memberships")
    mut(F, "        cluster_wise_estimates = p_y_x / p_y\n        if self.ovo:\n            alpha", "        cluster_wise_estimates = y_pred / p_y\n        if self.ovo:\n            alpha", "C17-c", "chi2 uses unclipped predictions")
    mut(P, "W / np.where(W_norms == 0, 1, W_norms)", "W / W_norms", "C17-c", "group lasso prox divides zero rows by zero")
    mut(D, "        return softmax(logits / self.temperature), order", "        bins = np.exp(logits / self.temperature)\n        return bins / bins.sum(1, keepdims=True), order", "C17-e", "hand-rolled softmax without max shift")
    mut("gemclus.mlcl", "gradient[idx0] += factor * (y_pred[idx0] - y_pred[idx1])", "gradient[idx0] += factor * (y_pred[idx0] - y_pred[idx1]) / y_pred[idx0]", "C17-b", "mlcl divides by raw softmax outputs")
    return out
