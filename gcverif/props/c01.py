"""C01 - GEMINI scores equal their defining distances: registry exactness and plumbing (numerical equality not decided)."""
import ast

from ..pm import AnalysisError, norm_src, func_params
from ..flow import CFG, attr_chain
from ..astutil import call_name
from ..e2_tables import TableEval, constructor_contract
from ..e3_axes import Interp, Arr, Num, Ax, NoneV, StrV, Obj, Frame, is_top
from ..scenarios import evaluate_scenario, GEMINI_CLASSES

PROP = "C01"
EXPLANATION = (
    "(a) registry exactness: _str_to_gemini is evaluated abstractly for each of the names in AVAILABLE_GEMINIS; the "
    "result must be an instance of the class documented for the name prefix (mmd, wasserstein, kl, tv, hellinger, chi2; 'mi' = "
    "KL one-vs-all) whose ovo attribute equals (suffix == 'ovo'); no listed name falls through to None, no name handled by the "
    "function is missing from the list, and the `gemini` constraint of the estimators is exactly that list; (b) ovo plumbing: "
    "constructors store ovo verbatim, every evaluate tests self.ovo un-negated, __call__ forwards (y_pred, affinity, "
    "return_grad) in order; (c) pairwise structure: for TV, MMD and Wasserstein the one-vs-one evaluation computes a value with "
    "two cluster axes and the one-vs-all evaluation does not (a cluster-vs-cluster distance needs cross-cluster terms); (d) the "
    "f-divergence family needs no affinity (compute_affinity returns None). (e) each closed form equals the named divergence: evaluate() "
    "is translated to an index-notation term with symbolic sizes (gcverif.e8_numpy) and compared, as a canonical form on the simplex "
    "(sum_k P[i,k] = 1), with the term of the reference definition written from the documented definition in gcverif/gemini_specs.py "
    "(pi-weighted KL / TV / squared Hellinger / (chi2+1)/2 / kernel MMD / Wasserstein-1 between cluster conditionals and the data "
    "distribution, or between pairs of cluster conditionals); all n and K at once, both modes, 6 classes (MI inherits KL one-vs-all, "
    "checked in (a)).")
from ..e8_gemini import ASSUMPTIONS as E8_ASSUMPTIONS
ADOPT = [("C13", ["C13-d"], "a score (and its gradient) is a function of the predictions and the affinity alone: a value cached on the objective and reused on the evidence of identity or shape makes it depend on earlier calls")]
ASSUMPTIONS = E8_ASSUMPTIONS + ["the naming convention <distance>_<ova|ovo> stated by the property", "numpy shape semantics of gcverif/e3_numpy.py"]

PREFIX = {"mmd": "MMDGEMINI", "wasserstein": "WassersteinGEMINI", "kl": "KLGEMINI", "tv": "TVGEMINI", "hellinger": "HellingerGEMINI",
          "chi2": "ChiSquareGEMINI", "mi": "KLGEMINI"}


def expected(name):
    if name == "mi":
        return "KLGEMINI", False
    parts = name.rsplit("_", 1)
    if len(parts) != 2 or parts[1] not in ("ova", "ovo") or parts[0] not in PREFIX:
        return None, None
    return PREFIX[parts[0]], parts[1] == "ovo"


def registry_eval(pm, name):
    u = pm.unit("gemclus.gemini._utils")
    f = u.func("_str_to_gemini")
    I = Interp(pm)
    res = I.call_function(u, f, [StrV(name)], {}, qual="_str_to_gemini")
    return res


FLOAT_DTYPES = {"np.float64", "float", "np.double", "np.float_", "'float64'", '"float64"', "np.float32", "'float'", '"float"', "np.longdouble"}


def buffer_dtypes(pm, ctx):
    """an integer distance matrix (precomputed hop counts, Hamming counts, Manhattan distances on a grid) is a legal affinity:
    a buffer that inherits its dtype truncates every transport cost / distance stored in it"""
    n_sites = 0
    for cname in ("KLGEMINI", "TVGEMINI", "HellingerGEMINI", "ChiSquareGEMINI", "MMDGEMINI", "WassersteinGEMINI"):
        ci = pm.classes.get(cname)
        f = ci.methods.get("evaluate") if ci else None
        if f is None:
            raise AnalysisError(f"anchor vanished: {cname}.evaluate")
        params = func_params(f)
        for n in ast.walk(f):
            if not isinstance(n, ast.Call):
                continue
            cn = call_name(n) or ""
            last = cn.split(".")[-1]
            if last in ("zeros", "empty", "ones", "full") and cn.split(".")[0] in ("np", "numpy"):
                n_sites += 1
                site = f"{cname}.evaluate: {norm_src(n)[:50]}"
                dt = next((k.value for k in n.keywords if k.arg == "dtype"), None)
                if dt is None and last != "full" and len(n.args) > 1:
                    dt = n.args[1]
                if dt is None:
                    ctx.ok("C01-f", site, "default float64")
                    continue
                src = norm_src(dt)
                if src in FLOAT_DTYPES:
                    ctx.ok("C01-f", site, src)
                elif isinstance(dt, ast.Attribute) and dt.attr == "dtype" and isinstance(dt.value, ast.Name) and dt.value.id in params:
                    ctx.violation("C01-f", ci.unit.relpath, f"{cname}.evaluate", norm_src(n)[:120], f"the buffer takes the dtype of the argument `{dt.value.id}`: with an integer "
                                  f"{dt.value.id} (a precomputed distance matrix of counts) every value stored in it is truncated to an integer, so the score is no longer the "
                                  f"documented distance", line=n.lineno, site=site)
                elif src in ("int", "np.int64", "np.int32", "np.intp", "bool", "np.int_"):
                    ctx.violation("C01-f", ci.unit.relpath, f"{cname}.evaluate", norm_src(n)[:120], f"integer buffer ({src}) for real-valued distances", line=n.lineno, site=site)
                else:
                    ctx.unrecognised("C01-f", site, f"dtype expression {src}")
            elif last in ("zeros_like", "empty_like", "ones_like", "full_like") and cn.split(".")[0] in ("np", "numpy") and n.args:
                n_sites += 1
                site = f"{cname}.evaluate: {norm_src(n)[:50]}"
                dt = next((k.value for k in n.keywords if k.arg == "dtype"), None)
                base = n.args[0]
                if dt is not None and norm_src(dt) in FLOAT_DTYPES:
                    ctx.ok("C01-f", site, norm_src(dt))
                elif isinstance(base, ast.Name) and len(params) > 2 and base.id == params[2] and dt is None:
                    ctx.violation("C01-f", ci.unit.relpath, f"{cname}.evaluate", norm_src(n)[:120], f"the buffer takes the dtype of the affinity matrix: integer distances truncate the "
                                  f"stored values", line=n.lineno, site=site)
                else:
                    ctx.ok("C01-f", site, "shaped like a floating-point array")
    if n_sites == 0:
        ctx.ok("C01-f", "no explicitly allocated buffer in evaluate()")


def score_is_definition(pm, ctx):
    from ..e8_gemini import check_score
    from ..e8_index import Unsupported
    from ..gemini_specs import SPECS
    for (cname, ovo) in SPECS:
        ci = pm.classes.get(cname)
        if ci is None or "evaluate" not in ci.methods:
            raise AnalysisError(f"anchor vanished: {cname}.evaluate")
        f = ci.methods["evaluate"]
        site = f"{cname}.evaluate[ovo={ovo}]: score = definition"
        try:
            status, detail = check_score(pm, cname, ovo)
        except Unsupported as e:
            ctx.unrecognised("C01-e", site, f"outside the translated numpy subset: {e}")
            continue
        except RecursionError:
            ctx.unrecognised("C01-e", site, "term too deep")
            continue
        if status == "equal":
            ctx.ok("C01-e", site)
            if ctx.tier == "thorough":
                from ..e8_gemini import cross_check_instances
                try:
                    what, ok_ = cross_check_instances(pm, cname, ovo)[1]
                    if ok_:
                        ctx.ok("C01-e", site + " [finite instances]", what)
                    else:
                        ctx.undecided_site("C01-e", site + " [finite instances]", "the expanded instances disagree with the symbolic verdict: normaliser unsound - " + what)
                except Unsupported as e:
                    ctx.undecided_site("C01-e", site + " [finite instances]", f"cannot expand: {e}")
        elif status == "undecided":
            ctx.undecided_site("C01-e", site, detail)
        else:
            ctx.violation("C01-e", ci.unit.relpath, f"{cname}.evaluate", f"score[ovo={ovo}]", f"the {'one-vs-one' if ovo else 'one-vs-all'} score is not the "
                          f"documented distance: {detail}", line=f.lineno, site=site)


def run(pm, ctx):
    ctx.rule("C01-a", "a registry name must select the objective and the mode it names", floor=13)
    ctx.rule("C01-b", "the ovo flag must reach the branch that implements it", floor=12)
    ctx.rule("C01-c", "a one-vs-one distance needs cluster-vs-cluster terms; a one-vs-all distance does not", floor=6)
    ctx.rule("C01-d", "f-divergences are computed from the predictions alone", floor=1)
    ctx.rule("C01-f", "distances and scores are accumulated in floating-point buffers whatever the dtype of the affinity matrix", floor=2)
    buffer_dtypes(pm, ctx)
    ctx.rule("C01-e", "the closed form computed by evaluate() is the documented statistical distance (canonical-form equality with the "
             "reference definition on the simplex)", floor=12)
    score_is_definition(pm, ctx)
    te = TableEval(pm)
    u = pm.unit("gemclus.gemini._utils")
    f = u.func("_str_to_gemini")
    names = sorted(te.imported_str_set("gemclus.gemini._utils", "AVAILABLE_GEMINIS"))
    if len(names) < 5:
        raise AnalysisError("AVAILABLE_GEMINIS has fewer than 5 names")
    for name in names:
        site = f"_str_to_gemini({name!r})"
        cls, ovo = expected(name)
        if cls is None:
            ctx.violation("C01-a", u.relpath, "_str_to_gemini", f"name {name}", f"{name!r} does not follow the <distance>_<ova|ovo> convention and is not 'mi'",
                          line=f.lineno, site=site)
            continue
        res = registry_eval(pm, name)
        if isinstance(res, NoneV) or res is None:
            ctx.violation("C01-a", u.relpath, "_str_to_gemini", f"name {name}", f"{name!r} is listed but falls through to None", line=f.lineno, site=site)
            continue
        if not isinstance(res, Obj) or res.cls is None:
            ctx.undecided_site("C01-a", site, f"abstract result {res!r}")
            continue
        got_cls = [c.name for c in res.cls.mro if not c.external]
        got_ovo = res.attrs.get("ovo")
        ovo_c = got_ovo.const if isinstance(got_ovo, Num) else None
        if cls in got_cls and ovo_c is not None and bool(ovo_c) == ovo:
            ctx.ok("C01-a", site, f"{res.cls.name}(ovo={bool(ovo_c)})")
        else:
            stmt = _return_for(f, name)
            ctx.violation("C01-a", u.relpath, "_str_to_gemini", norm_src(stmt) if stmt is not None else name,
                          f"{name!r} builds {res.cls.name}(ovo={ovo_c}) but names {cls}(ovo={ovo})", line=(stmt.lineno if stmt is not None else f.lineno), site=site)
    # names handled but not listed
    handled = set()
    for n in ast.walk(f):
        if isinstance(n, ast.Compare) and isinstance(n.ops[0], ast.Eq):
            for x in [n.left] + n.comparators:
                if isinstance(x, ast.Constant) and isinstance(x.value, str):
                    handled.add(x.value)
    # a string the function compares with is only "handled" if calling the function with it builds an objective
    extra = sorted(x for x in handled - set(names) if isinstance(registry_eval(pm, x), Obj))
    if extra:
        ctx.violation("C01-a", u.relpath, "_str_to_gemini", f"names {extra}", f"{extra} are handled by _str_to_gemini but not offered in AVAILABLE_GEMINIS", line=f.lineno,
                      site="handled-but-unlisted")
    else:
        ctx.ok("C01-a", "every handled name is listed")
    # unknown names raise: the function is evaluated on a name outside the list; the only outcome may be a raise
    I0 = Interp(pm)
    res0 = I0.call_function(u, f, [StrV("__not-a-gemini__")], {}, qual="_str_to_gemini")
    raised = [st for q, st in I0.raise_log if q == "_str_to_gemini"]
    if raised and (res0 is None or isinstance(res0, NoneV)):
        ctx.ok("C01-a", "unknown names raise before the dispatch")
    elif isinstance(res0, Obj):
        ctx.violation("C01-a", u.relpath, "_str_to_gemini", "unknown-name guard", f"a name outside AVAILABLE_GEMINIS builds {res0!r} instead of being rejected", line=f.lineno, site="unknown names")
    elif not raised and (res0 is None or isinstance(res0, NoneV)):
        ctx.violation("C01-a", u.relpath, "_str_to_gemini", "unknown-name guard", "unknown names are not rejected: the function returns None for them", line=f.lineno, site="unknown names")
    else:
        ctx.undecided_site("C01-a", "unknown names", f"abstract outcome for an unknown name: {res0!r}")
    # estimator constraint is the list
    tab = te.class_constraints(pm.classes["DiscriminativeModel"])
    strs = [d for d in tab.get("gemini", []) if d.kind == "strs"]
    if len(strs) == 1 and strs[0].values == frozenset(names):
        ctx.ok("C01-a", "DiscriminativeModel.gemini constraint == AVAILABLE_GEMINIS")
    else:
        ctx.violation("C01-a", pm.classes["DiscriminativeModel"].unit.relpath, "DiscriminativeModel", "constraint of gemini",
                      "the string options of `gemini` differ from AVAILABLE_GEMINIS", line=pm.classes["DiscriminativeModel"].node.lineno, site="gemini constraint")

    # ---- b plumbing
    for cname in GEMINI_CLASSES:
        ci = pm.classes.get(cname)
        if ci is None:
            raise AnalysisError(f"anchor vanished: {cname}")
        probs, how, consts = constructor_contract(pm, ci)
        site = f"{cname}: ovo stored"
        if how.get("ovo") == "stored" and not [p for p in probs if "ovo" in p[2]]:
            ctx.ok("C01-b", site)
        else:
            ctx.violation("C01-b", ci.unit.relpath, f"{cname}.__init__", "self.ovo", "ovo is not stored verbatim", line=ci.node.lineno, site=site)
        ev = ci.methods.get("evaluate")
        tests = [n for n in ast.walk(ev) if isinstance(n, ast.If) and "ovo" in norm_src(n.test)]
        site = f"{cname}.evaluate: branches on self.ovo"
        if tests and all(norm_src(t.test) == "self.ovo" for t in tests):
            ctx.ok("C01-b", site, f"{len(tests)} tests")
        else:
            bad = next((t for t in tests if norm_src(t.test) != "self.ovo"), None)
            ctx.violation("C01-b", ci.unit.relpath, f"{cname}.evaluate", norm_src(bad.test) if bad is not None else "self.ovo",
                          "the mode test is not the plain `self.ovo`" if bad is not None else "evaluate never looks at self.ovo", line=(bad or ev).lineno, site=site)
    mi = pm.classes.get("MI")
    if mi is not None:
        probs, how, consts = constructor_contract(pm, mi)
        v = consts.get("ovo")
        if isinstance(v, ast.Constant) and v.value is False and not probs:
            ctx.ok("C01-b", "MI = KLGEMINI(ovo=False)")
        else:
            ctx.violation("C01-b", mi.unit.relpath, "MI.__init__", "super().__init__", "MI does not fix ovo=False", line=mi.node.lineno, site="MI")
    base = pm.classes.get("_GEMINI")
    call = base.methods.get("__call__")
    rets = [n for n in ast.walk(call) if isinstance(n, ast.Return)]
    params = func_params(call)[1:]
    if len(rets) == 1 and isinstance(rets[0].value, ast.Call) and call_name(rets[0].value) == "self.evaluate" and [norm_src(a) for a in rets[0].value.args] == params:
        ctx.ok("C01-b", "_GEMINI.__call__ forwards its arguments to evaluate in order")
    else:
        ctx.violation("C01-b", base.unit.relpath, "_GEMINI.__call__", norm_src(rets[0]) if rets else "return", "__call__ does not forward (y_pred, affinity, return_grad) "
                      "to evaluate in order", line=call.lineno, site="__call__")

    # ---- c pairwise structure
    for cname in ("TVGEMINI", "MMDGEMINI", "WassersteinGEMINI"):
        for ovo in (True, False):
            vals = []
            I_box = [None]

            def hook(st, fr, value, events, vals=vals):
                if isinstance(value, Arr) and any(q_.endswith(".evaluate") for q_ in [fr.qual] + [getattr(f_, "qual", "") for f_ in getattr(I_box[0], "stack", [])]):
                    vals.append((st, value))
            I = Interp(pm)
            I_box[0] = I
            I.stmt_hook = hook
            ci = pm.classes[cname]
            g = I.construct(ci, [], {"ovo": Num("b", const=ovo)}, None)
            N, K = Ax("N"), Ax("K")
            res = I.call_method(g, "evaluate", [Arr([N, K]), Arr([N, N]), Num("b", const=False)])
            pair = [(st, v) for st, v in vals if sum(1 for a in v.axes if a.name == "K") >= 2]
            site = f"{cname}.evaluate[ovo={ovo}]: pairwise tensor"
            if ovo and pair:
                ctx.ok("C01-c", site, f"{norm_src(pair[0][0])[:60]} : {pair[0][1]!r}")
            elif ovo and (I.top_log or is_top(res)):
                ctx.undecided_site("C01-c", site, f"the abstract interpretation lost a value ({(I.top_log[0][0] if I.top_log else 'result unknown')})")
            elif ovo:
                ctx.violation("C01-c", ci.unit.relpath, f"{cname}.evaluate", "one-vs-one branch", "the one-vs-one score is computed without any cluster-by-cluster quantity",
                              line=ci.methods["evaluate"].lineno, site=site)
            elif pair:
                st, v = pair[0]
                ctx.violation("C01-c", ci.unit.relpath, f"{cname}.evaluate", norm_src(st)[:160], f"the one-vs-all score is computed from a cluster-by-cluster quantity {v!r}",
                              line=st.lineno, site=site)
            else:
                ctx.ok("C01-c", site, "no [K,K] value")
    # ---- d
    fd = pm.classes.get("_FDivergence")
    ca = fd.methods.get("compute_affinity") if fd else None
    if ca is not None and [norm_src(s) for s in ca.body if not (isinstance(s, ast.Expr) and isinstance(s.value, ast.Constant))] == ["return None"]:
        ctx.ok("C01-d", "_FDivergence.compute_affinity returns None")
    else:
        ctx.violation("C01-d", fd.unit.relpath if fd else "?", "_FDivergence.compute_affinity", "return", "f-divergences no longer return a None affinity", line=(ca.lineno if ca else 1))


def _return_for(f, name):
    for n in ast.walk(f):
        if isinstance(n, ast.If) and any(isinstance(c, ast.Constant) and c.value == name for x in ast.walk(n.test) for c in [x]):
            for s in n.body:
                if isinstance(s, ast.Return):
                    return s
    return None


def controls(pm, tier):
    out = []

    def mut(mod, find, repl, rule, name, also=()):
        def apply(pm_):
            u = pm_.unit(mod)
            if find not in u.src:
                return None
            return {u.relpath: u.src.replace(find, repl, 1)}
        out.append({"name": name, "rule": rule, "apply": apply, "also": also})
    U, F, G = "gemclus.gemini._utils", "gemclus.gemini._fdivergences", "gemclus.gemini._geomdistances"
    mut(U, '    elif gemini_str == "tv_ovo":\n        return TVGEMINI(ovo=True)', '    elif gemini_str == "tv_ovo":\n        return TVGEMINI()', "C01-a", "tv_ovo builds the one-vs-all objective")
    mut(U, '    elif gemini_str == "hellinger_ova":\n        return HellingerGEMINI()', '    elif gemini_str == "hellinger_ova":\n        return ChiSquareGEMINI()', "C01-a", "hellinger_ova builds chi2")
    mut(U, '    elif gemini_str == "chi2_ovo":\n        return ChiSquareGEMINI(ovo=True)', '    elif gemini_str == "chi2_ov0":\n        return ChiSquareGEMINI(ovo=True)', "C01-a", "chi2_ovo falls through to None")
    mut(F, "        super().__init__(ovo=False, epsilon=epsilon)", "        super().__init__(ovo=True, epsilon=epsilon)", "C01-b", "MI becomes one-vs-one", also=("C01-a",))
    mut(G, "        if self.ovo:\n            omega = alpha.T @ gamma", "        if not self.ovo:\n            omega = alpha.T @ gamma", "C01-b", "MMD branches swapped", also=("C01-c",))
    mut(F, "        if self.ovo:\n            # Extend to 3d tensors", "        if self.ovo and False:\n            # Extend to 3d tensors", "C01-c", "TV one-vs-one computes the one-vs-all difference", also=("C01-b",))
    mut(F, "            mutual_information = prediction_entropy - cluster_entropy", "            mutual_information = prediction_entropy - 0.5 * cluster_entropy",
        "C01-e", "KL one-vs-all: half of the cluster entropy")
    mut(F, "        tv_gemini = 0.5 * np.sum(pseudo_estimates)", "        tv_gemini = np.sum(pseudo_estimates)", "C01-e", "TV loses its factor 1/2")
    mut(F, "            estimates = np.square(estimates)\n", "            estimates = estimates * 1\n", "C01-e", "Hellinger one-vs-one without the square")
    mut(F, "            chi2_gemini = np.mean(alpha*beta)", "            chi2_gemini = np.mean(alpha*alpha)", "C01-e", "chi2 one-vs-one with alpha twice")
    mut(G, "            delta = np.sqrt(np.maximum(a + c - 2 * b, 0))", "            delta = np.sqrt(np.maximum(a + c - b, 0))", "C01-e", "MMD one-vs-all cross term counted once")
    mut(G, "            mmd_ovo_value = (pi @ delta @ pi.T).squeeze()", "            mmd_ovo_value = (delta @ pi.T).sum()", "C01-e", "MMD one-vs-one loses one pi weight")
    mut(G, "            wasserstein_ova_value = np.dot(pi, wasserstein_distances)", "            wasserstein_ova_value = np.sum(wasserstein_distances)", "C01-e",
        "Wasserstein one-vs-all unweighted")
    mut(G, "        wy = np.ascontiguousarray((y_pred / (pi.reshape((1, -1)) * N)).T)", "        wy = np.ascontiguousarray((y_pred / (pi.reshape((1, -1)))).T)", "C01-e",
        "cluster conditionals not normalised")
    mut(G, "            delta = np.sqrt(np.maximum(a + c - 2 * b, 0))", "            delta = np.sqrt(np.maximum(a + c - 2 * b, 0) + self.epsilon)", "C01-e",
        "epsilon under the square root")
    mut(G, "            wasserstein_distances = np.zeros((K, K))", "            wasserstein_distances = np.zeros((K, K), dtype=affinity.dtype)", "C01-f", "distance buffer inherits the affinity dtype")
    return out
