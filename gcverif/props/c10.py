"""C10 - mini-batches partition the data and stay aligned with the affinity matrix."""
import ast
import re

from ..pm import AnalysisError, norm_src, func_params
from ..flow import implied_literals, CFG, ENTRY, attr_chain
from ..astutil import replace_node, call_name, parents
from ..e6_algebra import to_rat, Rat, Poly, NotScalarArithmetic, forward_env
from ..e2_tables import TableEval
from ..e3_axes import Interp, Arr, Num, Ax, NoneV, Tup, Gen, Obj, is_top
from ..scenarios import symbolic_estimator, nonusage, dedup_events
from ..match import equal_resolved, expect_assign, expect_call, canon_equal

PROP = "C10"
LEVEL = "other"
EXPLANATION = (
    "(a) strided-slice partition idiom, decided on the CFG with canonical forms: a permutation (or the identity) of len(X), "
    "a counter whose only reaching definition at loop entry is the constant 0, a loop test equivalent to counter < len(X), a "
    "slice [counter : counter + b], a single step counter += b with the same, un-reassigned, positive b at the end of every "
    "iteration => the blocks are disjoint, cover every index once and hold at most b rows; (b) alignment: one index variable "
    "with one reaching definition subscripts the rows of X and both axes of the affinity, confirmed by the named-axis "
    "interpretation of the generator ([B,D],[B,B]) or ([B,D],None); (c) one training step per yielded batch inside "
    "range(max_iter), the affinity given to _batchify is compute_affinity of the same X; (d) the nonparametric override yields "
    "(X, affinity) exactly once; (e) the mlcl wrapper drives the wrapped generator with arange(len(X)), stores the yielded "
    "sample ids before yielding X[ids] and the untouched affinity block; (f) the validation score uses sequential blocks, the "
    "same slice on rows and columns, weights len(block) and divides by len(X).")
ADOPT = [("C12", ["C12-a"], "batch_size (like every hyper-parameter) reaches _batchify only if the constructor stores or forwards it")]
ASSUMPTIONS = ["RandomState.permutation(n) returns a permutation of range(n)", "numpy basic/advanced indexing semantics",
               "batch_size >= 1 by the validated constraint"]


def find_partition_loop(f):
    """locate `while <counter> < len(<data>)` loops; returns list of dict descriptions"""
    out = []
    cfg = CFG(f)
    for w in [n for n in cfg.nodes if isinstance(n, ast.While)]:
        t = w.test
        stepped = [s.target.id for s in ast.walk(w) if isinstance(s, ast.AugAssign) and isinstance(s.target, ast.Name)]
        stepped += [s.targets[0].id for s in ast.walk(w) if isinstance(s, ast.Assign) and isinstance(s.targets[0], ast.Name)
                    and any(isinstance(n, ast.Name) and n.id == s.targets[0].id for n in ast.walk(s.value))]
        names = [n.id for n in ast.walk(t) if isinstance(n, ast.Name) and n.id in stepped]
        if not isinstance(t, ast.Compare) or len(set(names)) != 1:
            continue
        out.append({"loop": w, "cfg": cfg, "counter": names[0], "test": t})
    return out


def check_partition(ctx, rid, unit, qn, f, data="X", site_prefix=""):
    """returns (ok, slice_exprs, step name) after recording obligations for the idiom"""
    loops = find_partition_loop(f)
    site = f"{qn}: partition idiom"
    if len(loops) != 1:
        if check_range_partition(ctx, rid, unit, qn, f, data, site):
            return None
        if check_array_split_partition(ctx, rid, unit, qn, f, data, site):
            return None
        ctx.undecided_site(rid, site, f"{len(loops)} candidate batching loops")
        return None
    L = loops[0]
    w, cfg, j = L["loop"], L["cfg"], L["counter"]
    problems = []
    # loop test: j < len(data)
    t = L["test"]
    try:
        from ..e6_algebra import compare_normal
        from ..match import resolve_expr
        try:
            t = resolve_expr(cfg, w, t)        # `n = len(X)` bound once before the loop: the test is read through it
        except Exception:
            pass
        diff, op = compare_normal(t)
        want = to_rat(ast.parse(f"len({data}) - {j}", mode="eval").body)
        want2 = to_rat(ast.parse(f"{data}.shape[0] - {j}", mode="eval").body)
        if not (op == ">" and (diff.equals(want) or diff.equals(want2))):
            problems.append(f"loop test `{norm_src(t)}` is not equivalent to `{j} < len({data})`")
    except NotScalarArithmetic:
        problems.append(f"loop test `{norm_src(t)}` is not `{j} < len({data})`")
    # counter initialised to 0: reaching defs at the loop header from outside the loop
    rd = cfg.reaching()
    body_nodes = {n for n in ast.walk(w) if isinstance(n, ast.stmt) and n is not w}
    outer = [d for d in rd[w].get(j, frozenset()) if d not in body_nodes]
    if not (len(outer) == 1 and isinstance(outer[0], ast.Assign) and isinstance(outer[0].value, ast.Constant) and outer[0].value.value == 0):
        problems.append(f"the counter {j} does not start at 0")
    inner = [d for d in rd[w].get(j, frozenset()) if d in body_nodes]
    steps = [s for s in inner if isinstance(s, ast.AugAssign) and isinstance(s.op, ast.Add)]
    if not steps:
        # j = j + b  /  j = b + j
        for s_ in inner:
            if isinstance(s_, ast.Assign) and isinstance(s_.value, ast.BinOp) and isinstance(s_.value.op, ast.Add):
                l_, r_ = s_.value.left, s_.value.right
                other = r_ if (isinstance(l_, ast.Name) and l_.id == j) else (l_ if (isinstance(r_, ast.Name) and r_.id == j) else None)
                if other is not None:
                    aug = ast.AugAssign(target=ast.Name(id=j, ctx=ast.Store()), op=ast.Add(), value=other)
                    ast.copy_location(aug, s_)
                    aug._orig = s_
                    steps.append(aug)
    if len(inner) != 1 or len(steps) != 1:
        problems.append(f"the counter {j} is not advanced by exactly one `+=` per iteration")
        ctx.violation(rid, unit.relpath, qn, norm_src(w.test), "; ".join(problems), line=w.lineno, site=site)
        return None
    step = steps[0]
    # step is the last statement of the body and not under a condition; no continue/break
    if w.body[-1] is not getattr(step, "_orig", step):
        problems.append("the step is not the last unconditional statement of the loop body")
    if any(isinstance(n, (ast.Continue, ast.Break, ast.Return)) for n in ast.walk(w)):
        problems.append("the loop has a continue/break/return")
    # slices [j : j + b]
    slices = []
    for n in ast.walk(w):
        if isinstance(n, ast.Slice) and n.lower is not None and any(isinstance(x, ast.Name) and x.id == j for x in ast.walk(n.lower)):
            slices.append(n)
    if not slices:
        problems.append("no slice starting at the counter")
    try:
        stepv = to_rat(step.value)
        for s in slices:
            if s.step is not None or s.upper is None:
                problems.append(f"slice {norm_src(s)} has a stride / no upper bound")
                continue
            lo, hi = to_rat(s.lower), to_rat(s.upper)
            if not lo.equals(to_rat(ast.parse(j, mode="eval").body)):
                problems.append(f"slice {norm_src(s)} does not start at the counter")
            if not (hi - lo).equals(stepv):
                problems.append(f"slice {norm_src(s)} has width {hi - lo}, but the counter advances by {stepv}")
    except NotScalarArithmetic as e:
        problems.append(f"non-arithmetic slice bound {e}")
    # b is not reassigned inside the loop and is positive
    bnames = {n.id for n in ast.walk(step.value) if isinstance(n, ast.Name)}
    for b in bnames:
        if any(d in body_nodes for d in rd[getattr(step, "_orig", step)].get(b, frozenset())):
            problems.append(f"the batch size {b} changes inside the loop")
    if problems:
        ctx.violation(rid, unit.relpath, qn, norm_src(w.test) + " ... " + norm_src(step), "; ".join(problems), line=w.lineno, site=site)
        return None
    ctx.ok(rid, site, f"counter {j} from 0, test {norm_src(t)}, slices {[norm_src(s) for s in slices]}, step {norm_src(step)}")
    return {"loop": w, "cfg": cfg, "counter": j, "slices": slices, "step": step, "bnames": bnames}


def check_range_partition(ctx, rid, unit, qn, f, data, site):
    """alternative idiom: for b in range(nb): idx[b*s:(b+1)*s]. The blocks cover all len(data) items iff nb*s >= len(data),
    i.e. nb is the ceiling of len/s. Returns True when the idiom was recognised and judged."""
    from ..match import resolve_expr
    cfg = CFG(f)
    for lp in [n for n in cfg.nodes if isinstance(n, ast.For)]:
        if not (isinstance(lp.iter, ast.Call) and call_name(lp.iter) == "range" and len(lp.iter.args) == 1 and isinstance(lp.target, ast.Name)):
            continue
        b = lp.target.id
        sls = [n for n in ast.walk(lp) if isinstance(n, ast.Slice) and n.lower is not None and n.upper is not None and n.step is None
               and any(isinstance(x, ast.Name) and x.id == b for x in ast.walk(n.lower))]
        if not sls:
            continue
        sl = sls[0]
        try:
            lo, hi = to_rat(sl.lower), to_rat(sl.upper)
            width = hi - lo
            bvar = to_rat(ast.parse(b, mode="eval").body)
            if not lo.equals(bvar * width):
                continue
        except NotScalarArithmetic:
            continue
        nb = resolve_expr(cfg, lp, lp.iter.args[0])
        wsrc = None
        for n in ast.walk(sl.upper):
            pass
        # width as source text: the factor multiplying b in the lower bound
        wtxt = norm_src(sl.lower).replace(f"{b} * ", "").replace(f" * {b}", "")
        L = f"len({data})"
        floor_forms = [f"{L} // {wtxt}", f"int({L} / {wtxt})", f"{data}.shape[0] // {wtxt}"]
        ceil_forms = [f"-(-{L} // {wtxt})", f"({L} + {wtxt} - 1) // {wtxt}", f"math.ceil({L} / {wtxt})", f"int(np.ceil({L} / {wtxt}))", f"int(math.ceil({L} / {wtxt}))"]
        nbs = norm_src(nb)
        from ..match import canon_equal
        if any(nbs == x or _same(nbs, x) for x in ceil_forms):
            ctx.ok(rid, site, f"for {b} in range(ceil(len/{wtxt})): blocks [{norm_src(sl.lower)}:{norm_src(sl.upper)}]")
            return True
        if any(nbs == x or _same(nbs, x) for x in floor_forms) or "//" in nbs:
            ctx.violation(rid, unit.relpath, qn, f"for {b} in range({nbs})", f"the batches are the blocks [{norm_src(sl.lower)}:{norm_src(sl.upper)}] for {b} < {nbs}: "
                          f"with floor division the last partial block (len % {wtxt} samples) is never produced, so the batches do not cover the data", line=lp.lineno, site=site)
            return True
    return False


def _gather_meaning(expr, A, iv):
    """meaning of a gather expression built from the matrix A and ONE index vector iv: which entry of A lands at output position (x0, x1)?
    'block' = A[iv[x0], iv[x1]], 'transposed' = A[iv[x1], iv[x0]], None = anything else / not understood.
    Tracked as (row argument, column argument) of A, each ('raw'|'idx', output axis)."""
    def ev(e):
        if isinstance(e, ast.Name) and e.id == A:
            return (("raw", 0), ("raw", 1))
        if isinstance(e, ast.Attribute) and e.attr == "T":
            r = ev(e.value)
            return None if r is None else tuple((k, 1 - ax) for k, ax in r)
        if isinstance(e, ast.Call) and (call_name(e) or "") in ("np.transpose", "numpy.transpose") and len(e.args) == 1 and not e.keywords:
            r = ev(e.args[0])
            return None if r is None else tuple((k, 1 - ax) for k, ax in r)
        if isinstance(e, ast.Subscript):
            r = ev(e.value)
            if r is None:
                return None
            sl = e.slice
            items = list(sl.elts) if isinstance(sl, ast.Tuple) else [sl]

            def kind(x):
                t = str(norm_src(x))
                if t == ":":
                    return "all"
                if t == iv:
                    return "vec"
                if t in (f"{iv}[:, None]", f"{iv}[:, np.newaxis]", f"{iv}.reshape((-1, 1))", f"{iv}.reshape(-1, 1)"):
                    return "col"
                if t in (f"{iv}[None, :]", f"{iv}[np.newaxis, :]", f"{iv}[None]", f"{iv}.reshape((1, -1))"):
                    return "row"
                return None
            if len(items) == 1 and isinstance(items[0], ast.Call) and (call_name(items[0]) or "") in ("np.ix_", "numpy.ix_") and [str(norm_src(a)) for a in items[0].args] == [iv, iv]:
                ks = ["col", "row"]
            else:
                ks = [kind(x) for x in items]
            if None in ks or len(ks) > 2:
                return None
            if len(ks) == 1:
                ks = ks + ["all"]

            def apply(r, ax, to_axis):
                # the raw output axis `ax` of the current value is gathered by iv and becomes output axis `to_axis`
                return tuple(("idx", to_axis) if (k, a) == ("raw", ax) else (k, a) for k, a in r)
            if ks == ["vec", "all"] or ks == ["col", "all"]:
                return apply(r, 0, 0)
            if ks == ["all", "vec"] or ks == ["all", "row"]:
                return apply(r, 1, 1)
            if ks in (["col", "vec"], ["col", "row"]):
                return apply(apply(r, 0, 0), 1, 1)
            if ks in (["vec", "col"], ["row", "col"]):
                # first index varies along the LAST output axis, second along the first: out[x0, x1] = E[iv[x1], iv[x0]]
                r2 = tuple(("idx", 1) if (k, a) == ("raw", 0) else (("idx", 0) if (k, a) == ("raw", 1) else (k, a)) for k, a in r)
                return r2
            return None
        return None
    try:
        r = ev(expr)
    except Exception:
        return None
    if r == (("idx", 0), ("idx", 1)):
        return "block"
    if r == (("idx", 1), ("idx", 0)):
        return "transposed"
    return None


def check_array_split_partition(ctx, rid, unit, qn, f, data, site):
    """third idiom: for idx in np.array_split(perm, nb). array_split always partitions its argument into nb nearly equal parts, so the batches are
    disjoint and cover the data; they hold at most batch_size rows iff nb >= len/batch_size, i.e. nb is the CEILING of len/batch_size."""
    from ..match import resolve_expr
    cfg = CFG(f)
    for lp in [n for n in cfg.nodes if isinstance(n, ast.For)]:
        it = lp.iter
        if not (isinstance(it, ast.Call) and (call_name(it) or "").split(".")[-1] == "array_split" and len(it.args) >= 2):
            continue
        nb = resolve_expr(cfg, lp, it.args[1])
        nbs = str(norm_src(nb))
        # strip a guard max(1, .)
        inner = nb
        if isinstance(inner, ast.Call) and call_name(inner) == "max" and len(inner.args) == 2:
            inner = next((a for a in inner.args if not (isinstance(a, ast.Constant) and a.value == 1)), inner)
        ins = str(norm_src(inner))
        if any(k in ins for k in ("ceil(", "-(-")) or ("- 1) //" in ins):
            ctx.ok(rid, site, f"np.array_split into {nbs} parts (a ceiling: parts of at most batch_size rows)")
            return True
        if "round(" in ins or "//" in ins or ins.startswith("int("):
            ctx.violation(rid, unit.relpath, qn, norm_src(it)[:160], f"the data are cut into {nbs} nearly equal parts: with a number of parts that is rounded (not the ceiling of "
                          "len / batch_size) some batches hold more than batch_size rows and an epoch makes fewer than ceil(n / batch_size) steps", line=lp.lineno, site=site)
            return True
    return False


def _same(a, b):
    try:
        return norm_src(ast.parse(a, mode="eval").body) == norm_src(ast.parse(b, mode="eval").body)
    except SyntaxError:
        return False


from ..flow import ENTRY as ENTRY_C10


def _within_c10(node, container):
    n = node
    while n is not None:
        if n is container:
            return True
        n = getattr(n, "_parent", None)
    return False


def run(pm, ctx):
    ctx.rule("C10-a", "batches must be disjoint, cover every sample once and hold at most batch_size rows", floor=3)
    ctx.rule("C10-b", "the affinity block must be the rows and columns of the batch's own samples, in the same order", floor=4)
    ctx.rule("C10-c", "max_iter epochs, one optimiser step per batch, affinity computed from the trained data", floor=5)
    ctx.rule("C10-d", "nonparametric models see the full data exactly once per epoch", floor=1)
    ctx.rule("C10-e", "constraint decoration must keep the batching and record the true sample ids of each batch", floor=3)
    ctx.rule("C10-f", "the validation score is the block-size weighted mean over a partition into aligned blocks", floor=4)
    bu = pm.unit("gemclus._base_gemini")
    f = bu.func("DiscriminativeModel._batchify")
    qn = "DiscriminativeModel._batchify"
    part = check_partition(ctx, "C10-a", bu, qn, f)
    te = TableEval(pm)
    if part:
        cfg, w = part["cfg"], part["loop"]
        rd = cfg.reaching()
        # all_indices is a permutation of len(X)
        perm = [s for s in cfg.nodes if isinstance(s, ast.Assign) and isinstance(s.value, ast.Call) and (call_name(s.value) or "").endswith(".permutation")]
        sl = part["slices"][0]
        base = sl._parent.value if isinstance(sl._parent, ast.Subscript) else None
        okp = len(perm) == 1 and [norm_src(a) for a in perm[0].value.args] == ["len(X)"] and base is not None and isinstance(base, ast.Name) \
            and rd[_stmt(sl)].get(base.id) == frozenset([perm[0]])
        recv = perm[0].value.func.value if perm else None
        rs = isinstance(recv, ast.Name) and any(isinstance(d, ast.Assign) and "check_random_state" in norm_src(d.value) for d in rd[perm[0]].get(recv.id, ()) if d is not ENTRY) if perm else False
        if okp and rs:
            ctx.ok("C10-a", f"{qn}: sliced array is random_state.permutation(len(X))")
        else:
            ctx.violation("C10-a", bu.relpath, qn, norm_src(perm[0]) if perm else "permutation", "the sliced index array is not a permutation of all "
                          "len(X) samples drawn from the given random state", line=f.lineno)
        # batch size: len(X) if None else self.batch_size, validated >= 1
        bdef = None
        for b in part["bnames"]:
            ds = [d for d in rd[getattr(part["step"], "_orig", part["step"])].get(b, ()) if d is not ENTRY]
            if len(ds) == 1 and isinstance(ds[0], ast.Assign):
                bdef = ds[0]
        tab = te.class_constraints(pm.classes["DiscriminativeModel"])
        pos = all(d.kind == "none" or (d.kind == "interval" and d.lo >= 1) for d in tab.get("batch_size", []))
        if bdef is None:
            ctx.unrecognised("C10-a", f"{qn}: batch size", "the stride has no single definition")
        elif norm_src(bdef.value) in ("len(X) if self.batch_size is None else self.batch_size",
                                      "self.batch_size if self.batch_size is not None else len(X)") and pos:
            ctx.ok("C10-a", f"{qn}: batch size = batch_size or len(X), validated >= 1")
        else:
            ctx.violation("C10-a", bu.relpath, qn, norm_src(bdef), "the stride is not the validated, positive batch_size (or len(X) when None)", line=bdef.lineno)
        # ---- b alignment (structural): one index variable for rows and both affinity axes
        ys = [n for n in ast.walk(w) if isinstance(n, ast.Yield)]
        site = f"{qn}: alignment"
        if len(ys) != 1 or not isinstance(ys[0].value, ast.Tuple) or len(ys[0].value.elts) != 2:
            ctx.violation("C10-b", bu.relpath, qn, "yield", "the generator does not yield exactly one (X_batch, affinity_batch) pair per iteration", line=w.lineno, site=site)
        else:
            ystmt = _stmt(ys[0])
            xb, ab = ys[0].value.elts
            idxvar = norm_src(sl._parent.value) if False else None
            # index variable: the name assigned from the slice
            islice = _stmt(sl)
            iv = islice.targets[0].id if isinstance(islice, ast.Assign) and isinstance(islice.targets[0], ast.Name) else None
            probs = []

            def defn(name_node):
                ds = [d for d in rd[ystmt].get(name_node.id, ()) if d is not ENTRY] if isinstance(name_node, ast.Name) else []
                return ds
            xd = defn(xb)
            if not isinstance(xb, ast.Name) and norm_src(xb) == f"X[{iv}]":
                pass            # the rows are gathered in the yield itself
            elif not (len(xd) == 1 and isinstance(xd[0], ast.Assign) and norm_src(xd[0].value) == f"X[{iv}]"):
                probs.append(f"X_batch is not X[{iv}]")
            ad = defn(ab)
            arr = [d for d in ad if isinstance(d, ast.Assign) and not (isinstance(d.value, ast.Constant) and d.value.value is None)]
            non = [d for d in ad if isinstance(d, ast.Assign) and isinstance(d.value, ast.Constant) and d.value.value is None]
            good = {f"affinity_matrix[{iv}][:, {iv}]", f"affinity_matrix[np.ix_({iv}, {iv})]", f"affinity_matrix[{iv}, :][:, {iv}]", f"affinity_matrix[:, {iv}][{iv}]",
                    f"affinity_matrix[:, {iv}][{iv}, :]", f"affinity_matrix[{iv}[:, None], {iv}]", f"affinity_matrix[{iv}[:, np.newaxis], {iv}]",
                    f"affinity_matrix[{iv}.reshape((-1, 1)), {iv}]", f"affinity_matrix[{iv}[:, None], {iv}[None, :]]"}
            asrc = norm_src(arr[0].value) if len(arr) == 1 else None
            gm = _gather_meaning(arr[0].value, "affinity_matrix", iv) if len(arr) == 1 and iv else None
            if gm == "block" or asrc in good:
                asrc_ok = True
                if asrc not in good:
                    good = good | {asrc}
            elif gm == "transposed":
                probs.append(f"the affinity block `{asrc}` is the TRANSPOSE of the batch's block (entry (p, q) is A[idx[q], idx[p]]): wrong for every non-symmetric affinity "
                             f"(a precomputed or callable one)")
            elif asrc in (f"affinity_matrix[{iv}, {iv}[:, None]]", f"affinity_matrix[{iv}, {iv}[:, np.newaxis]]", f"affinity_matrix[{iv}[None, :], {iv}[:, None]]",
                          f"affinity_matrix[{iv}][:, {iv}].T", f"affinity_matrix.T[{iv}][:, {iv}]"):
                probs.append(f"the affinity block `{asrc}` is the TRANSPOSE of the batch's block (entry (p, q) is A[idx[q], idx[p]]): wrong for every non-symmetric affinity "
                             f"(a precomputed or callable one)")
            elif asrc is not None and (asrc == f"affinity_matrix[{iv}]" or asrc.count(iv) < 2 or any(
                    isinstance(n_, ast.Name) and n_.id != iv and n_.id not in ("affinity_matrix", "np", "None") for n_ in ast.walk(arr[0].value))):
                probs.append(f"the affinity block is not affinity_matrix[{iv}][:, {iv}]")
            elif asrc is None:
                probs.append(f"the affinity block is not affinity_matrix[{iv}][:, {iv}]")
            else:
                ctx.unrecognised("C10-b", site + " (affinity block)", f"`{asrc[:80]}`")
            if asrc in good and ("affinity_matrix is None", False) not in implied_literals(arr[0]):
                probs.append("the affinity block is not guarded by `affinity_matrix is not None`")
            if len(non) != 1:
                probs.append("no None affinity for GEMINIs without affinity")
            # the index variable must have a single definition per iteration (the slice) between its uses
            for d in xd + arr:
                if rd[d].get(iv) != frozenset([islice]):
                    probs.append(f"{iv} is re-bound between the slice and its use")
            if probs:
                ctx.violation("C10-b", bu.relpath, qn, norm_src(ystmt), "; ".join(probs), line=ystmt.lineno, site=site)
            else:
                ctx.ok("C10-b", site, f"rows and both affinity axes indexed by {iv}")
    # ---- b via E3 for every batched estimator family
    for cname in ("LinearModel", "MLPModel", "SparseMLPModel", "Douglas"):
        K = pm.classes.get(cname)
        if K is None:
            raise AnalysisError(f"anchor vanished: {cname}")
        for aff in ("matrix", "none"):
            I = Interp(pm)
            obj = symbolic_estimator(I, K, "int")
            N, D = Ax("N"), Ax("D")
            g = I.call_method(obj, "_batchify", [Arr([N, D]), Arr([N, N]) if aff == "matrix" else NoneV(), Obj(None, kind="rng")])
            site = f"{cname}._batchify[affinity={aff}] (abstract)"
            evs = [e for e in dedup_events(nonusage(I.events))]
            el = g.element() if isinstance(g, Gen) else None
            ok = isinstance(el, Tup) and len(el.items) == 2 and isinstance(el.items[0], Arr) and len(el.items[0].axes) == 2 \
                and el.items[0].axes[1] == D and el.items[0].axes[0].name == "sub(N)"
            if ok and aff == "matrix":
                a = el.items[1]
                ok = isinstance(a, Arr) and [x.name for x in a.axes] == ["sub(N)", "sub(N)"]
            if ok and aff == "none":
                ok = isinstance(el.items[1], NoneV)
            if ok and not evs:
                ctx.ok("C10-b", site, repr(el))
            else:
                ctx.violation("C10-b", bu.relpath, qn, "yield", f"abstract yield is {el!r} with events {evs[:2]}", line=f.lineno, site=site)

    # ---- c epochs x batches
    ff = bu.func("DiscriminativeModel.fit")
    outer = [n for n in ast.walk(ff) if isinstance(n, ast.For) and norm_src(n.iter) == "range(self.max_iter)"]
    inner = [n for n in ast.walk(ff) if isinstance(n, ast.For) and (call_name(n.iter) or "") == "self._batchify"]
    # single source of batches: every loop that performs training steps must draw its batches from self._batchify(...)
    # (the hook that nonparametric models override and that constraint decoration wraps) on every path
    cfg_fit = CFG(ff)
    step_loops = [n for n in ast.walk(ff) if isinstance(n, ast.For) and any(isinstance(c, ast.Call) and (call_name(c) or "").endswith("._update_weights") for c in ast.walk(n))
                  and not any(isinstance(m, ast.For) and m is not n and any(isinstance(c, ast.Call) and (call_name(c) or "").endswith("._update_weights") for c in ast.walk(m)) for m in ast.walk(n))]
    for lp in step_loops:
        site_s = "DiscriminativeModel.fit: source of the batches"
        it = lp.iter
        if isinstance(it, ast.Call) and call_name(it) == "self._batchify":
            ctx.ok("C10-c", site_s, "for ... in self._batchify(...)")
        elif isinstance(it, ast.Name):
            ds = [d for d in cfg_fit.reaching()[lp].get(it.id, ())]
            bad = [d for d in ds if not (d is not ENTRY and isinstance(d, ast.Assign) and isinstance(d.value, ast.Call) and call_name(d.value) == "self._batchify")]
            if ds and not bad:
                ctx.ok("C10-c", site_s, f"{it.id} is self._batchify(...) on every path")
                inner = inner or [lp]
            else:
                b0 = bad[0] if bad and bad[0] is not ENTRY else lp
                ctx.violation("C10-c", bu.relpath, "DiscriminativeModel.fit", norm_src(b0)[:160], f"on some path the batches are `{norm_src(b0.value) if isinstance(b0, ast.Assign) else it.id}` "
                              f"instead of self._batchify(...): the override of nonparametric models and the index-recording wrapper of add_mlcl_constraint are bypassed",
                              line=b0.lineno, site=site_s)
        else:
            ctx.unrecognised("C10-c", site_s, f"batches iterate over {norm_src(it)[:60]}")
    # the same for the training loop of the regularisation path, and: batches are consumed one by one as they are generated
    for fn_unit, qn_, recv in ((bu, "DiscriminativeModel.fit", "self"), (pm.unit("gemclus.sparse._base_sparse"), "_path", "clf")):
        fx = fn_unit.func(qn_)
        cfgx = CFG(fx)
        loops_x = [n for n in ast.walk(fx) if isinstance(n, ast.For) and any(isinstance(c, ast.Call) and (call_name(c) or "").endswith("._update_weights") for c in ast.walk(n))
                   and not any(isinstance(m, ast.For) and m is not n and any(isinstance(c, ast.Call) and (call_name(c) or "").endswith("._update_weights") for c in ast.walk(m)) for m in ast.walk(n))]
        site_m = f"{qn_}: batches are consumed as they are generated"
        if not loops_x:
            ctx.unrecognised("C10-c", site_m, "no loop performing optimiser steps")
            continue
        for lp in loops_x:
            it = lp.iter
            if isinstance(it, ast.Call) and call_name(it) == f"{recv}._batchify":
                ctx.ok("C10-c", site_m, f"for ... in {recv}._batchify(...)")
                continue
            vals = []
            if isinstance(it, ast.Name):
                vals = [d.value for d in cfgx.reaching()[lp].get(it.id, ()) if d is not ENTRY and isinstance(d, ast.Assign)]
            elif isinstance(it, ast.Call):
                vals = [it]
            mat = [v for v in vals if (isinstance(v, ast.Call) and call_name(v) in ("list", "tuple", "sorted", "reversed") and v.args and isinstance(v.args[0], ast.Call)
                                        and call_name(v.args[0]) == f"{recv}._batchify")
                   or (isinstance(v, (ast.ListComp,)) and any(isinstance(g.iter, ast.Call) and call_name(g.iter) == f"{recv}._batchify" for g in v.generators))]
            if mat:
                ctx.violation("C10-c", fn_unit.relpath, qn_, norm_src(mat[0])[:140], f"`{norm_src(mat[0])[:70]}` draws every batch of the epoch before the first one is used: a "
                              f"_batchify decorated by add_mlcl_constraint records the indices of the batch it hands out, so during training they are those of the LAST batch",
                              line=mat[0].lineno, site=site_m)
            elif vals and all(isinstance(v, ast.Call) and call_name(v) == f"{recv}._batchify" for v in vals):
                ctx.ok("C10-c", site_m, "generator bound to a name and iterated directly")
            else:
                ctx.unrecognised("C10-c", site_m, f"batches iterate over {norm_src(it)[:60]}")
    site = "DiscriminativeModel.fit: epochs"
    if len(outer) == 1 and len(inner) == 1 and inner[0] in outer[0].body and len(outer[0].body) == 1:
        upd = [n for n in ast.walk(inner[0]) if isinstance(n, ast.Call) and (call_name(n) or "") == "self._update_weights"]
        cond = [n for n in ast.walk(inner[0]) if isinstance(n, (ast.If, ast.Break, ast.Continue, ast.While))]
        if len(upd) == 1 and not cond:
            ctx.ok("C10-c", site, "range(max_iter) x batches, one unconditional _update_weights per batch")
        else:
            ctx.violation("C10-c", bu.relpath, "DiscriminativeModel.fit", norm_src(inner[0])[:120], "not exactly one unconditional optimiser step per batch", line=inner[0].lineno, site=site)
        args = [norm_src(a) for a in inner[0].iter.args]
        cfg = CFG(ff)
        rd = cfg.reaching()
        hdr = inner[0]
        aff = [d for d in rd[hdr].get(args[1], ()) if d is not ENTRY] if len(args) >= 2 else []
        if len(args) >= 2 and args[0] == "X" and len(aff) == 1 and isinstance(aff[0], ast.Assign) and isinstance(aff[0].value, ast.Call) \
                and (call_name(aff[0].value) or "").endswith(".compute_affinity") and [norm_src(a) for a in aff[0].value.args] == ["X", "y"] \
                and rd[aff[0]].get("X") == rd[hdr].get("X"):
            ctx.ok("C10-c", "DiscriminativeModel.fit: batches drawn from (X, compute_affinity(X, y)) of the same validated X")
        else:
            ctx.violation("C10-c", bu.relpath, "DiscriminativeModel.fit", norm_src(inner[0].iter), "the affinity handed to _batchify is not "
                          "compute_affinity(X, y) of the X that is batched", line=inner[0].lineno, site="fit: affinity")
        rng = args[2] if len(args) > 2 else None
        rdef = [d for d in rd[hdr].get(rng, ()) if d is not ENTRY] if rng else []
        if len(rdef) == 1 and "check_random_state(self.random_state)" in norm_src(rdef[0]):
            ctx.ok("C10-c", "DiscriminativeModel.fit: every epoch draws its permutation from the fit's random state")
        else:
            ctx.violation("C10-c", bu.relpath, "DiscriminativeModel.fit", norm_src(inner[0].iter), "_batchify does not receive the random state of this fit", line=inner[0].lineno,
                          site="fit: rng")
    elif len(inner) == 1 and len(outer) == 1:
        ctx.violation("C10-c", bu.relpath, "DiscriminativeModel.fit", norm_src(outer[0])[:120], "the epoch loop does more than iterate once over the batches of _batchify", line=outer[0].lineno, site=site)
    elif len(inner) == 1:
        ctx.violation("C10-c", bu.relpath, "DiscriminativeModel.fit", norm_src(inner[0].iter), "the batch loop is not nested in exactly one `for ... in range(self.max_iter)`: fit does not "
                      "perform max_iter epochs", line=inner[0].lineno, site=site)
    else:
        ctx.unrecognised("C10-c", site, "no loop over self._batchify(...)")

    # ---- d categorical override
    cu = pm.unit("gemclus.nonparametric._categorical_models")
    cf = cu.func("CategoricalModel._batchify")
    ys = [n for n in ast.walk(cf) if isinstance(n, (ast.Yield, ast.YieldFrom))]
    loops = [n for n in ast.walk(cf) if isinstance(n, (ast.For, ast.While))]
    params = func_params(cf)
    rebound = [n for n in ast.walk(cf) if isinstance(n, ast.Name) and isinstance(n.ctx, ast.Store) and n.id in params]
    if len(ys) == 1 and not loops and isinstance(ys[0], ast.Yield) and norm_src(ys[0].value) in ("(X, affinity_matrix)", "X, affinity_matrix") and not rebound:
        ctx.ok("C10-d", "CategoricalModel._batchify yields (X, affinity_matrix) once")
    else:
        ctx.violation("C10-d", cu.relpath, "CategoricalModel._batchify", norm_src(ys[0]) if ys else "yield", "the nonparametric override does not yield "
                      "the full data and affinity exactly once", line=cf.lineno)

    # ---- e mlcl wrapper
    mu = pm.unit("gemclus.mlcl")
    af = mu.func("add_mlcl_constraint")
    db = [n for n in ast.walk(af) if isinstance(n, ast.FunctionDef) and n.name == "disguise_batch"]
    if not db:
        raise AnalysisError("anchor vanished: mlcl disguise_batch")
    db = db[0]
    qn = "add_mlcl_constraint.disguise_batch"
    fors = [n for n in ast.walk(db) if isinstance(n, ast.For)]
    probs = []
    if len(fors) != 1:
        probs.append("no single loop over the wrapped generator")
    else:
        lp = fors[0]
        cfg = CFG(db)
        rd = cfg.reaching()
        call = lp.iter
        if not (isinstance(call, ast.Call) and norm_src(call.func) == "func" and len(call.args) == 3):
            probs.append("the wrapped generator is not called with (indices, affinity_matrix, random_state)")
        else:
            a0 = call.args[0]
            d0 = [d for d in rd[lp].get(a0.id, ()) if d is not ENTRY] if isinstance(a0, ast.Name) else []
            if not (len(d0) == 1 and norm_src(d0[0].value) in ("np.arange(len(X))", "np.arange(X.shape[0])")):
                probs.append("the wrapped generator is not driven with arange(len(X)) (the yielded subset would not be sample ids)")
            if [norm_src(a) for a in call.args[1:]] != func_params(db)[1:3]:
                probs.append("affinity / random_state are not passed through unchanged")
        tgt = [norm_src(e) for e in lp.target.elts] if isinstance(lp.target, ast.Tuple) else []
        ys = [s for s in lp.body if isinstance(s, ast.Expr) and isinstance(s.value, ast.Yield)]
        st = [s for s in lp.body if isinstance(s, ast.Assign) and norm_src(s.targets[0]) == "disguise_batch.indices"]
        rebound = [s_ for s_ in ast.walk(lp) if isinstance(s_, (ast.Assign, ast.AugAssign)) and s_ is not lp
                   and any(isinstance(n, ast.Name) and isinstance(n.ctx, ast.Store) and n.id in tgt for t_ in ([s_.target] if isinstance(s_, ast.AugAssign) else s_.targets) for n in ast.walk(t_))]
        if rebound:
            probs.append(f"`{norm_src(rebound[0])}` re-binds what the wrapped generator yielded: the rows handed out (and the recorded ids) no longer match the affinity block, "
                         f"which stays in the generator's order")
        if len(tgt) != 2 or len(ys) != 1 or len(st) != 1:
            probs.append("loop body is not `record indices; yield`")
        else:
            if norm_src(ys[0].value.value) not in (f"(X[{tgt[0]}], {tgt[1]})", f"X[{tgt[0]}], {tgt[1]}"):
                probs.append(f"the wrapper does not yield (X[{tgt[0]}], {tgt[1]})")
            if norm_src(st[0].value) not in (f"{tgt[0]}.tolist()", f"list({tgt[0]})"):
                probs.append("the recorded indices are not the yielded subset")
            if lp.body.index(st[0]) > lp.body.index(ys[0]):
                probs.append("the indices are recorded after the batch was handed out")
    if probs:
        ctx.violation("C10-e", mu.relpath, qn, norm_src(fors[0])[:160] if fors else "loop", "; ".join(probs), line=db.lineno, site=qn)
    else:
        ctx.ok("C10-e", qn, "driven with arange(len(X)); ids recorded before yield; X[ids] and untouched affinity block")
    # the wrapper replaces _batchify of the instance and intercept_grads reads the recorded ids of that very wrapper
    asrc = [norm_src(s) for s in ast.walk(af) if isinstance(s, ast.stmt)]
    if "gemini_model._batchify = decorate_batch(gemini_model._batchify)" in asrc and any(re.search(r"^\w+ = gemini_model\._batchify\.indices$", x) for x in asrc):
        ctx.ok("C10-e", "add_mlcl_constraint: _batchify replaced by its wrapper; gradients read the wrapper's recorded ids")
    else:
        ctx.violation("C10-e", mu.relpath, "add_mlcl_constraint", "_batchify decoration", "the decorated _batchify is not installed on the model or its "
                      "recorded indices are not the ones read when injecting gradients", line=af.lineno)
    # E3: abstract run of the wrapper on a linear model
    I = Interp(pm)
    K = pm.classes["LinearModel"]
    obj = symbolic_estimator(I, K, "int")
    from ..e3_axes import Fun, Lst
    model = I.call_function(mu, af, [obj, Lst(elem=Tup([Num("i", space=Ax("N")), Num("i", space=Ax("N"))]), length=Ax("P")),
                                    Lst(elem=Tup([Num("i", space=Ax("N")), Num("i", space=Ax("N"))]), length=Ax("Q")), Num("f")], {}, qual="add_mlcl_constraint")
    wrapped = obj.attrs.get("_batchify")
    N, D = Ax("N"), Ax("D")
    g = None
    if isinstance(wrapped, Fun):
        from ..e3_numpy import call_fun
        fr = type("F", (), {"qual": "mlcl", "self_obj": None})()
        I.stack.append(__import__("gcverif.e3_axes", fromlist=["Frame"]).Frame(mu, None, "mlcl-driver", None, None, {}))
        try:
            g = call_fun(I, wrapped, [Arr([N, D]), Arr([N, N]), Obj(None, kind="rng")], af, I.stack[-1])
        finally:
            I.stack.pop()
    el = g.element() if isinstance(g, Gen) else None
    evs = dedup_events(nonusage(I.events))
    ok = isinstance(el, Tup) and len(el.items) == 2 and isinstance(el.items[0], Arr) and [a.name for a in el.items[0].axes] == ["sub(N)", "D"] \
        and isinstance(el.items[1], Arr) and [a.name for a in el.items[1].axes] == ["sub(N)", "sub(N)"]
    ind = getattr(wrapped, "attrs", {}).get("indices") if wrapped is not None else None
    if ok and not evs:
        ctx.ok("C10-e", "decorated LinearModel._batchify (abstract)", f"{el!r}; recorded indices {ind!r}")
    else:
        ctx.violation("C10-e", mu.relpath, qn, "yield", f"abstract yield of the decorated generator is {el!r}; events {evs[:2]}", line=db.lineno,
                      site="decorated _batchify (abstract)")

    # ---- f validation score
    su = pm.unit("gemclus.sparse._base_sparse")
    vf = su.func("compute_val_score")
    part = check_partition(ctx, "C10-f", su, "compute_val_score", vf)
    if part:
        w = part["loop"]
        j, b = part["counter"], sorted(part["bnames"])[0]
        sl = f"{j}:{j} + {b}"
        expect_assign(ctx, "C10-f", su, "compute_val_score", w, "X_batch", [f"X[{sl}]"], "compute_val_score: rows of the block", "the validation block is not the rows [j:j+b] of X")
        ya = [s_ for s_ in ast.walk(w) if isinstance(s_, ast.Assign) and norm_src(s_.targets[0]) == "affinity" and norm_src(s_.value).startswith("y[")]
        if not ya:
            ctx.unrecognised("C10-f", "compute_val_score: precomputed block", "no `affinity = y[...]`")
        elif norm_src(ya[0].value) == f"y[{sl}][:, {sl}]" or norm_src(ya[0].value) == f"y[{sl}, {sl}]":
            ctx.ok("C10-f", "compute_val_score: precomputed block", "same slice on rows and columns")
        else:
            ctx.violation("C10-f", su.relpath, "compute_val_score", norm_src(ya[0]), "the precomputed affinity block does not use the block's slice on both rows and columns",
                          line=ya[0].lineno, site="compute_val_score: precomputed block")
        expect_assign(ctx, "C10-f", su, "compute_val_score", w, "y_pred", ["clf.predict_proba(X_batch)"], "compute_val_score: predictions of the block", "predictions are not those of the block")
        acc = [s_ for s_ in ast.walk(w) if isinstance(s_, ast.AugAssign) and norm_src(s_.target) == "validation_gemini"]
        if not acc:
            ctx.unrecognised("C10-f", "compute_val_score: accumulation", "no accumulation into validation_gemini")
        elif isinstance(acc[0].op, ast.Add) and equal_resolved(acc[0], acc[0].value, ["gemini_objective(y_pred, affinity) * len(X_batch)", "gemini_objective(clf.predict_proba(X_batch), affinity) * len(X_batch)"]):
            ctx.ok("C10-f", "compute_val_score: block scores weighted by len(block)")
        else:
            ctx.violation("C10-f", su.relpath, "compute_val_score", norm_src(acc[0]), "block scores are not accumulated with weight len(block)", line=acc[0].lineno, site="compute_val_score: accumulation")
        fin = [s_ for s_ in vf.body if isinstance(s_, ast.AugAssign) and norm_src(s_.target) == "validation_gemini"]
        ini = [s_ for s_ in vf.body if isinstance(s_, ast.Assign) and norm_src(s_.targets[0]) == "validation_gemini"]
        if not fin or not ini:
            ctx.unrecognised("C10-f", "compute_val_score: normalisation", "no initialisation / final division at function level")
        elif isinstance(fin[0].op, ast.Div) and canon_equal(fin[0].value, "len(X)") and canon_equal(ini[0].value, "0") and fin[0].lineno > w.lineno and ini[0].lineno < w.lineno:
            ctx.ok("C10-f", "compute_val_score: starts at 0, divided by len(X) after the loop")
        else:
            ctx.violation("C10-f", su.relpath, "compute_val_score", norm_src(fin[0]), "the weighted sum is not initialised to 0 before and divided by len(X) after the loop", line=fin[0].lineno,
                          site="compute_val_score: normalisation")
        # dynamic branch: affinity recomputed on the block with the selected features
        ca = [n for n in ast.walk(w) if isinstance(n, ast.Call) and (call_name(n) or "").endswith(".compute_affinity")]
        if not ca:
            ctx.unrecognised("C10-f", "compute_val_score: computed affinity", "no compute_affinity call in the loop")
        elif ca[0].args and norm_src(ca[0].args[0]).startswith("X_batch"):
            ctx.ok("C10-f", "compute_val_score: computed affinity uses the rows of the same block")
        else:
            ctx.violation("C10-f", su.relpath, "compute_val_score", norm_src(ca[0]), "the computed affinity is not that of the block's rows", line=ca[0].lineno,
                          site="compute_val_score: computed affinity")
        # the affinity scored with the block's predictions is, on every path, either the user's block or the result of compute_affinity on
        # the block evaluated in this very iteration (a value fetched from a store filled by an earlier call is the affinity of another
        # selection of variables in dynamic mode)
        try:
            cfg_v = CFG(vf)
            rdv = cfg_v.reaching()
            uses = [st for st in cfg_v.nodes if isinstance(st, (ast.Assign, ast.AugAssign, ast.Expr)) and _within_c10(st, w) and any(
                isinstance(n, ast.Call) and isinstance(n.func, ast.Name) and n.func.id == "gemini_objective" for n in ast.walk(st))]
            site_a = "compute_val_score: provenance of the scored affinity"
            if not uses:
                ctx.unrecognised("C10-f", site_a, "no call gemini_objective(y_pred, affinity) in the loop")
            else:
                call_ = next(n for n in ast.walk(uses[0]) if isinstance(n, ast.Call) and isinstance(n.func, ast.Name) and n.func.id == "gemini_objective")
                aff = call_.args[1] if len(call_.args) > 1 else None
                bad_defs = []
                if isinstance(aff, ast.Name):
                    for d in rdv.get(uses[0], {}).get(aff.id, frozenset()):
                        v_ = d.value if isinstance(d, ast.Assign) else None
                        okd = v_ is not None and _within_c10(d, w) and (
                            (isinstance(v_, ast.Call) and (call_name(v_) or "").endswith(".compute_affinity")) or
                            (isinstance(v_, ast.Subscript) and norm_src(v_).startswith("y[")))
                        if not okd:
                            bad_defs.append(d)
                if aff is None:
                    ctx.unrecognised("C10-f", site_a, "affinity argument not found")
                elif bad_defs:
                    d = bad_defs[0]
                    ctx.violation("C10-f", su.relpath, "compute_val_score", norm_src(d)[:160] if d is not ENTRY_C10 else "affinity",
                                  "the affinity scored with the block is not computed from the block in this iteration (nor the user's block): it is read from "
                                  "a value kept from an earlier evaluation", line=getattr(d, "lineno", vf.lineno), site=site_a)
                else:
                    ctx.ok("C10-f", site_a, "computed on the block in the same iteration, or the user's block")
        except AnalysisError:
            raise
    # _path passes the model's batch size (or len(X))
    pf = su.func("_path")
    psrc = [norm_src(s) for s in ast.walk(pf) if isinstance(s, ast.stmt)]
    bs = [s_ for s_ in ast.walk(pf) if isinstance(s_, ast.Assign) and norm_src(s_.targets[0]) == "batch_size"]
    vals = sorted(norm_src(s_.value) for s_ in bs)
    if not bs:
        ctx.unrecognised("C10-f", "_path: block size", "no definition of batch_size")
    elif vals == ["clf.batch_size", "len(X)"] or vals in (["len(X) if clf.batch_size is None else clf.batch_size"], ["clf.batch_size if clf.batch_size is not None else len(X)"]):
        ctx.ok("C10-f", "_path: validation block size = batch_size or len(X)")
    else:
        ctx.violation("C10-f", su.relpath, "_path", norm_src(bs[0]), f"the validation block size is {vals}, not batch_size or len(X)", line=bs[0].lineno, site="_path: block size")


def _stmt(n):
    while not isinstance(n, ast.stmt):
        n = n._parent
    return n


def controls(pm, tier):
    out = []

    def mut(mod, find, repl, rule, name):
        def apply(pm_):
            u = pm_.unit(mod)
            if find not in u.src:
                return None
            return {u.relpath: u.src.replace(find, repl, 1)}
        out.append({"name": name, "rule": rule, "apply": apply})
    B, S, M, C = "gemclus._base_gemini", "gemclus.sparse._base_sparse", "gemclus.mlcl", "gemclus.nonparametric._categorical_models"
    mut(B, "affinity_batch = affinity_matrix[batch_indices][:, batch_indices]", "affinity_batch = affinity_matrix[batch_indices]", "C10-b", "rows-only affinity block")
    mut(B, "affinity_batch = affinity_matrix[batch_indices][:, batch_indices]", "affinity_batch = affinity_matrix[batch_indices][:, all_indices[j:j + batch_size]][:, ::-1]", "C10-b", "columns from a different index expression")
    mut(B, "            j += batch_size\n\n    def fit", "            j += batch_size - 1\n\n    def fit", "C10-a", "stride smaller than the block")
    mut(B, "while j < len(X):\n            batch_indices", "while j + batch_size <= len(X):\n            batch_indices", "C10-a", "last partial batch dropped")
    mut(B, "all_indices = random_state.permutation(len(X))", "all_indices = random_state.permutation(len(X) - 1)", "C10-a", "permutation misses a sample")
    mut(M, "                disguise_batch.indices = subset.tolist()\n                yield X[subset], affinity_batch",
        "                yield X[subset], affinity_batch\n                disguise_batch.indices = subset.tolist()", "C10-e", "indices recorded after the yield")
    mut(M, "indices = np.arange(len(X))", "indices = np.arange(len(X))[::-1]", "C10-e", "wrapper drives the generator with reversed ids")
    mut(S, "affinity = y[j:j+batch_size][:,j:j+batch_size]", "affinity = y[j:j+batch_size][:,:batch_size]", "C10-f", "validation affinity columns misaligned")
    mut(S, "validation_gemini += gemini_objective(y_pred, affinity) * len(X_batch)", "validation_gemini += gemini_objective(y_pred, affinity) * batch_size", "C10-f", "last block over-weighted")
    mut(C, "yield X, affinity_matrix", "yield X, affinity_matrix\n        yield X, affinity_matrix", "C10-d", "nonparametric model trained twice per epoch")
    mut(B, "affinity_batch = affinity_matrix[batch_indices][:, batch_indices]", "affinity_batch = affinity_matrix[batch_indices, batch_indices[:, None]]", "C10-b", "transposed affinity block")
    mut("gemclus.sparse._base_sparse", "            for X_batch, affinity_batch in clf._batchify(X, affinity, generator):", "            batches = list(clf._batchify(X, affinity, generator))\n            for X_batch, affinity_batch in batches:", "C10-c", "path materialises the batches of an epoch")
    return out
