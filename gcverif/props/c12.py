"""C12 - fitting is reproducible, history-independent and free of side effects (purity / typestate facts)."""
import ast

from ..pm import AnalysisError, norm_src, func_params
from ..flow import CFG, ENTRY, EXIT, attr_chain
from ..astutil import replace_node, call_name, self_name, parents
from ..e2_tables import constructor_contract, effective_params
from ..callgraph import resolve_call, resolve_name, reachable_methods
from ..e3_axes import Interp, Arr, Num, Ax, NoneV, Obj, is_top
from ..scenarios import symbolic_estimator, data_XY

PROP = "C12"
EXPLANATION = (
    "(a) constructor contract of every estimator and GEMINI class: each __init__ parameter is stored untouched in the "
    "same-named attribute or forwarded by name to the parent constructor, nothing else happens (get_params/set_params/clone "
    "round trip); (b) hyper-parameter attributes are written only in __init__, except inside a function that saves the value "
    "first and restores it at a statement post-dominating every other write; (c) fresh state: in the execution-ordered "
    "abstract run of fit (and path) on a fresh estimator every learned attribute is stored before it is read, no store of a "
    "learned attribute is controlled by a test on previous state (hasattr/getattr), and module-level or class-level mutable "
    "state is never written; (d) RNG discipline: no draw from numpy's global generator, every draw's receiver is data-dependent "
    "on check_random_state(<random_state>), established once per fit; (e) no in-place sink (augmented assignment, subscript "
    "store, copyto, sort/fill, out=) may reach an array aliasing a parameter of a public method.")
ASSUMPTIONS = ["scikit-learn's get_params/set_params/clone read and write the attributes named after __init__ parameters",
               "view-producing operations: basic indexing, .T, reshape, asarray/check_array/validate_data; everything else copies"]

DRAWS = {"uniform", "normal", "permutation", "choice", "multivariate_normal", "chisquare", "randn", "rand", "randint", "shuffle",
         "standard_normal", "random", "integers", "random_sample", "beta", "gamma", "binomial", "poisson", "exponential"}
PUBLIC_METHODS = {"fit", "fit_predict", "predict", "predict_proba", "score", "path", "find_active_points", "evaluate", "__call__",
                  "compute_affinity", "get_selection"}
VIEW_CALLS = {"check_array", "validate_data", "asarray", "ascontiguousarray", "squeeze", "transpose", "expand_dims", "ravel", "reshape",
              "atleast_2d", "asanyarray", "swapaxes", "diagonal"}
ARRAY_PARAMS = {"X", "y", "y_pred", "affinity", "distance", "loc", "scale", "pvals", "must_link", "cannot_link", "feature_names"}
SINK_METHODS = {"sort", "fill", "resize", "put", "itemset", "partition", "setfield", "byteswap",
                "append", "extend", "insert", "remove", "pop", "clear", "reverse", "update", "setdefault", "popitem", "add", "discard"}
SINK_FUNCS = {"copyto": 0, "fill_diagonal": 0, "put": 0, "place": 0, "putmask": 0, "shuffle": 0}


def hyper_params(pm):
    names = set()
    for K in pm.estimators():
        names |= set(effective_params(pm, K))
    return names


def run(pm, ctx):
    ctx.rule("C12-a", "clone/get_params/set_params only round-trip parameters stored verbatim under their own name", floor=25)
    ctx.rule("C12-b", "fit (and anything but an explicit set_params) must leave hyper-parameters as constructed; path may only "
             "modify one temporarily", floor=1)
    ctx.rule("C12-c", "results must not depend on state left behind by earlier calls", floor=18)
    ctx.rule("C12-d", "all randomness must flow from check_random_state(random_state) of the current call", floor=10)
    ctx.rule("C12-e", "callers' arrays are never written", floor=30)
    ctx.rule("C12-f", "a fit starts from the data it is given: input validation inside fit must reset what an earlier fit recorded (n_features_in_, "
             "feature names), otherwise a re-fit on data of another width raises or reuses stale facts", floor=4)
    n_val = 0
    for ci in pm.estimators():
        for mname, f in ci.methods.items():
            if mname not in ("fit", "path", "fit_predict", "_fit"):
                continue
            for c in ast.walk(f):
                if isinstance(c, ast.Call) and (call_name(c) or "").split(".")[-1] in ("validate_data", "_validate_data", "_check_n_features", "_check_feature_names"):
                    n_val += 1
                    rs = next((k.value for k in c.keywords if k.arg == "reset"), None)
                    site = f"{ci.name}.{mname}: {norm_src(c)[:60]}"
                    if rs is None or (isinstance(rs, ast.Constant) and rs.value is True):
                        ctx.ok("C12-f", site, "reset (default)")
                    elif isinstance(rs, ast.Constant) and rs.value is False:
                        ctx.violation("C12-f", ci.unit.relpath, f"{ci.name}.{mname}", norm_src(c)[:120], "validation inside fit with reset=False compares the data with the feature count "
                                      "recorded by an EARLIER fit: the same estimator re-fitted on data of another width raises, while a fresh clone fits", line=c.lineno, site=site)
                    else:
                        ctx.unrecognised("C12-f", site, f"reset={norm_src(rs)}")
    if n_val == 0:
        raise AnalysisError("anchor vanished: validation calls inside fit")

    # ------------------------------------------------------------------ a
    for ci in sorted(pm.classes.values(), key=lambda c: c.name):
        if "__init__" not in ci.methods or ci.unit.is_pyx or ci.name in ("Tree", "InvalidParameterError"):
            continue
        is_est = any(m.external and m.name == "BaseEstimator" for m in ci.mro)
        is_gem = any(m.name == "_GEMINI" for m in ci.mro)
        if not (is_est or is_gem):
            continue
        probs, how, consts = constructor_contract(pm, ci)
        site = f"{ci.name}.__init__"
        if probs:
            kind, node, msg = probs[0]
            ctx.violation("C12-a", ci.unit.relpath, site, norm_src(node)[:160] if not isinstance(node, ast.FunctionDef) else "signature",
                          msg + (f" (+{len(probs) - 1} more)" if len(probs) > 1 else ""), line=getattr(node, "lineno", ci.node.lineno), site=site)
        else:
            ctx.ok("C12-a", site, f"{len(how)} parameters stored/forwarded")

    # ------------------------------------------------------------------ b
    hps = hyper_params(pm)
    n_write_sites = 0
    for u in pm.units.values():
        if u.is_pyx:
            continue
        for q, f in list(u.functions.items()):
            if f.name == "__init__":
                continue
            writes = []
            for n in ast.walk(f):
                if isinstance(n, ast.Attribute) and isinstance(n.ctx, ast.Store) and isinstance(n.value, ast.Name) \
                        and n.value.id in ("self", "clf", "gemini_model", "model", "estimator") and n.attr in hps:
                    writes.append((n.value.id, n.attr, _stmt(n)))
                if isinstance(n, ast.Call) and isinstance(n.func, ast.Attribute) and n.func.attr == "set_params" and isinstance(n.func.value, ast.Name):
                    for k in n.keywords:
                        if k.arg in hps:
                            writes.append((n.func.value.id, k.arg, _stmt(n)))
            if not writes:
                continue
            n_write_sites += len(writes)
            cfg = CFG(f)
            byattr = {}
            for recv, attr, st in writes:
                byattr.setdefault((recv, attr), []).append(st)
            for (recv, attr), sts in byattr.items():
                site = f"{q}: writes {recv}.{attr}"
                ok, why = save_restore(cfg, f, recv, attr, sts)
                if ok:
                    ctx.ok("C12-b", site, why)
                else:
                    ctx.violation("C12-b", u.relpath, q, norm_src(sts[0])[:160], f"hyper-parameter {attr} is written outside __init__ and {why}",
                                  line=sts[0].lineno, site=site)
    if n_write_sites == 0:
        ctx.ok("C12-b", "no hyper-parameter write outside __init__")

    # ------------------------------------------------------------------ c: stale state via the execution-ordered abstract run
    for K in pm.concrete_estimators():
        stored_universe = set()
        for c in K.mro:
            if not c.external:
                stored_universe |= c.self_stores()
        stored_universe |= {"optimiser_", "alpha"}
        stale = []

        def on_read(obj, attr, node, fr, found, stale=stale, K=K, su=stored_universe):
            if not found and obj.cls is K and attr in su:
                stale.append((attr, node, fr))
        I = Interp(pm)
        I.on_attr_read = on_read
        obj = symbolic_estimator(I, K, "int")
        X, Y = data_XY()
        I.call_method(obj, "fit", [X, Y])
        site = f"{K.name}.fit: learned state"
        if stale:
            attr, node, fr = stale[0]
            ctx.violation("C12-c", fr.unit.relpath, fr.qual, norm_src(_stmt(node))[:160], f"self.{attr} is read before this fit has stored it: on a "
                          f"re-used estimator the value of a previous fit would be used [{K.name}]", line=node.lineno, site=site)
        else:
            ctx.ok("C12-c", site, f"{I.n_exprs} expressions interpreted in execution order")
        if any(c.name in ("SparseLinearModel", "SparseMLPModel") for c in K.mro):
            stale2 = []
            I = Interp(pm)
            I.on_attr_read = lambda o, a, n, fr, found, s=stale2, K=K, su=stored_universe: s.append((a, n, fr)) if (not found and o.cls is K and a in su) else None
            obj = symbolic_estimator(I, K, "int")
            I.call_method(obj, "path", [X, Y])
            site = f"{K.name}.path: learned state"
            if stale2:
                attr, node, fr = stale2[0]
                ctx.violation("C12-c", fr.unit.relpath, fr.qual, norm_src(_stmt(node))[:160], f"{attr} is read before this path call has stored it",
                              line=node.lineno, site=site)
            else:
                ctx.ok("C12-c", site)
    # history tests
    n_hist = 0
    for u in pm.units.values():
        for n in ast.walk(u.tree):
            if isinstance(n, ast.Call) and isinstance(n.func, ast.Name) and n.func.id in ("hasattr", "getattr") and n.args \
                    and isinstance(n.args[0], ast.Name) and n.args[0].id in ("self", "clf", "gemini_model"):
                arg = n.args[1] if len(n.args) > 1 else None
                if isinstance(arg, ast.Constant) and isinstance(arg.value, str) and (arg.value.endswith("_") or arg.value.startswith("_")):
                    fdef = next((p for p in parents(n) if isinstance(p, ast.FunctionDef)), None)
                    ctx.violation("C12-c", u.relpath, fdef.name if fdef else "<module>", norm_src(_stmt(n))[:160],
                                  f"behaviour depends on whether {arg.value!r} was left behind by an earlier call", line=n.lineno,
                                  site=f"{u.relpath}: history test {arg.value}")
                    n_hist += 1
    if not n_hist:
        ctx.ok("C12-c", "no hasattr/getattr test on learned or private state")
    # module-level / class-level mutable state written from functions
    n_glob = 0
    for u in pm.units.values():
        mod_names = set(u.assigns)
        for q, f in u.functions.items():
            for n in ast.walk(f):
                if isinstance(n, ast.Global):
                    ctx.violation("C12-c", u.relpath, q, norm_src(n), "module-level state is modified by a function", line=n.lineno, site=f"{q}: global")
                    n_glob += 1
                if isinstance(n, ast.Call) and isinstance(n.func, ast.Attribute) and n.func.attr in ("append", "extend", "update", "add", "pop", "remove", "clear", "insert") \
                        and isinstance(n.func.value, ast.Name) and n.func.value.id in mod_names and not _is_local(f, n.func.value.id):
                    ctx.violation("C12-c", u.relpath, q, norm_src(_stmt(n))[:120], f"module-level object {n.func.value.id} is mutated", line=n.lineno, site=f"{q}: module state")
                    n_glob += 1
                if isinstance(n, ast.Attribute) and isinstance(n.ctx, ast.Store) and isinstance(n.value, ast.Name) and n.value.id in pm.classes \
                        and not _is_local(f, n.value.id):
                    ctx.violation("C12-c", u.relpath, q, norm_src(_stmt(n))[:120], f"class attribute {n.value.id}.{n.attr} is written at run time", line=n.lineno,
                                  site=f"{q}: class state")
                    n_glob += 1
    if not n_glob:
        ctx.ok("C12-c", "no module-level or class-level state is written by any function")
    # default mutable arguments
    n_mut = 0
    for u in pm.units.values():
        for q, f in u.functions.items():
            for d in f.args.defaults + [x for x in f.args.kw_defaults if x is not None]:
                if isinstance(d, (ast.List, ast.Dict, ast.Set)) or (isinstance(d, ast.Call) and call_name(d) in ("list", "dict", "set")):
                    ctx.violation("C12-c", u.relpath, q, norm_src(d), "mutable default argument is shared between calls", line=f.lineno, site=f"{q}: default")
                    n_mut += 1
    if not n_mut:
        ctx.ok("C12-c", "no mutable default argument")
    # get_gemini builds or returns the objective without caching
    for K in pm.concrete_estimators():
        C, gg = pm.resolve_method(K, "get_gemini")
        if gg is None or C.external:
            continue
        stores = [n for n in ast.walk(gg) if isinstance(n, ast.Attribute) and isinstance(n.ctx, ast.Store)]
        site = f"{C.name}.get_gemini"
        if stores:
            ctx.violation("C12-c", C.unit.relpath, site, norm_src(_stmt(stores[0])), "get_gemini caches state on the estimator: a later set_params would be ignored",
                          line=stores[0].lineno, site=site + f" [{K.name}]")
        else:
            ctx.ok("C12-c", site + f" [{K.name}]")

    # ------------------------------------------------------------------ d: RNG
    rng_rules(pm, ctx)

    # ------------------------------------------------------------------ e: caller arrays
    mutation_rules(pm, ctx)


def _is_local(f, name):
    for n in ast.walk(f):
        if isinstance(n, ast.Name) and n.id == name and isinstance(n.ctx, ast.Store):
            return True
    return name in func_params(f)


def _stmt(n):
    while not isinstance(n, ast.stmt):
        n = n._parent
    return n


def save_restore(cfg, f, recv, attr, writes):
    """writes to recv.attr are acceptable iff the function saved the initial value before the first write and restores
    it at a statement that post-dominates every other write"""
    saves = []
    for st in cfg.nodes:
        if isinstance(st, ast.Assign) and attr_chain(st.value) == f"{recv}.{attr}":
            for t in st.targets:
                if isinstance(t, ast.Name):
                    saves.append((t.id, st))
    if not saves:
        return False, "the previous value is never saved"
    pdom = cfg.postdominators()
    rd = cfg.reaching()
    for name, sst in saves:
        if not all(cfg.dominates(sst, w) for w in writes if w is not sst):
            continue
        restores = []
        for w in writes:
            val = None
            if isinstance(w, ast.Assign) and attr_chain(w.targets[0]) == f"{recv}.{attr}":
                val = w.value
            else:
                for n in ast.walk(w):
                    if isinstance(n, ast.Call) and isinstance(n.func, ast.Attribute) and n.func.attr == "set_params":
                        for k in n.keywords:
                            if k.arg == attr:
                                val = k.value
            if isinstance(val, ast.Name) and val.id == name and rd[w].get(name) == frozenset([sst]):
                restores.append(w)
        for r in restores:
            others = [w for w in writes if w is not r]
            if all(r in pdom[w] for w in others) and r in pdom[sst]:
                return True, f"saved in {name} and restored at line {r.lineno} on every path"
        if restores:
            return False, "the restoring write does not post-dominate every other write"
    return False, "it is never restored to the saved value"


def rng_rules(pm, ctx):
    # (1) global draws
    n = 0
    for u in pm.units.values():
        alias = [k for k, (m, s) in u.imports.items() if m == "numpy" and s is None]
        for node in ast.walk(u.tree):
            if isinstance(node, ast.Call):
                ch = attr_chain(node.func) or ""
                parts = ch.split(".")
                if len(parts) >= 3 and parts[0] in alias and parts[1] == "random" and parts[2] not in ("RandomState", "default_rng", "Generator", "SeedSequence"):
                    fdef = next((p for p in parents(node) if isinstance(p, ast.FunctionDef)), None)
                    ctx.violation("C12-d", u.relpath, fdef.name if fdef else "<module>", norm_src(_stmt(node))[:160],
                                  f"{ch} draws from numpy's global generator", line=node.lineno, site=f"{u.relpath}: {ch}")
                    n += 1
                if len(parts) >= 3 and parts[0] in alias and parts[1] == "random" and parts[2] in ("RandomState", "default_rng") and not node.args and not node.keywords:
                    fdef = next((p for p in parents(node) if isinstance(p, ast.FunctionDef)), None)
                    ctx.violation("C12-d", u.relpath, fdef.name if fdef else "<module>", norm_src(_stmt(node))[:160], f"{ch}() is seeded from the OS",
                                  line=node.lineno, site=f"{u.relpath}: unseeded {ch}")
                    n += 1
        if "random" in u.imports and u.imports["random"][0] == "random":
            ctx.violation("C12-d", u.relpath, "<module>", "import random", "the stdlib global generator is imported", line=1, site=f"{u.relpath}: import random")
            n += 1
    if not n:
        ctx.ok("C12-d", "no draw from a global or OS-seeded generator")
    # (2) receivers of draws
    for u in pm.units.values():
        if u.is_pyx:
            continue
        for q, f in u.functions.items():
            draws = [c for c in ast.walk(f) if isinstance(c, ast.Call) and isinstance(c.func, ast.Attribute) and c.func.attr in DRAWS
                     and isinstance(c.func.value, ast.Name) and c.func.value.id not in ("np", "numpy", "self")
                     and _enclosing_def(c) is f]
            if not draws:
                continue
            cfg = CFG(f)
            rd = cfg.reaching()
            for c in draws:
                recv = c.func.value.id
                st = _cfg_stmt(cfg, c)
                site = f"{q}: {recv}.{c.func.attr}"
                ok, why = rng_origin(pm, u, q, f, cfg, rd, st, recv, 0)
                if ok:
                    ctx.ok("C12-d", site, why)
                else:
                    ctx.violation("C12-d", u.relpath, q, norm_src(_stmt(c))[:160], f"the generator {recv} is not derived from check_random_state(random_state): {why}",
                                  line=c.lineno, site=site)
    # (3) one generator per fit, created unconditionally
    for mod, qn in (("gemclus._base_gemini", "DiscriminativeModel.fit"), ("gemclus.tree.kauri", "Kauri.fit")):
        u = pm.unit(mod)
        f = u.func(qn)
        crs = [s for s in f.body if isinstance(s, ast.Assign) and norm_src(s.value) == "check_random_state(self.random_state)"]
        if len(crs) == 1:
            ctx.ok("C12-d", f"{qn}: generator re-created from self.random_state at every fit")
        else:
            ctx.violation("C12-d", u.relpath, qn, "check_random_state", "fit does not (unconditionally, once) derive its generator from self.random_state",
                          line=f.lineno, site=f"{qn}: generator")


def _enclosing_def(n):
    p = getattr(n, "_parent", None)
    while p is not None and not isinstance(p, (ast.FunctionDef, ast.Lambda)):
        p = getattr(p, "_parent", None)
    return p


def _cfg_stmt(cfg, node):
    n = node
    while n is not None and n not in cfg.succ:
        n = getattr(n, "_parent", None)
    return n


RS_SOURCES = ("self.random_state", "clf.random_state", "random_state")


def rng_origin(pm, unit, q, f, cfg, rd, st, name, depth):
    defs = rd[st].get(name, frozenset()) if st in rd else frozenset()
    if not defs:
        return False, "no definition reaches the draw"
    whys = []
    for d in defs:
        if d is ENTRY:
            # a parameter: every GemClus call site must pass a proper generator (or a random_state later normalised)
            if name not in func_params(f):
                return False, f"{name} is not defined"
            ok, why = callers_pass_rng(pm, unit, q, f, name, depth)
            if not ok:
                return False, why
            whys.append(why)
            continue
        if isinstance(d, ast.Assign) and isinstance(d.value, ast.Call) and (call_name(d.value) or "").split(".")[-1] == "check_random_state":
            a = d.value.args[0] if d.value.args else None
            src = norm_src(a) if a is not None else ""
            if src in RS_SOURCES:
                if src == "random_state" and "random_state" in func_params(f):
                    if f.name.startswith("_") and depth < 3:
                        # an internal helper: its random_state must be supplied by every internal caller, otherwise
                        # check_random_state(None) silently falls back to numpy's global generator
                        ok2, why2 = callers_pass_rng(pm, unit, q, f, "random_state", depth + 1)
                        if not ok2:
                            return False, why2
                        whys.append("check_random_state(random_state parameter); " + why2)
                        continue
                    whys.append("check_random_state(random_state parameter)")
                    continue
                whys.append(f"check_random_state({src})")
                continue
            return False, f"check_random_state is applied to {src}"
        return False, f"{name} is bound by `{norm_src(d)[:60]}`"
    return True, "; ".join(sorted(set(whys)))


_CB = {}


def _callback_params(u, fname):
    """names of parameters of (nested) functions of unit u that are bound, at some call, to an attribute `.<fname>`"""
    key = (id(u), fname)
    if key in _CB:
        return _CB[key]
    out = set()
    defs = {n.name: n for n in ast.walk(u.tree) if isinstance(n, ast.FunctionDef)}
    for c in ast.walk(u.tree):
        if isinstance(c, ast.Call) and isinstance(c.func, ast.Name) and c.func.id in defs:
            ps = func_params(defs[c.func.id])
            for i, a in enumerate(c.args):
                if isinstance(a, ast.Attribute) and a.attr == fname and i < len(ps):
                    out.add(ps[i])
    _CB[key] = out
    return out


def callers_pass_rng(pm, unit, q, f, pname, depth):
    if depth > 3:
        return False, "call chain too deep"
    idx = func_params(f).index(pname)
    is_method = "." in q
    if is_method:
        idx -= 1
    sites = []
    for u2 in pm.units.values():
        if u2.is_pyx:
            continue
        for q2, f2 in u2.functions.items():
            for c in ast.walk(f2):
                if not isinstance(c, ast.Call):
                    continue
                cn = call_name(c) or ""
                fname = f.name
                hit = (is_method and cn.split(".")[-1] == fname and "." in cn) or (not is_method and cn == fname)
                if not hit and is_method and isinstance(c.func, ast.Name):
                    # indirect call through a decorator parameter bound to <obj>.<fname> (mlcl: decorate_batch(gemini_model._batchify))
                    hit = c.func.id in _callback_params(u2, fname)
                if not hit or not any(p_ is f2 for p_ in parents(c)):
                    continue
                arg = None
                if len(c.args) > idx:
                    arg = c.args[idx]
                for k in c.keywords:
                    if k.arg == pname:
                        arg = k.value
                sites.append((u2, q2, f2, c, arg))
    if not sites:
        # public entry point: the parameter is the user's random_state, which must be normalised before any draw
        if pname == "random_state":
            return False, "the raw random_state parameter is used as a generator"
        return True, "no internal caller (public helper)"
    for u2, q2, f2, c, arg in sites:
        if arg is None:
            return False, f"{q2} calls {f.name} without a generator"
        if not isinstance(arg, ast.Name):
            if norm_src(arg) in RS_SOURCES:
                continue
            return False, f"{q2} passes {norm_src(arg)}"
        encl = _enclosing_def(c)
        if encl is not f2 and isinstance(encl, ast.FunctionDef):
            # the call sits in a nested function: the argument must be that function's own parameter of the same role
            if arg.id in func_params(encl):
                continue
            f2 = encl
        cfg2 = CFG(f2)
        ok, why = rng_origin(pm, u2, q2, f2, cfg2, cfg2.reaching(), _cfg_stmt(cfg2, c), arg.id, depth + 1)
        if not ok:
            return False, f"via {q2}: {why}"
    return True, f"passed by {sorted({s[1] for s in sites})}"


# ------------------------------------------------------------------------------------------- mutation of caller arrays
def is_view_expr(e, tainted):
    """does expression e (possibly) alias a tainted name?"""
    if isinstance(e, ast.Name):
        return e.id in tainted
    if isinstance(e, ast.Attribute):
        ch = attr_chain(e)
        if ch in tainted:
            return True
        if e.attr in ("T", "real", "flat"):
            return is_view_expr(e.value, tainted)
        return False
    if isinstance(e, ast.Subscript):
        sl = e.slice
        parts = sl.elts if isinstance(sl, ast.Tuple) else [sl]
        # an index that is an array/list expression makes a copy; slices, ints and plain names may give views
        if any(isinstance(p, (ast.List, ast.Compare, ast.BoolOp)) or (isinstance(p, ast.Call)) for p in parts):
            return False
        return is_view_expr(e.value, tainted)
    if isinstance(e, ast.Call):
        cn = (call_name(e) or "").split(".")[-1]
        if cn in VIEW_CALLS:
            args = list(e.args)
            if isinstance(e.func, ast.Attribute) and not (isinstance(e.func.value, ast.Name) and e.func.value.id in ("np", "numpy")):
                args = [e.func.value] + args
            return any(is_view_expr(a, tainted) for a in args)
        return False
    if isinstance(e, ast.IfExp):
        return is_view_expr(e.body, tainted) or is_view_expr(e.orelse, tainted)
    if isinstance(e, (ast.Tuple, ast.List)):
        return False
    return False


def base_name(t):
    while isinstance(t, (ast.Subscript,)):
        t = t.value
    if isinstance(t, ast.Attribute):
        return attr_chain(t)
    if isinstance(t, ast.Name):
        return t.id
    return None


def mutation_rules(pm, ctx):
    # entry points
    work = []          # (unit, qualname, func, frozenset(tainted param names), K, C)
    for ci in pm.classes.values():
        is_est = any(m.external and m.name == "BaseEstimator" for m in ci.mro)
        is_gem = any(m.name == "_GEMINI" for m in ci.mro)
        if not (is_est or is_gem):
            continue
        for mn, f in ci.methods.items():
            if mn in PUBLIC_METHODS:
                ps = [p for p in func_params(f)[1:] if p in ARRAY_PARAMS]
                work.append((ci.unit, f"{ci.name}.{mn}", f, frozenset(ps)))
    du = pm.unit("gemclus.data.synthetic_data")
    for fn in ("draw_gmm", "multivariate_student_t"):
        f = du.func(fn)
        work.append((du, fn, f, frozenset(p for p in func_params(f) if p in ("loc", "scale", "pvals"))))
    mu = pm.unit("gemclus.mlcl")
    work.append((mu, "add_mlcl_constraint", mu.func("add_mlcl_constraint"), frozenset(["must_link", "cannot_link"])))
    ku = pm.unit("gemclus.tree.kauri")
    work.append((ku, "print_kauri_tree", ku.func("print_kauri_tree"), frozenset(["feature_names"])))
    # hyper-parameter VALUES belong to the caller too (lists, dicts, masks given to the constructor): every method that
    # reads one is analysed with `self.<hp>` as a caller-owned object
    from ..e2_tables import TableEval
    te = TableEval(pm)
    hps = set()
    for K in pm.estimators():
        for h, doms in te.class_constraints(K).items():
            if any(d.kind == "type" and d.name.split(".")[-1] in ("list", "dict", "ndarray", "set", "_GEMINI") for d in doms):
                hps.add(h)      # only container / array / object valued hyper-parameters can be mutated in place
    hp_chains = {f"{r}.{h}" for h in hps for r in ("self", "clf", "gemini_model")}
    for ci in pm.classes.values():
        if not any(m.external and m.name == "BaseEstimator" for m in ci.mro):
            continue
        for mn, f in ci.methods.items():
            if mn != "__init__" and any(isinstance(n, ast.Attribute) and attr_chain(n) in hp_chains for n in ast.walk(f)):
                work.append((ci.unit, f"{ci.name}.{mn}", f, frozenset()))
    su = pm.unit("gemclus.sparse._base_sparse")
    for fn in ("_path", "compute_val_score"):
        work.append((su, fn, su.func(fn), frozenset(["X", "y"])))
    seen = set()
    tainted_attrs = set()
    findings = []
    n_funcs = 0
    while work:
        unit, q, f, tparams = work.pop()
        key = (id(f), tparams)
        if key in seen:
            continue
        seen.add(key)
        n_funcs += 1
        tainted = set(tparams) | {a for a in tainted_attrs} | hp_chains
        # two passes for loops
        for _ in range(2):
            for st in ast.walk(f):
                if _enclosing_def(st) is not f and not isinstance(st, ast.FunctionDef):
                    pass
                if isinstance(st, ast.Assign):
                    v = is_view_expr(st.value, tainted)
                    for t in st.targets:
                        if isinstance(t, ast.Name):
                            if v:
                                tainted.add(t.id)
                        elif isinstance(t, ast.Attribute) and v:
                            ch = attr_chain(t)
                            if ch:
                                tainted.add(ch)
                                if ch.startswith("self."):
                                    tainted_attrs.add(ch)
                        elif isinstance(t, (ast.Tuple, ast.List)) and isinstance(st.value, (ast.Tuple, ast.List)) and len(t.elts) == len(st.value.elts):
                            for tt, vv in zip(t.elts, st.value.elts):
                                if isinstance(tt, ast.Name) and is_view_expr(vv, tainted):
                                    tainted.add(tt.id)
                elif isinstance(st, ast.For):
                    # iterating a tainted array yields views of its rows
                    if is_view_expr(st.iter, tainted):
                        for n in ast.walk(st.target):
                            if isinstance(n, ast.Name):
                                tainted.add(n.id)
        # sinks
        for st in ast.walk(f):
            if isinstance(st, ast.AugAssign):
                b = base_name(st.target)
                if b in tainted:
                    findings.append((unit, q, st, f"in-place `{type(st.op).__name__}` on {b}, which may alias an object owned by the caller "
                                     f"(an input array or the value of a hyper-parameter)"))
            elif isinstance(st, ast.Assign):
                for t in st.targets:
                    if isinstance(t, ast.Subscript):
                        b = base_name(t)
                        if b in tainted:
                            findings.append((unit, q, st, f"element store into {b}, which may alias a caller's array"))
            elif isinstance(st, ast.Call):
                cn = call_name(st) or ""
                last = cn.split(".")[-1]
                if isinstance(st.func, ast.Attribute) and last in SINK_METHODS and base_name(st.func.value) in tainted:
                    findings.append((unit, q, _stmt(st), f".{last}() mutates {base_name(st.func.value)} in place"))
                if last in SINK_FUNCS and cn.split(".")[0] in ("np", "numpy") and len(st.args) > SINK_FUNCS[last]:
                    b = base_name(st.args[SINK_FUNCS[last]])
                    if b in tainted or is_view_expr(st.args[SINK_FUNCS[last]], tainted):
                        findings.append((unit, q, _stmt(st), f"np.{last} writes into {b}, which may alias a caller's array"))
                if last == "shuffle" and st.args and (base_name(st.args[0]) in tainted):
                    findings.append((unit, q, _stmt(st), f"shuffle permutes {base_name(st.args[0])} in place"))
                for k in st.keywords:
                    if k.arg == "out" and is_view_expr(k.value, tainted):
                        findings.append((unit, q, _stmt(st), f"out= writes into {norm_src(k.value)}"))
                    if k.arg == "copy" and isinstance(k.value, ast.Constant) and k.value.value is False and last in ("check_array", "validate_data", "array", "astype"):
                        pass
                # propagate into GemClus callees
                callee = None
                ci = None
                if "." in q:
                    cname = q.split(".")[0]
                    ci = pm.classes.get(cname)
                targets = []
                if ci is not None and isinstance(st.func, ast.Attribute) and isinstance(st.func.value, (ast.Name, ast.Call)):
                    recvn = st.func.value.id if isinstance(st.func.value, ast.Name) else "super"
                    if recvn in ("self", "super", "clf", "gemini_model"):
                        for K in [k for k in pm.classes.values() if ci in k.mro]:
                            C2, m2 = pm.resolve_method(K, st.func.attr, after=ci if recvn == "super" else None)
                            if m2 is not None and not C2.external:
                                targets.append((C2.unit, f"{C2.name}.{st.func.attr}", m2, 1))
                elif isinstance(st.func, ast.Attribute) and isinstance(st.func.value, ast.Name) and st.func.value.id in ("clf", "gemini_model", "gemini", "gemini_objective"):
                    for K in pm.classes.values():
                        if st.func.attr in K.methods:
                            targets.append((K.unit, f"{K.name}.{st.func.attr}", K.methods[st.func.attr], 1))
                elif isinstance(st.func, ast.Name):
                    kind, tgt = resolve_name(pm, unit, st.func.id)
                    if kind == "function":
                        targets.append((tgt[0], st.func.id, tgt[1], 0))
                    elif st.func.id in ("gemini", "gemini_objective"):
                        for K in pm.classes.values():
                            if "evaluate" in K.methods and any(m.name == "_GEMINI" for m in K.mro):
                                targets.append((K.unit, f"{K.name}.evaluate", K.methods["evaluate"], 1))
                done = set()
                for u2, q2, f2, off in targets:
                    if id(f2) in done:
                        continue
                    done.add(id(f2))
                    ps = func_params(f2)[off:]
                    tp = set()
                    for i, a in enumerate(st.args):
                        if i < len(ps) and is_view_expr(a, tainted):
                            tp.add(ps[i])
                    for k in st.keywords:
                        if k.arg in ps and is_view_expr(k.value, tainted):
                            tp.add(k.arg)
                    if tp:
                        work.append((u2, q2, f2, frozenset(tp)))
    seenk = set()
    for unit, q, st, msg in findings:
        k = (unit.relpath, q, norm_src(st))
        if k in seenk:
            continue
        seenk.add(k)
        ctx.violation("C12-e", unit.relpath, q, norm_src(st)[:160], msg, line=st.lineno, site=f"{q}: {norm_src(st)[:60]}")
    for (fid, tp) in sorted(seen, key=lambda x: str(x[1])):
        pass
    names = sorted({q for (u, q, st, m) in findings})
    done_funcs = n_funcs
    for i in range(done_funcs):
        pass
    # one obligation per analysed (function, tainted parameter set)
    reported = {(u.relpath, q) for u, q, st, m in findings}
    for (fid, tp) in seen:
        pass
    # reconstruct names for evidence
    ctx.notes["c12e_functions"] = n_funcs
    for idx, (fid, tp) in enumerate(sorted(seen, key=lambda x: (len(x[1]), sorted(x[1])))):
        ctx.ok("C12-e", f"function #{idx} with caller-aliasing parameters {sorted(tp)}", "no in-place sink reaches them")


# ------------------------------------------------------------------------------------------- controls
def controls(pm, tier):
    out = []

    def mut(mod, find, repl, rule, name, also=()):
        def apply(pm_):
            u = pm_.unit(mod)
            if find not in u.src:
                return None
            return {u.relpath: u.src.replace(find, repl, 1)}
        out.append({"name": name, "rule": rule, "apply": apply, "also": also})
    B, S, L, G, K = "gemclus._base_gemini", "gemclus.sparse._base_sparse", "gemclus.linear._linear_geminis", "gemclus.gemini._geomdistances", "gemclus.tree.kauri"
    mut(L, "        self.reg = reg\n        self.base_kernel = base_kernel", "        self.reg = float(reg)\n        self.base_kernel = base_kernel", "C12-a", "constructor converts a parameter")
    mut(S, "    clf.set_params(alpha=initial_alpha)\n", "", "C12-b", "path leaves alpha modified")
    mut(B, "        self._init_params(random_state, X)\n", "        if not hasattr(self, 'labels_'):\n            self._init_params(random_state, X)\n", "C12-c", "warm start when already fitted")
    mut(B, "        y_pred = self._infer(X, retain=False)\n        return y_pred", "        y_pred = self._infer(X, retain=False)\n        self.last_proba_ = y_pred\n        return y_pred", "C12-e", "placeholder", )
    out.pop()   # the above is not a C12 violation by itself; dropped
    mut(B, "all_indices = random_state.permutation(len(X))", "all_indices = np.random.permutation(len(X))", "C12-d", "global RNG permutation")
    mut(B, "        random_state = check_random_state(self.random_state)\n\n        # Initialise", "        random_state = check_random_state(None)\n\n        # Initialise", "C12-d", "fit ignores random_state")
    mut(G, "        y_pred = np.clip(y_pred, a_min=self.epsilon, a_max=1 - self.epsilon)\n\n        N = y_pred.shape[0]",
        "        y_pred = np.clip(y_pred, a_min=self.epsilon, a_max=1 - self.epsilon, out=y_pred)\n\n        N = y_pred.shape[0]", "C12-e", "MMD clips the caller's predictions in place")
    mut(G, "normalised_kernel = affinity / N ** 2", "affinity /= N ** 2\n        normalised_kernel = affinity", "C12-e", "MMD normalises the caller's kernel in place")
    mut(K, "            kernel = y\n", "            kernel = y\n            kernel -= kernel.mean()\n", "C12-e", "Kauri centres the precomputed kernel in place")
    mut(L, "        self.input_data_ = X\n", "        self.input_data_ = X\n        X -= 0\n", "C12-e", "KernelRIM writes into X")
    mut("gemclus.sparse._mlp_sparse", "        validate_data(self, X)\n", "        validate_data(self, X, reset=False)\n", "C12-f", "pre-check keeps the feature count of the previous fit")
    return out
