"""C14 - must-link / cannot-link constraints: index spaces, sign and rows, validation wiring."""
from ..astutil import clone as _clone
import ast

from ..pm import AnalysisError, norm_src, func_params
from ..flow import CFG, attr_chain
from ..astutil import call_name, kwarg
from ..e6_algebra import to_rat, NotScalarArithmetic, Rat, Poly
from ..e5_mirror import mirror_equal, mirror_diff
from ..e3_axes import Interp, Arr, Num, Ax, Lst, Tup, NoneV, Fun, Gen, Obj, Frame
from ..scenarios import symbolic_estimator, data_XY, nonusage, dedup_events

PROP = "C14"
EXPLANATION = (
    "(a) index spaces: add_mlcl_constraint is interpreted abstractly with constraint pairs typed as indices into the sample "
    "axis; positions inside the list of distinct must-link indices form their own index space (graph nodes), batch rows "
    "another; every comparison (==, in, list.index) and subscript must relate indices of the same space - this covers the "
    "connected-component check (graph nodes vs sample ids) and the gradient injection (sample ids vs batch rows), executed "
    "through a decorated fit; (b) sign and rows: for a cannot-link pair the increment of row a is +factor*(p_a - p_b) and the one "
    "of row b is its mirror, for a must-link pair the negation, the rows are the positions of the two samples in the recorded "
    "batch, guarded by both being present, and no other row of the gradient is written; (c) validation wiring: both lists go "
    "through the same shape (2-D, >= 2 columns, integers) and self-pair checks, the contradiction check runs iff both are "
    "non-empty, all before the model is decorated; the contradiction test looks at both orientations of a pair (also when written as a lookup in a set of "
    "itertools.combinations); (d) the component search starts every breadth-first search from a node that no earlier search reached (worklist idiom accepted, a "
    "counter advanced by the component sizes is a violation, any other form is undecided). Not decided: csgraph.breadth_first_order itself (trusted).")
ASSUMPTIONS = ["scipy.sparse.csgraph.breadth_first_order returns node ids of the given adjacency matrix", "check_array(ensure_2d, ensure_min_features=2, dtype=int)"]
ADOPT = [("C10", ["C10-e"], "the extra gradient is placed with the indices recorded by the decorated _batchify: they must be those of the batch being trained on")]

M = "gemclus.mlcl"


def _parents_c14(n):
    n = getattr(n, "_parent", None)
    while n is not None:
        yield n
        n = getattr(n, "_parent", None)


def _pair_set_membership(sf, test):
    """`<pair> in S` with S = set(itertools.combinations(C, 2)): combinations lists the members of C in the order of C, so a cannot-link pair is found
    in both orientations only if it is normalised the same way as C is ordered (both sorted), or if both orientations are looked up.
    True / explanation string (a violation) / None (not this form)"""
    t = test
    if not (isinstance(t, ast.Compare) and len(t.ops) == 1 and isinstance(t.ops[0], ast.In) and isinstance(t.comparators[0], ast.Name)):
        return None
    sname = t.comparators[0].id
    defs = [s_ for s_ in ast.walk(sf) if isinstance(s_, ast.Assign) and len(s_.targets) == 1 and isinstance(s_.targets[0], ast.Name) and s_.targets[0].id == sname]
    if len(defs) != 1:
        return None
    v = defs[0].value
    inner = v.args[0] if isinstance(v, ast.Call) and call_name(v) in ("set", "frozenset") and len(v.args) == 1 else None
    if not (isinstance(inner, ast.Call) and (call_name(inner) or "").split(".")[-1] == "combinations" and len(inner.args) + len(inner.keywords) == 2 and inner.args):
        return None
    comp_sorted = isinstance(inner.args[0], ast.Call) and call_name(inner.args[0]) == "sorted"
    key = t.left
    key_sorted = isinstance(key, ast.Call) and call_name(key) == "tuple" and key.args and isinstance(key.args[0], ast.Call) and call_name(key.args[0]) == "sorted"
    if comp_sorted and key_sorted:
        return True
    return (f"the cannot-link pair is looked up as `{norm_src(key)}` in the set of itertools.combinations({norm_src(inner.args[0])}, 2): combinations lists each pair in the "
            f"order of its first argument, which is {'sorted' if comp_sorted else 'NOT sorted (search / set order)'}, while the key is "
            f"{'sorted' if key_sorted else 'in the order the user wrote it'}: a contradictory pair whose members appear in the other order is not found")


def _both_orientations(test):
    """(x == p and y == q) or (x == q and y == p) for two distinct pairs of operands, whatever their names; also inside any(... for ... in ...).
    True / False (a recognisable test of another shape, e.g. one orientation only) / None (not recognised)"""
    from ..pm import canon_node
    t = canon_node(test)
    if isinstance(t, ast.Call) and isinstance(t.func, ast.Name) and t.func.id == "any" and len(t.args) == 1 and isinstance(t.args[0], (ast.GeneratorExp, ast.ListComp)):
        t = t.args[0].elt

    def conj(e):
        if isinstance(e, ast.BoolOp) and isinstance(e.op, ast.And) and len(e.values) == 2 and all(
                isinstance(v, ast.Compare) and len(v.ops) == 1 and isinstance(v.ops[0], ast.Eq) for v in e.values):
            return frozenset(frozenset([str(norm_src(v.left)), str(norm_src(v.comparators[0]))]) for v in e.values)
        return None
    if isinstance(t, ast.BoolOp) and isinstance(t.op, ast.Or):
        cs = [conj(v) for v in t.values]
        if any(c is None for c in cs):
            return None
        if len(cs) != 2:
            return False
        a, b = cs
        syms = set().union(*a)
        if len(a) != 2 or len(b) != 2 or len(syms) != 4 or set().union(*b) != syms:
            return False
        # there must be a split {x, y} | {p, q} of the four operands such that both conjunctions match x, y with p, q - in the two different ways
        a1, a2 = [sorted(p_) for p_ in a]
        for left in ({a1[0], a2[0]}, {a1[0], a2[1]}):
            if all(len(p_ & left) == 1 for p_ in b) and a != b:
                return True
        return False
    if conj(t) is not None:
        return False        # one orientation only
    return None


def run(pm, ctx):
    u = pm.unit(M)
    ctx.rule("C14-a", "positions in the must-link graph, sample ids and batch rows are different index spaces", floor=10)
    ctx.rule("C14-b", "the constraint term must act on the rows of the paired samples with the right sign", floor=6)
    ctx.rule("C14-c", "malformed or contradictory constraints are rejected before the model is touched", floor=6)
    af = u.func("add_mlcl_constraint")
    # ------------------------------------------------------------------ a (E3)
    I = Interp(pm)
    obj = symbolic_estimator(I, pm.classes["LinearModel"], "int")
    N = Ax("N")
    pairs = lambda L: Lst(elem=Tup([Num("i", space=N), Num("i", space=N)]), length=Ax(L))
    I.call_function(u, af, [obj, pairs("P"), pairs("Q"), Num("f")], {}, qual="add_mlcl_constraint")
    X, Y = data_XY()
    I.call_method(obj, "fit", [X, Y])
    evs = [e for e in dedup_events(nonusage(I.events)) if e.unit is not None and e.unit.relpath == u.relpath
           and e.kind in ("axis-mismatch", "index-space", "fancy-inplace")]
    for e in evs:
        st = e.stmt()
        ctx.violation("C14-a", u.relpath, e.func, norm_src(st)[:160] if st is not None else "?", f"[{e.kind}] {e.msg}", line=getattr(e.node, "lineno", None),
                      site=f"{e.func}: {norm_src(e.node)[:50]}")
    seen = set()
    for node, ok, qual in I.index_checks:
        if ok and id(node) not in seen and (qual.startswith("_check") or "intercept" in qual or "disguise" in qual or "add_mlcl" in qual):
            seen.add(id(node))
            ctx.ok("C14-a", f"{qual}: {norm_src(node)[:50]}")
    # comparisons that were judged (same space on both sides)
    for fn in ("_check_structural_constraint",):
        f = u.func(fn)
        cmps = [n for n in ast.walk(f) if isinstance(n, ast.Compare) and isinstance(n.ops[0], ast.Eq)]
        bad = [e for e in evs if e.func == fn]
        if not bad:
            for c in cmps:
                ctx.ok("C14-a", f"{fn}: {norm_src(c)[:50]}", "both sides are sample ids")
    unknown = [t for t in I.top_log if t[1] in ("_check_structural_constraint", "_check_linking_constraint") and t[0] not in ("recursion",)]
    if unknown:
        ctx.undecided_site("C14-a", "_check_structural_constraint", f"operation outside the transfer table: {norm_src(unknown[0][2])[:70]} ({unknown[0][0]})")

    # ------------------------------------------------------------------ b
    ig = [n for n in ast.walk(af) if isinstance(n, ast.FunctionDef) and n.name == "intercept_grads"]
    if not ig:
        raise AnalysisError("anchor vanished: intercept_grads")
    ig = ig[0]
    X_, yp, gr = func_params(ig)
    loops = [n for n in ig.body if isinstance(n, ast.For)]
    site0 = "intercept_grads"
    # the list of sample ids of the current batch: the local bound to <model>._batchify.indices
    COLL = next((norm_src(s_.targets[0]) for s_ in ig.body if isinstance(s_, ast.Assign) and isinstance(s_.targets[0], ast.Name)
                 and norm_src(s_.value).endswith("._batchify.indices")), None)
    kinds = {}
    for lp in loops:
        which = norm_src(lp.iter)
        if which not in ("cannot_link", "must_link"):
            continue
        kinds[which] = lp
    if set(kinds) != {"cannot_link", "must_link"}:
        ctx.unrecognised("C14-b", site0, "the injection is not written as one loop over must_link and one over cannot_link")
    for which, lp in kinds.items():
        site = f"intercept_grads: {which}"
        sign = 1 if which == "cannot_link" else -1
        probs = []
        tg = [norm_src(e) for e in lp.target.elts] if isinstance(lp.target, ast.Tuple) else []
        if len(tg) != 2:
            ctx.unrecognised("C14-b", site, "the pair is not unpacked into two sample ids")
            continue
        a, b = tg
        gstat, body, gwhy = _pair_guard(lp, a, b, COLL or "last_indices")
        if gstat == "unrecognised":
            ctx.unrecognised("C14-b", site, gwhy)
            continue
        if gstat == "bad":
            probs.append(gwhy)
        idx = [s for s in body if isinstance(s, ast.Assign) and isinstance(s.targets[0], ast.Tuple)]
        rows = None
        if idx and COLL and [norm_src(e) for e in idx[0].value.elts] == [f"{COLL}.index({a})", f"{COLL}.index({b})"]:
            rows = [norm_src(e) for e in idx[0].targets[0].elts]
        if rows is None and COLL:
            # two separate assignments r0 = <recorded>.index(a); r1 = <recorded>.index(b)
            single = {norm_src(s.value): norm_src(s.targets[0]) for s in body if isinstance(s, ast.Assign) and len(s.targets) == 1 and isinstance(s.targets[0], ast.Name)}
            if f"{COLL}.index({a})" in single and f"{COLL}.index({b})" in single:
                rows = [single[f"{COLL}.index({a})"], single[f"{COLL}.index({b})"]]
        ups = [s for s in body if isinstance(s, ast.AugAssign)]
        if rows is None:
            ctx.unrecognised("C14-b", site, "rows are not located with <recorded indices>.index(sample)")
            continue
        if rows and len(ups) == 2:
            r0, r1 = rows
            for s, (me, other) in zip(ups, ((r0, r1), (r1, r0))):
                if norm_src(s.target) != f"{gr}[{me}]":
                    probs.append(f"`{norm_src(s)}` does not update row {me} of the gradient")
                    continue
                try:
                    val = to_rat(s.value)
                    want = to_rat(ast.parse(f"factor * ({yp}[{me}] - {yp}[{other}])", mode="eval").body)
                    sgn = 1 if isinstance(s.op, ast.Add) else (-1 if isinstance(s.op, ast.Sub) else 0)
                    eff = val if sgn == 1 else (Rat(Poly.const(0)) - val)
                    target = want if sign == 1 else (Rat(Poly.const(0)) - want)
                    if sgn == 0 or not eff.equals(target):
                        probs.append(f"row {me} receives `{norm_src(s)}`; expected {'+' if sign == 1 else '-'}factor*(p[{me}] - p[{other}])")
                except NotScalarArithmetic as e:
                    probs.append(f"non-linear update {e}")
            if not mirror_equal(ups[0], ups[1], {r0: r1}):
                probs.append("the two updates are not mirror images under the exchange of the two rows")
        elif rows:
            probs.append(f"{len(ups)} updates for a pair")
        other_writes = [s for s in ast.walk(lp) if isinstance(s, (ast.Assign, ast.AugAssign)) and any(isinstance(t, ast.Subscript) and norm_src(t.value) == gr
                        for t in ([s.target] if isinstance(s, ast.AugAssign) else s.targets)) and s not in ups]
        if other_writes:
            probs.append(f"other rows of the gradient are written: {norm_src(other_writes[0])}")
        if probs:
            ctx.violation("C14-b", u.relpath, "add_mlcl_constraint.intercept_grads", norm_src(ups[0]) if ups else norm_src(lp)[:100], "; ".join(probs), line=lp.lineno, site=site)
        else:
            ctx.ok("C14-b", site, f"rows at the batch positions of both samples; {'+' if sign == 1 else '-'}factor*(p_a - p_b) and its mirror")
            ctx.ok("C14-b", site + ": guard both-in-batch")
            ctx.ok("C14-b", site + ": no other row written")
    # last_indices is the list recorded by the batch wrapper
    src = [norm_src(s) for s in ig.body]
    if COLL is not None and f"{COLL} = gemini_model._batchify.indices" in src:
        ctx.ok("C14-b", "intercept_grads: rows located in the indices recorded by the decorated _batchify")
    else:
        ctx.violation("C14-b", u.relpath, "add_mlcl_constraint.intercept_grads", "last_indices", "batch positions are not looked up in the recorded batch indices", line=ig.lineno,
                      site="intercept_grads: last_indices")

    # ------------------------------------------------------------------ component search: every connected component is enumerated
    ctx.rule("C14-d", "the contradiction check must look at every connected component of the must-link graph: each search starts from a node that no earlier "
             "search has reached", floor=1)
    sf = u.func("_check_structural_constraint")
    site_d = "_check_structural_constraint: component search"
    bfs = [n for n in ast.walk(sf) if isinstance(n, ast.Call) and (call_name(n) or "").endswith("breadth_first_order")]
    loops_d = [n for n in ast.walk(sf) if isinstance(n, ast.While) and any(b_ in list(ast.walk(n)) for b_ in bfs)]
    if len(bfs) != 1 or len(loops_d) != 1:
        ctx.unrecognised("C14-d", site_d, "no single loop around one breadth-first search")
    else:
        lp_, call_ = loops_d[0], bfs[0]
        start = call_.args[1] if len(call_.args) > 1 else next((k.value for k in call_.keywords if k.arg == "i_start"), None)
        reach = next((s_.targets[0].id for s_ in lp_.body if isinstance(s_, ast.Assign) and s_.value is call_ and isinstance(s_.targets[0], ast.Name)), None)
        verdict = None
        if isinstance(start, ast.Subscript) and isinstance(start.value, ast.Name) and reach:
            W = start.value.id
            init = [s_ for s_ in sf.body if isinstance(s_, ast.Assign) and isinstance(s_.targets[0], ast.Name) and s_.targets[0].id == W]
            full = bool(init) and norm_src(init[-1].value) in ("list(range(len(unique_indices)))", "list(range(len(connection_matrix)))", "list(range(connection_matrix.shape[0]))")
            test_ok = norm_src(lp_.test) in (f"len({W}) != 0", f"0 != len({W})", W, f"0 < len({W})", f"len({W}) > 0")
            removes = [n for n in ast.walk(lp_) if isinstance(n, ast.Call) and isinstance(n.func, ast.Attribute) and n.func.attr == "remove" and norm_src(n.func.value) == W]
            rem_ok = any(isinstance(p_, ast.For) and norm_src(p_.iter) == reach and norm_src(p_.target) == norm_src(r_.args[0]) for r_ in removes for p_ in _parents_c14(r_))
            if full and test_ok and rem_ok:
                verdict = ("ok", f"worklist {W}: starts from its first element, every reached node is removed, loops until it is empty")
            elif full and test_ok and not removes:
                verdict = ("bad", f"the nodes reached by a search are never removed from {W}")
        elif isinstance(start, ast.Name) and reach:
            # a counter advanced by the size of each component: node number `counter` is unexplored only if the components are contiguous in node order
            ups = [n for n in ast.walk(lp_) if isinstance(n, ast.AugAssign) and isinstance(n.target, ast.Name) and n.target.id == start.id and isinstance(n.op, ast.Add)
                   and norm_src(n.value) in (f"len({reach})", f"{reach}.shape[0]", f"{reach}.size")]
            if ups:
                verdict = ("bad", f"each search starts at node number `{start.id}` = the number of nodes reached so far: that node may belong to a component that was "
                                  "already explored (components are not contiguous in node order), and another component is then never enumerated")
        if verdict is None:
            ctx.unrecognised("C14-d", site_d, f"start node `{norm_src(start) if start is not None else '?'}`: neither the worklist idiom nor a recognised defect")
        elif verdict[0] == "ok":
            ctx.ok("C14-d", site_d, verdict[1])
        else:
            ctx.violation("C14-d", u.relpath, "_check_structural_constraint", norm_src(call_)[:160], verdict[1], line=call_.lineno, site=site_d)

    # ------------------------------------------------------------------ c
    lf = u.func("_check_linking_constraint")
    blocks = {}
    for s in lf.body:
        if isinstance(s, ast.If) and norm_src(s.test) in ("must_link is not None", "cannot_link is not None"):
            blocks[norm_src(s.test).split()[0]] = s
    site = "_check_linking_constraint: sibling checks"
    if set(blocks) == {"must_link", "cannot_link"}:
        a, b = blocks["must_link"], blocks["cannot_link"]
        # compare modulo message strings
        ok = _same_modulo_strings(a, b, {"must_link": "cannot_link"})
        ca = [n for n in ast.walk(a) if isinstance(n, ast.Call) and call_name(n) == "check_array"]
        kw = {k.arg: norm_src(k.value) for k in ca[0].keywords} if ca else {}
        okkw = kw.get("ensure_2d") == "True" and kw.get("ensure_min_features") == "2" and kw.get("dtype") == "int"
        selfp = [n for n in ast.walk(a) if isinstance(n, ast.If) and "[:, 0] == " in norm_src(n.test) and n.body and isinstance(n.body[-1], ast.Raise)]
        if ok and okkw and selfp:
            ctx.ok("C14-c", site, "must-link and cannot-link validated identically (2-D, >= 2 columns, int, no self pair)")
            ctx.ok("C14-c", "_check_linking_constraint: self pairs raise")
            ctx.ok("C14-c", "_check_linking_constraint: check_array(ensure_2d, ensure_min_features=2, dtype=int)")
        else:
            ctx.violation("C14-c", u.relpath, "_check_linking_constraint", norm_src(ca[0])[:160] if ca else "check_array",
                          "the two constraint lists are not validated by the same shape / self-pair checks" if not ok else "shape or self-pair check weakened",
                          line=lf.lineno, site=site)
    else:
        # both lists validated by one shared helper: must_link = H(must_link, ...); cannot_link = H(cannot_link, ...)
        calls = {}
        for s in lf.body:
            if isinstance(s, ast.Assign) and len(s.targets) == 1 and isinstance(s.targets[0], ast.Name) and s.targets[0].id in ("must_link", "cannot_link") \
                    and isinstance(s.value, ast.Call) and isinstance(s.value.func, ast.Name) and s.value.args and norm_src(s.value.args[0]) == s.targets[0].id:
                calls[s.targets[0].id] = s.value
        helper = None
        if set(calls) == {"must_link", "cannot_link"} and calls["must_link"].func.id == calls["cannot_link"].func.id:
            try:
                helper = u.func(calls["must_link"].func.id)
            except Exception:
                helper = None
        if helper is None:
            ctx.unrecognised("C14-c", site, "neither one validation block per list nor one shared validation helper applied to both lists")
        else:
            hp = func_params(helper)[0]
            ca = [n for n in ast.walk(helper) if isinstance(n, ast.Call) and call_name(n) == "check_array" and n.args and norm_src(n.args[0]) == hp]
            kw = {k.arg: norm_src(k.value) for k in ca[0].keywords} if ca else {}
            okkw = kw.get("ensure_2d") == "True" and kw.get("ensure_min_features") == "2" and kw.get("dtype") == "int"
            selfp = [n for n in ast.walk(helper) if isinstance(n, ast.If) and "[:, 0] == " in norm_src(n.test) and n.body and isinstance(n.body[-1], ast.Raise)]
            # the only path around the checks is the one for a missing list
            early = [n for n in ast.walk(helper) if isinstance(n, ast.Return) and n is not helper.body[-1]]
            early_ok = all(any(isinstance(p_, ast.If) and norm_src(p_.test) == f"{hp} is None" for p_ in _parents_c14(n)) for n in early)
            if okkw and selfp and early_ok:
                ctx.ok("C14-c", site, f"must-link and cannot-link validated by the same helper {helper.name} (2-D, >= 2 columns, int, no self pair)")
                ctx.ok("C14-c", "_check_linking_constraint: self pairs raise")
                ctx.ok("C14-c", "_check_linking_constraint: check_array(ensure_2d, ensure_min_features=2, dtype=int)")
            else:
                ctx.violation("C14-c", u.relpath, helper.name, norm_src(ca[0])[:160] if ca else "check_array", "shape or self-pair check weakened in the shared validation helper",
                              line=helper.lineno, site=site)
    st = [s for s in lf.body if isinstance(s, ast.If) and "_check_structural_constraint" in norm_src(s)]
    site = "_check_linking_constraint: contradiction check"
    if st and norm_src(st[0].test) in ("len(must_link) > 0 and len(cannot_link) > 0", "len(cannot_link) > 0 and len(must_link) > 0") and lf.body[-1] is st[0] \
            and "_check_structural_constraint(must_link, cannot_link)" in norm_src(st[0]):
        ctx.ok("C14-c", site, "runs iff both lists are non-empty, after both were validated")
    else:
        ctx.violation("C14-c", u.relpath, "_check_linking_constraint", norm_src(st[0].test) if st else "structural check", "the contradiction check does not run exactly "
                      "when both lists are non-empty, on the validated lists", line=lf.lineno, site=site)
    # raise inside the structural check for a cannot-link pair inside one component
    sf = u.func("_check_structural_constraint")
    rs = [n for n in ast.walk(sf) if isinstance(n, ast.Raise)]
    if len(rs) == 1:
        conds = [norm_src(p.test) for p in _parents(rs[0]) if isinstance(p, ast.If)]
        tests = [p.test for p in _parents(rs[0]) if isinstance(p, ast.If)]
        verdict = _both_orientations(tests[0]) if tests else None
        if verdict is None and tests:
            verdict = _pair_set_membership(sf, tests[0])
        if isinstance(verdict, str):
            ctx.violation("C14-c", u.relpath, "_check_structural_constraint", conds[0] if conds else "raise", verdict, line=rs[0].lineno, site="_check_structural_constraint: raise")
        elif verdict is True:
            ctx.ok("C14-c", "_check_structural_constraint: raises when a cannot-link pair (either orientation) lies in one component")
        elif verdict is None:
            ctx.unrecognised("C14-c", "_check_structural_constraint: raise", f"contradiction test `{conds[0][:80] if conds else ''}` is not a disjunction of pairwise equalities")
        else:
            ctx.violation("C14-c", u.relpath, "_check_structural_constraint", conds[0] if conds else "raise", "the contradiction test does not compare both orientations of "
                          "the cannot-link pair", line=rs[0].lineno, site="_check_structural_constraint: raise")
    else:
        ctx.violation("C14-c", u.relpath, "_check_structural_constraint", "raise", "no contradiction is ever raised", line=sf.lineno, site="_check_structural_constraint: raise")
    asrc = [norm_src(s) for s in af.body]
    try:
        i_chk = asrc.index("_check_linking_constraint(must_link, cannot_link)")
        i_dec = next(i for i, s in enumerate(asrc) if s.startswith("gemini_model._batchify ="))
        okk = i_chk < i_dec
    except (ValueError, StopIteration):
        okk = False
    if okk:
        ctx.ok("C14-c", "add_mlcl_constraint: constraints are validated before the model is decorated")
    else:
        ctx.violation("C14-c", u.relpath, "add_mlcl_constraint", "_check_linking_constraint", "the model is decorated before (or without) validating the constraints",
                      line=af.lineno, site="add_mlcl_constraint: order")


def _parents(n):
    p = getattr(n, "_parent", None)
    while p is not None:
        yield p
        p = getattr(p, "_parent", None)


def _same_modulo_strings(a, b, mapping):
    import copy

    class Strip(ast.NodeTransformer):
        def visit_Constant(self, n):
            if isinstance(n.value, str):
                return ast.copy_location(ast.Constant(value="S"), n)
            return n

        def visit_JoinedStr(self, n):
            return ast.copy_location(ast.Constant(value="S"), n)
    a2 = ast.fix_missing_locations(Strip().visit(_clone(a)))
    b2 = ast.fix_missing_locations(Strip().visit(_clone(b)))
    return mirror_equal(a2, b2, mapping)



def _membership(test, names, coll="last_indices"):
    """-> ('all_in' | 'some_out' | None): test is `a in L and b in L` / its negation (De Morgan forms)"""
    def atom(e):
        if isinstance(e, ast.Compare) and len(e.ops) == 1 and norm_src(e.comparators[0]) == coll and norm_src(e.left) in names:
            if isinstance(e.ops[0], ast.In):
                return ("in", norm_src(e.left))
            if isinstance(e.ops[0], ast.NotIn):
                return ("out", norm_src(e.left))
        if isinstance(e, ast.UnaryOp) and isinstance(e.op, ast.Not):
            a = atom(e.operand)
            if a:
                return ("out" if a[0] == "in" else "in", a[1])
        return None
    if isinstance(test, ast.UnaryOp) and isinstance(test.op, ast.Not):
        r = _membership(test.operand, names, coll)
        return {"all_in": "some_out", "some_out": "all_in"}.get(r)
    if isinstance(test, ast.BoolOp):
        ats = [atom(v) for v in test.values]
        if None in ats or {a[1] for a in ats} != set(names):
            return None
        if isinstance(test.op, ast.And) and all(a[0] == "in" for a in ats):
            return "all_in"
        if isinstance(test.op, ast.Or) and all(a[0] == "out" for a in ats):
            return "some_out"
    return None


def _pair_guard(lp, a, b, coll="last_indices"):
    """the statements executed for a pair whose two samples are in the batch. -> (status, body, why)"""
    early = [n for n in ast.walk(lp) if isinstance(n, (ast.Break, ast.Return))]
    if early:
        return "bad", [x for x in lp.body if not isinstance(x, ast.If)] or lp.body, \
            f"`{norm_src(early[0])}` inside the loop over pairs: once one pair is not in the batch, all later pairs are skipped"
    first = lp.body[0]
    if isinstance(first, ast.If):
        m = _membership(first.test, (a, b), coll)
        if m == "all_in" and len(lp.body) == 1 and not first.orelse:
            return "ok", first.body, ""
        if m == "some_out" and len(first.body) == 1 and isinstance(first.body[0], ast.Continue) and not first.orelse:
            return "ok", lp.body[1:], ""
        if m == "some_out" and first.orelse and len(lp.body) == 1 and all(isinstance(x, (ast.Pass, ast.Continue)) for x in first.body):
            return "ok", first.orelse, ""
        if m is None and any(isinstance(n, ast.Compare) and isinstance(n.ops[0], (ast.In, ast.NotIn)) for n in ast.walk(first.test)):
            names = {norm_src(n.left) for n in ast.walk(first.test) if isinstance(n, ast.Compare) and isinstance(n.ops[0], (ast.In, ast.NotIn))}
            if names < {a, b} or (isinstance(first.test, ast.BoolOp) and isinstance(first.test.op, ast.Or) and all(
                    isinstance(v, ast.Compare) and isinstance(v.ops[0], ast.In) for v in first.test.values)):
                return "bad", first.body, f"the guard `{norm_src(first.test)}` does not require BOTH samples to be in the batch (list.index raises for an absent sample)"
        return "unrecognised", None, f"guard `{norm_src(first.test)[:80]}` of the pair loop"
    if any(isinstance(n, ast.Try) for n in lp.body):
        return "unrecognised", None, "pair loop uses try/except"
    if any(isinstance(n, ast.Call) and isinstance(n.func, ast.Attribute) and n.func.attr == "index" for n in ast.walk(lp)):
        return "bad", lp.body, "the update is not guarded by both samples being in the batch (list.index raises for an absent sample)"
    return "unrecognised", None, "pair loop without membership guard"

def controls(pm, tier):
    out = []

    def mut(find, repl, rule, name, also=()):
        def apply(pm_):
            u = pm_.unit(M)
            if find not in u.src:
                return None
            return {u.relpath: u.src.replace(find, repl, 1)}
        out.append({"name": name, "rule": rule, "apply": apply, "also": also})
    mut("        for node in reacheable_nodes:\n            samples_to_explore.remove(node)\n", "        samples_to_explore.pop(0)\n", "C14-d", "only the start node leaves the worklist", also=())
    mut("        component = [unique_indices[node] for node in reacheable_nodes]\n        for i, j in itertools.combinations(component, r=2):",
        "        for i, j in itertools.combinations(reacheable_nodes, r=2):", "C14-a", "graph positions compared with sample ids")
    mut("                    gradient[idx0] += factor * (y_pred[idx0] - y_pred[idx1])\n                    gradient[idx1] += factor * (y_pred[idx1] - y_pred[idx0])\n            for (i, j) in must_link:",
        "                    gradient[i] += factor * (y_pred[idx0] - y_pred[idx1])\n                    gradient[idx1] += factor * (y_pred[idx1] - y_pred[idx0])\n            for (i, j) in must_link:", "C14-a", "gradient row addressed by the sample id", also=("C14-b",))
    mut("                    gradient[idx0] -= factor * (y_pred[idx0] - y_pred[idx1])", "                    gradient[idx0] += factor * (y_pred[idx0] - y_pred[idx1])", "C14-b", "must-link pushes apart")
    mut("                    gradient[idx1] += factor * (y_pred[idx1] - y_pred[idx0])", "                    gradient[idx1] += factor * (y_pred[idx0] - y_pred[idx1])", "C14-b", "cannot-link second row not mirrored")
    mut("            for (i, j) in must_link:\n                if i in last_indices and j in last_indices:", "            for (i, j) in must_link:\n                if i in last_indices or j in last_indices:", "C14-b", "must-link guard weakened")
    mut("        cannot_link = check_array(cannot_link, ensure_2d=True, ensure_min_features=2, dtype=int,", "        cannot_link = check_array(cannot_link, ensure_2d=True, ensure_min_features=1, dtype=int,", "C14-c", "cannot-link accepts single-column arrays")
    mut("    if len(must_link) > 0 and len(cannot_link) > 0:", "    if len(must_link) > 1 and len(cannot_link) > 0:", "C14-c", "contradiction check skipped for a single must-link")
    return out
