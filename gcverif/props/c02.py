"""C02 - GEMINI gradients: structural clauses (same score both ways, gradient shape, clip mask, arity, dual pairing)."""
import ast

from ..pm import AnalysisError, norm_src
from ..flow import implied_literals, CFG, ENTRY, EXIT, attr_chain
from ..astutil import replace_node, call_name
from ..e6_algebra import to_rat, NotScalarArithmetic
from ..e5_mirror import mirror_equal, mirror_diff
from ..e3_axes import Arr, Tup, Num, Ax, is_top
from ..scenarios import evaluate_scenario, GEMINI_CLASSES, nonusage, dedup_events

PROP = "C02"
EXPLANATION = (
    "Per GEMINI class (6) and ovo flag (2): (a) the score expression returned together with the gradient and the one "
    "returned alone are the same value (same reaching definitions, canonically equal expression); (b) the named-axis "
    "abstract interpretation of evaluate(y_pred:[N,K], affinity:[N,N], return_grad=True) yields a gradient of axes "
    "exactly [N,K] with no axis mismatch and no axis-less squeeze on a symbolic axis; (c) every returned gradient is a "
    "product with the mask (y_pred>eps)&(y_pred<1-eps) computed on the raw parameter; (d) the return_grad paths return "
    "pairs, the others never do, and no path falls off the end; (e) the Wasserstein dual potentials are paired with the "
    "marginals of the same emd2 call (u with the first, v with the second; the k2 update is the mirror of the k1 update). "
    "(g) the returned gradient IS the derivative of the returned score: evaluate() is translated to index-notation terms "
    "(gcverif.e8_numpy), the score term is differentiated symbolically with respect to y[m,j] and compared, as canonical forms "
    "(gcverif.e8_index), with the gradient term. The clip mask is a symbolic 0/1 tensor m: the predictions reaching the formulas are "
    "clip(y), so the derivative with respect to y[a,j] is m[a,j] * dS/dp[a,j] and the returned gradient must equal it exactly - a "
    "per-sample constant is NOT accepted (it cancels along the simplex only in rows without a clipped entry) and the mask must not "
    "enter a reduction over samples. This covers all 6 classes x 2 modes including the Wasserstein loops (emd2 as an opaque "
    "function with its dual potentials) and the MMD zero-distance masks; all n and K at once (sizes are symbols).")
from ..e8_gemini import ASSUMPTIONS as E8_ASSUMPTIONS
ADOPT = [("C13", ["C13-d"], "a score (and its gradient) is a function of the predictions and the affinity alone: a value cached on the objective and reused on the evidence of identity or shape makes it depend on earlier calls"),
         ("C13", ["C13-b"], "clipped entries receive zero gradient, so the gradient is the derivative of the score only if the score is a function of the CLIPPED predictions: a raw "
                            "prediction that reaches the formulas (other than through np.clip, the mask comparisons or .shape) gives the score a slope at clipped entries that the masked "
                            "gradient does not have; likewise a gradient through an unfloored square root or an unmasked zero distance is inf/NaN, not a derivative")]
ASSUMPTIONS = ["numpy broadcasting/reduction shape semantics as encoded in gcverif/e3_numpy.py",
               "ot.emd2(a, b, M, log=True) returns (cost, {'u': dual of a, 'v': dual of b})"] + E8_ASSUMPTIONS


def evaluate_func(pm, cname):
    ci = pm.classes.get(cname)
    if ci is None:
        raise AnalysisError(f"anchor vanished: class {cname}")
    f = ci.methods.get("evaluate")
    if f is None:
        raise AnalysisError(f"anchor vanished: {cname}.evaluate")
    return ci, f


def return_contexts(cfg, f):
    """[(Return stmt, grad: True/False/None, ovo: True/False/None)]"""
    grad_param = "return_grad"
    out = []
    for st in cfg.nodes:
        if not isinstance(st, ast.Return):
            continue
        grad = ovo = None
        for t, br in implied_literals(st):
            if t == grad_param:
                grad = br
            elif t == "self.ovo":
                ovo = br
        out.append((st, grad, ovo))
    return out


def factors(node):
    if isinstance(node, ast.BinOp) and isinstance(node.op, ast.Mult):
        return factors(node.left) + factors(node.right)
    return [node]


def is_raw_mask(expr, cfg, at, param="y_pred"):
    """expr is (param > eps) & (param < 1 - eps) with param being the untouched parameter at statement `at`"""
    from ..pm import canon_node
    expr = canon_node(expr)
    if not (isinstance(expr, ast.BinOp) and isinstance(expr.op, ast.BitAnd)):
        return False, "not a conjunction"
    lo = hi = None
    for c in (expr.left, expr.right):
        # canonical orientation: every order comparison is written with < / <=
        if isinstance(c, ast.Compare) and len(c.ops) == 1 and isinstance(c.ops[0], ast.Lt):
            l_, r_ = c.left, c.comparators[0]
            if isinstance(r_, ast.Name) and norm_src(l_) == "self.epsilon":
                lo = r_.id
            if isinstance(l_, ast.Name) and norm_src(r_).replace("(", "").replace(")", "") == "1 - self.epsilon":
                hi = l_.id
    if lo is None or hi is None:
        return False, "bounds are not (x > self.epsilon) & (x < 1 - self.epsilon)"
    if lo != param or hi != param:
        return False, f"mask is computed on {lo}/{hi}, not on the parameter {param}"
    rd = cfg.reaching()
    defs = rd[at].get(param, frozenset())
    if defs != frozenset([ENTRY]):
        return False, f"{param} was re-bound before the mask is computed"
    return True, ""


EXACT = set()          # (class, ovo) whose returned gradient was proved to be mask * d(score)/dp by C02-g in this run


def exact_gradients(pm):
    """(class, ovo) pairs proved exact (used by rules whose structural judgement is subsumed by that proof)"""
    from ..e8_gemini import check_gradient, check_same_score
    from ..e8_index import Unsupported
    out = set()
    for cname in GEMINI_CLASSES:
        for ovo in (False, True):
            try:
                st, _ = check_gradient(pm, cname, ovo)
                if st == "exact" and check_same_score(pm, cname, ovo):
                    out.add((cname, ovo))
            except (Unsupported, RecursionError):
                pass
    return out


def gradient_is_derivative(pm, ctx):
    EXACT.clear()
    from ..e8_gemini import check_gradient, check_same_score
    from ..e8_index import Unsupported
    for cname in GEMINI_CLASSES:
        ci, f = evaluate_func(pm, cname)
        for ovo in (False, True):
            site = f"{cname}.evaluate[ovo={ovo}]: gradient = d(score)/d(y_pred)"
            try:
                status, detail = check_gradient(pm, cname, ovo)
                same = check_same_score(pm, cname, ovo)
            except Unsupported as e:
                ctx.unrecognised("C02-g", site, f"outside the translated numpy subset: {e}")
                continue
            except RecursionError:
                ctx.unrecognised("C02-g", site, "term too deep")
                continue
            if not same:
                ctx.violation("C02-g", ci.unit.relpath, f"{cname}.evaluate", f"score[ovo={ovo}]", "the score returned with the gradient is a different "
                              "function of the predictions than the score returned alone", line=f.lineno, site=site + " (same score)")
            if status == "exact" and same:
                EXACT.add((cname, ovo))
            if status in ("exact", "tangent"):
                ctx.ok("C02-g", site, status + (": " + detail if detail else ""))
                if ctx.tier == "thorough":
                    from ..e8_gemini import cross_check_instances
                    try:
                        what, ok_ = cross_check_instances(pm, cname, ovo)[0]
                        if ok_:
                            ctx.ok("C02-g", site + " [finite instances]", what)
                        else:
                            ctx.undecided_site("C02-g", site + " [finite instances]", "the expanded instances disagree with the symbolic verdict: normaliser unsound - " + what)
                    except Unsupported as e:
                        ctx.undecided_site("C02-g", site + " [finite instances]", f"cannot expand: {e}")
            elif status == "undecided":
                ctx.undecided_site("C02-g", site, detail)
            else:
                ctx.violation("C02-g", ci.unit.relpath, f"{cname}.evaluate", f"gradient[ovo={ovo}]", f"the returned gradient is not the derivative of the "
                              f"returned score ({'one-vs-one' if ovo else 'one-vs-all'}): {detail}", line=f.lineno, site=site)


def run(pm, ctx):
    ctx.rule("C02-a", "the score must be the same whether or not the gradient is requested", floor=12)
    ctx.rule("C02-b", "the gradient must have the shape [N,K] of the predictions for every n and K (incl. length-1 axes)", floor=12)
    ctx.rule("C02-c", "entries clipped at the epsilon bounds must receive zero gradient: every returned gradient is "
             "multiplied by the clip mask of the raw predictions", floor=12)
    ctx.rule("C02-d", "return_grad=True returns (score, gradient) on every path; otherwise a bare score", floor=6)
    ctx.rule("C02-e", "Wasserstein gradients must use the dual potential of the marginal they differentiate", floor=3)
    ctx.rule("C02-g", "the returned gradient is the symbolic derivative of the returned score, with the clip mask as a 0/1 tensor", floor=12)
    gradient_is_derivative(pm, ctx)
    for cname in GEMINI_CLASSES:
        ci, f = evaluate_func(pm, cname)
        unit = ci.unit
        cfg = CFG(f)
        rets = return_contexts(cfg, f)
        qn = f"{cname}.evaluate"
        # ---- d: arity and no fall-through
        fall = [p for p, _ in cfg.pred[EXIT] if not isinstance(p, (ast.Return, ast.Raise))]
        bad = False
        for st, grad, ovo in rets:
            istup = isinstance(st.value, ast.Tuple) and len(st.value.elts) == 2
            if grad is True and not istup:
                ctx.violation("C02-d", unit.relpath, qn, norm_src(st), "return under return_grad is not a (score, gradient) pair", line=st.lineno)
                bad = True
            if grad is False and isinstance(st.value, ast.Tuple):
                ctx.violation("C02-d", unit.relpath, qn, norm_src(st), "a tuple is returned although no gradient was requested", line=st.lineno)
                bad = True
            if grad is None:
                ctx.violation("C02-d", unit.relpath, qn, norm_src(st), "return statement not controlled by return_grad", line=st.lineno)
                bad = True
        if fall:
            ctx.violation("C02-d", unit.relpath, qn, "fall-through", "a path reaches the end of evaluate without returning", line=f.lineno)
            bad = True
        if not bad:
            ctx.ok("C02-d", qn, f"{len(rets)} returns")
        # ---- a / c per ovo
        rd = cfg.reaching()
        for ovo in (False, True):
            site = f"{qn}[ovo={ovo}]"
            g = [r for r in rets if r[1] is True and r[2] in (ovo, None)]
            n = [r for r in rets if r[1] is False and r[2] in (ovo, None)]
            if len(g) != 1 or len(n) != 1:
                ctx.undecided_site("C02-a", site, f"cannot pair returns ({len(g)} with gradient, {len(n)} without)")
                continue
            (gs, _, _), (ns, _, _) = g[0], n[0]
            if not (isinstance(gs.value, ast.Tuple) and len(gs.value.elts) == 2):
                continue
            sg, sn = gs.value.elts[0], ns.value
            same = False
            try:
                same = to_rat(sg).equals(to_rat(sn))
            except (NotScalarArithmetic, ZeroDivisionError):
                same = norm_src(sg) == norm_src(sn)
            names = {x.id for x in ast.walk(sg) if isinstance(x, ast.Name)} | {x.id for x in ast.walk(sn) if isinstance(x, ast.Name)}
            # a definition that can only reach the gradient return (it sits in the return_grad branch) would make
            # the two scores differ although they are spelled identically
            def relevant(st_):
                return {v: frozenset(d for d in rd[st_].get(v, frozenset())) for v in names}
            same_defs = True
            for v in names:
                da, db = rd[gs].get(v, frozenset()), rd[ns].get(v, frozenset())
                only_g = [d for d in da - db if d is not ENTRY and ("return_grad", True) in implied_literals(d)]
                if only_g:
                    same_defs = False
            if same and same_defs:
                ctx.ok("C02-a", site, f"{norm_src(sg)} == {norm_src(sn)}")
            else:
                ctx.violation("C02-a", unit.relpath, qn, f"{norm_src(gs)} | {norm_src(ns)}",
                              f"the score returned with the gradient ({norm_src(sg)}) is not the score returned alone "
                              f"({norm_src(sn)})" + ("" if same_defs else " (re-bound inside the return_grad branch)"),
                              line=gs.lineno, site=site)
            # ---- c mask
            gexpr = gs.value.elts[1]
            ok, why = False, "no mask factor"
            for fac in factors(gexpr):
                if isinstance(fac, ast.Name):
                    defs = rd[gs].get(fac.id, frozenset())
                    cands = [d for d in defs if d is not ENTRY and isinstance(d, ast.Assign)]
                    if len(cands) == len(defs) == 1 and isinstance(cands[0].value, ast.BinOp) and isinstance(cands[0].value.op, ast.BitAnd):
                        ok, why = is_raw_mask(cands[0].value, cfg, cands[0])
                        if ok:
                            break
                elif isinstance(fac, ast.BinOp) and isinstance(fac.op, ast.BitAnd):
                    ok, why = is_raw_mask(fac, cfg, gs)
                    if ok:
                        break
            if ok:
                ctx.ok("C02-c", site, norm_src(gexpr))
            elif (cname, ovo) in EXACT or (ovo is None and {(cname, False), (cname, True)} <= EXACT):
                ctx.ok("C02-c", site, "the mask factor was not identified syntactically; C02-g proves gradient = clip mask * d(score)/d(clipped predictions)")
            else:
                ctx.violation("C02-c", unit.relpath, qn, norm_src(gs), f"returned gradient is not masked by the raw clip mask: {why}",
                              line=gs.lineno, site=site)
            # ---- b shape via E3
            I, gobj, res = evaluate_scenario(pm, cname, ovo, True)
            evs = [e for e in dedup_events(nonusage(I.events)) if e.func.endswith("evaluate")]
            for e in evs:
                st = e.stmt()
                ctx.violation("C02-b", unit.relpath, qn, norm_src(st) if st is not None else "?", f"[{e.kind}] {e.msg}",
                              line=getattr(e.node, "lineno", None), site=site)
            if isinstance(res, Tup) and len(res.items) == 2 and isinstance(res.items[1], Arr):
                gr = res.items[1]
                if [a.name for a in gr.axes] == ["N", "K"]:
                    if not evs:
                        ctx.ok("C02-b", site, f"gradient {gr!r}")
                else:
                    ctx.violation("C02-b", unit.relpath, qn, norm_src(gs), f"returned gradient has axes {gr!r}, not [N,K]",
                                  line=gs.lineno, site=site)
            elif not evs:
                ctx.undecided_site("C02-b", site, f"abstract result is {res!r}")
    wasserstein_duals(pm, ctx)
    floored_distance_masks(pm, ctx)


def floored_distance_masks(pm, ctx):
    """where a distance is sqrt(max(., 0)) the score is locally constant when the distance is 0: its gradient entries must be
    zeroed there (a guarded division alone leaves tau/1 in those entries)"""
    ctx.rule("C02-f", "a distance floored at 0 is locally constant there: the gradient must be exactly 0 for zero distances", floor=2)
    ci, f = evaluate_func(pm, "MMDGEMINI")
    unit, qn = ci.unit, "MMDGEMINI.evaluate"
    floored = [s_ for s_ in ast.walk(f) if isinstance(s_, ast.Assign) and isinstance(s_.targets[0], ast.Name) and isinstance(s_.value, ast.Call)
               and (call_name(s_.value) or "").split(".")[-1] == "sqrt" and s_.value.args and isinstance(s_.value.args[0], ast.Call)
               and (call_name(s_.value.args[0]) or "").split(".")[-1] == "maximum"]
    if not floored:
        ctx.unrecognised("C02-f", qn, "no distance of the form sqrt(maximum(., 0))")
        return
    for d in floored:
        dn = d.targets[0].id
        # the gradient block controlled by return_grad in the same ovo branch
        par = d._parent
        seq = par.body if any(x is d for x in getattr(par, "body", [])) else getattr(par, "orelse", [])
        grad_if = [s_ for x in seq for s_ in ast.walk(x) if isinstance(s_, ast.If) and norm_src(s_.test) == "return_grad"]
        site = f"{qn}: zero {dn} ({'ovo' if any(isinstance(p_, ast.If) and norm_src(p_.test) == 'self.ovo' and any(x is d for x in p_.body) for p_ in _parents(d)) else 'ova'})"
        if not grad_if:
            ctx.unrecognised("C02-f", site, "no gradient block next to the floored distance")
            continue
        g = grad_if[0]
        masks = {}
        for s_ in ast.walk(g):
            if isinstance(s_, ast.Assign) and isinstance(s_.targets[0], ast.Name) and isinstance(s_.value, ast.Compare) and norm_src(s_.value) in (f"{dn} == 0", f"0 == {dn}"):
                masks[s_.targets[0].id] = s_
        zeroed = []
        for s_ in ast.walk(g):
            if isinstance(s_, ast.Assign) and isinstance(s_.targets[0], ast.Subscript) and norm_src(s_.value) in ("0", "0.0"):
                idx = norm_src(s_.targets[0].slice)
                if f"{dn} == 0" in idx or any(m_ in [n.id for n in ast.walk(s_.targets[0].slice) if isinstance(n, ast.Name)] for m_ in masks):
                    zeroed.append(s_)
            if isinstance(s_, (ast.Assign, ast.AugAssign)) and any(t in norm_src(s_.value) for t in (f"({dn} != 0)", f"({dn} > 0)", f"~({dn} == 0)")):
                zeroed.append(s_)
        divides = [n for n in ast.walk(g) if (isinstance(n, ast.BinOp) and isinstance(n.op, ast.Div) and dn in [x.id for x in ast.walk(n.right) if isinstance(x, ast.Name)])
                   or (isinstance(n, ast.AugAssign) and isinstance(n.op, ast.Div) and dn in [x.id for x in ast.walk(n.value) if isinstance(x, ast.Name)])]
        if zeroed:
            ctx.ok("C02-f", site, norm_src(zeroed[0])[:80])
        elif divides:
            st = divides[0]
            while not isinstance(st, ast.stmt):
                st = st._parent
            ctx.violation("C02-f", unit.relpath, qn, norm_src(st)[:160], f"the gradient divides by the floored distance {dn} (guarded or not) but is never zeroed where {dn} == 0: "
                          f"a clamped (locally constant) distance yields a non-zero gradient", line=st.lineno, site=site)
        else:
            ctx.unrecognised("C02-f", site, f"the gradient block neither divides by {dn} nor masks it")


def _parents(n):
    p = getattr(n, "_parent", None)
    while p is not None:
        yield p
        p = getattr(p, "_parent", None)


def wasserstein_duals(pm, ctx):
    ci, f = evaluate_func(pm, "WassersteinGEMINI")
    unit, qn = ci.unit, "WassersteinGEMINI.evaluate"
    calls = [n for n in ast.walk(f) if isinstance(n, ast.Call) and (call_name(n) or "").endswith("emd2")]
    if len(calls) < 2:
        raise AnalysisError("anchor vanished: emd2 calls of WassersteinGEMINI.evaluate")
    for call in calls:
        st = call
        while not isinstance(st, ast.stmt):
            st = st._parent
        a0, a1 = norm_src(call.args[0]), norm_src(call.args[1])
        if a0.startswith("wy[") and a1.startswith("wy["):
            # pairwise: find the two gradient updates in the same loop body
            k1, k2 = call.args[0].slice, call.args[1].slice
            k1, k2 = norm_src(k1), norm_src(k2)
            body = st._parent.body
            ups = [s for s in ast.walk(st._parent) if isinstance(s, ast.AugAssign) and norm_src(s.target).startswith("grads[")]
            bars = {}
            for s in ast.walk(st._parent):
                if isinstance(s, ast.Assign) and isinstance(s.targets[0], ast.Name) and s.targets[0].id.endswith("_bar"):
                    bars[s.targets[0].id] = s
            up1 = [s for s in ups if norm_src(s.target) == f"grads[:, {k1}]"]
            up2 = [s for s in ups if norm_src(s.target) == f"grads[:, {k2}]"]
            site = f"{qn}: pair loop"
            if len(up1) != 1 or len(up2) != 1 or len(bars) != 2:
                ctx.undecided_site("C02-e", site, "cannot find the two gradient updates / centred duals")
                continue
            m = {k1: k2, "u_bar": "v_bar"}
            ok = mirror_equal(up1[0], up2[0], m)
            ubar, vbar = bars.get("u_bar"), bars.get("v_bar")
            ok_bars = ubar is not None and vbar is not None and mirror_equal(ubar, vbar, {"u_bar": "v_bar"}, {"u": "v"}) \
                and '"u"' in norm_src(ubar).replace("'", '"') and "'v'" not in norm_src(ubar)
            # the first marginal is wy[k1]: its dual 'u' must feed the k1 update
            uses_u = "u_bar" in norm_src(up1[0]) and "v_bar" not in norm_src(up1[0])
            # both distances recorded from the same call
            rec = [s for s in ast.walk(st._parent) if isinstance(s, ast.Assign) and norm_src(s.targets[0]).startswith("wasserstein_distances[")]
            sym = {norm_src(s.targets[0]) for s in rec} == {f"wasserstein_distances[{k1}, {k2}]", f"wasserstein_distances[{k2}, {k1}]"} \
                and len({norm_src(s.value) for s in rec}) == 1
            if ok and ok_bars and uses_u and sym:
                ctx.ok("C02-e", site, "k2 update is the mirror of the k1 update under k1<->k2, u<->v")
            elif ("WassersteinGEMINI", True) in EXACT:
                ctx.ok("C02-e", site, "pairing not identified syntactically; C02-g proves the gradient is the derivative, which fixes the pairing")
            else:
                a, b = mirror_diff(up1[0], up2[0], m)
                ctx.violation("C02-e", unit.relpath, qn, norm_src(up2[0]),
                              "the one-vs-one dual updates are not mirror images (k1<->k2, u<->v) or use the wrong potential"
                              if not (ok and ok_bars and uses_u) else "the pairwise distance is not recorded symmetrically",
                              line=up2[0].lineno, site=site, detail={"expected": a, "found": b})
        else:
            site = f"{qn}: one-vs-all"
            # first marginal must be the cluster weights, and the gradient must read the 'u' potential
            users = [n for n in ast.walk(f) if isinstance(n, ast.Subscript) and isinstance(n.slice, ast.Constant) and n.slice.value in ("u", "v")
                     and any(h is not None and isinstance(h, ast.If) and norm_src(h.test) in ("self.ovo",) for h in _ifs_false(n))]
            keys = {n.slice.value for n in users}
            if a0.startswith("wy[") and keys == {"u"}:
                ctx.ok("C02-e", site, "cluster weights are the first marginal and the gradient reads the 'u' potential")
            elif ("WassersteinGEMINI", False) in EXACT:
                ctx.ok("C02-e", site, "pairing not identified syntactically; C02-g proves the gradient is the derivative, which fixes the pairing")
            else:
                ctx.violation("C02-e", unit.relpath, qn, norm_src(st), f"one-vs-all duals: first marginal {a0}, potentials read {sorted(keys)}",
                              line=st.lineno, site=site)
    ctx.ok("C02-e", f"{qn}: emd2 call sites", f"{len(calls)} calls inspected")


def _ifs_false(node):
    """If headers for which node sits in the else branch"""
    out = []
    child = node
    p = getattr(node, "_parent", None)
    while p is not None:
        if isinstance(p, ast.If) and any(child is s for s in p.orelse):
            out.append(p)
        child = p
        p = getattr(p, "_parent", None)
    return out


# ------------------------------------------------------------------------------------------- controls
def controls(pm, tier):
    out = []

    def axisless_squeeze(pm_):
        ci, f = evaluate_func(pm_, "TVGEMINI")
        for n in ast.walk(f):
            if isinstance(n, ast.Call) and (call_name(n) or "").endswith("squeeze") and n.keywords:
                return {ci.unit.relpath: replace_node(ci.unit, n, f"np.squeeze({norm_src(n.args[0])})")}
        return None
    out.append({"name": "axis-less squeeze in TV one-vs-one", "rule": "C02-b", "apply": axisless_squeeze})

    def transposed_grad(pm_):
        ci, f = evaluate_func(pm_, "KLGEMINI")
        for n in ast.walk(f):
            if isinstance(n, ast.Return) and isinstance(n.value, ast.Tuple):
                g = n.value.elts[1]
                return {ci.unit.relpath: replace_node(ci.unit, g, f"({norm_src(g)}).sum(0)")}
        return None
    out.append({"name": "KL gradient reduced over samples", "rule": "C02-b", "apply": transposed_grad})

    def different_constant(pm_):
        ci, f = evaluate_func(pm_, "ChiSquareGEMINI")
        for n in ast.walk(f):
            if isinstance(n, ast.Return) and not isinstance(n.value, ast.Tuple):
                return {ci.unit.relpath: replace_node(ci.unit, n.value, "chi2_gemini")}
        return None
    out.append({"name": "chi2 score without 0.5 on the no-gradient return", "rule": "C02-a", "apply": different_constant})

    def mask_after_clip(pm_):
        ci, f = evaluate_func(pm_, "MMDGEMINI")
        sts = f.body
        for i, st in enumerate(sts):
            if isinstance(st, ast.Assign) and norm_src(st.targets[0]) == "clip_mask" and i + 1 < len(sts):
                nxt = sts[i + 1]
                src = replace_node(ci.unit, nxt, norm_src(st))
                u2 = type("U", (), {"src": src})
                # now replace the original mask statement by the clip statement (swap)
                lines = src.split("\n")
                lines[st.lineno - 1] = " " * st.col_offset + norm_src(nxt)
                for k in range(st.lineno, st.end_lineno):
                    lines[k] = ""
                return {ci.unit.relpath: "\n".join(lines)}
        return None
    # not a control any more: the mask of the clipped values equals the mask of the raw ones (clip(y) > eps <=> y > eps), so this
    # rewrite is behaviour-preserving; C02-g proves the gradient exact for it and the syntactic rule is discharged (it is a benign twin)
    _ = mask_after_clip

    def dropped_mask(pm_):
        ci, f = evaluate_func(pm_, "HellingerGEMINI")
        for n in ast.walk(f):
            if isinstance(n, ast.Return) and isinstance(n.value, ast.Tuple):
                g = n.value.elts[1]
                if isinstance(g, ast.BinOp):
                    return {ci.unit.relpath: replace_node(ci.unit, g, norm_src(g.left))}
        return None
    out.append({"name": "Hellinger gradient returned without the mask", "rule": "C02-c", "apply": dropped_mask})

    def swapped_duals(pm_):
        ci, f = evaluate_func(pm_, "WassersteinGEMINI")
        for n in ast.walk(f):
            if isinstance(n, ast.Assign) and norm_src(n.targets[0]) == "u_bar" and "log[" in norm_src(n.value):
                return {ci.unit.relpath: replace_node(ci.unit, n.value, norm_src(n.value).replace("'u'", "'v'"))}
        return None
    out.append({"name": "u_bar built from the v potential", "rule": "C02-e", "apply": swapped_duals})

    def unmasked_zero_distance(pm_):
        ci, f = evaluate_func(pm_, "MMDGEMINI")
        a = "                gradient[:, delta_mask] = 0\n"
        if a not in ci.unit.src:
            return None
        return {ci.unit.relpath: ci.unit.src.replace(a, "", 1)}
    out.append({"name": "MMD OvA gradient not zeroed at zero distances", "rule": "C02-f", "apply": unmasked_zero_distance})

    def bare_return(pm_):
        ci, f = evaluate_func(pm_, "TVGEMINI")
        for n in ast.walk(f):
            if isinstance(n, ast.Return) and isinstance(n.value, ast.Tuple):
                return {ci.unit.relpath: replace_node(ci.unit, n.value, norm_src(n.value.elts[1]))}
        return None
    out.append({"name": "TV returns only the gradient", "rule": "C02-d", "apply": bare_return})

    def tmut(mod, find, repl, name):
        def apply(pm_):
            u = pm_.unit(mod)
            if find not in u.src:
                return None
            return {u.relpath: u.src.replace(find, repl, 1)}
        out.append({"name": name, "rule": "C02-g", "apply": apply})
    F, G = "gemclus.gemini._fdivergences", "gemclus.gemini._geomdistances"
    tmut(F, "                gradients = -0.5 * (p_y / cluster_wise_estimates", "                gradients = 0.5 * (p_y / cluster_wise_estimates", "Hellinger one-vs-all gradient sign")
    tmut(F, "gradient_mi = log_p_y_x / log_p_y_x.shape[0] - log_p_y / log_p_y_x.shape[0]", "gradient_mi = log_p_y_x / log_p_y_x.shape[0] - log_p_y / log_p_y_x.shape[1]",
         "KL gradient divides by K")
    tmut(F, "cross_prod_grad = base_grad - np.transpose(base_grad, axes=[0, 2, 1])", "cross_prod_grad = base_grad + np.transpose(base_grad, axes=[0, 2, 1])", "TV one-vs-one antisymmetry lost")
    tmut(F, "gradients = 2*single_beta-double_alpha  + np.mean(2*single_alpha-double_beta, axis=0)", "gradients = 2*single_beta-double_alpha  + np.mean(single_alpha-double_beta, axis=0)",
         "chi2 one-vs-one second-order term")
    tmut(G, "                gradient -= A * Lambda.sum(0, keepdims=True) / N", "                gradient -= A * Lambda.sum(0, keepdims=True)", "MMD one-vs-one term loses 1/N")
    tmut(G, "                tau_grad = (np.eye(N) - 1 / N) @ normalised_kernel @ (alpha - 1)", "                tau_grad = normalised_kernel @ (alpha - 1)", "MMD one-vs-all centring dropped")
    tmut(G, "                grads -= (y_pred * u_bar).sum(0) / (N * N * pi)", "                grads -= (y_pred * u_bar).sum(0) / (N * pi)", "Wasserstein one-vs-all chain term")
    tmut(G, "                        grads[:, k2] += 2 * pi[k1] * (v_bar / N", "                        grads[:, k2] += 2 * pi[k1] * (u_bar / N", "Wasserstein one-vs-one uses u for the second marginal")
    tmut(G, "                grads += 2 * np.dot(wasserstein_distances, pi) / N", "                grads += np.dot(wasserstein_distances, pi) / N", "Wasserstein one-vs-one pi term factor")
    return out
