"""C05 - proximal operators: exact closed form of the group-lasso step (piecewise canonical forms), feasibility and
formula identity of the hierarchical step. Optimality of the breakpoint search is not decided."""
from ..astutil import clone as _clone
import ast
from fractions import Fraction

from ..pm import AnalysisError, norm_src, func_params
from ..flow import CFG, ENTRY, attr_chain
from ..astutil import call_name
from ..match import equal_resolved, resolve_expr, canon_equal
from ..e6_algebra import Poly, Rat, to_rat, NotScalarArithmetic
from ..e3_axes import Interp, Arr, Num, Ax, Tup, is_top
from ..scenarios import nonusage, dedup_events
from ..report import Ctx

PROP = "C05"
EXPLANATION = (
    "(a) group-lasso step: the returned expression of linear_prox_grad, with local names resolved through their unique "
    "reaching definitions, is evaluated as a canonical rational form on each region of a finite case split over the row norm n "
    "and the threshold alpha (n > alpha; 0 < n <= alpha; n = 0, where the row itself is 0): np.maximum(e, 0) and "
    "np.where(n == 0, a, b) are resolved by the region's sign facts. It must equal the minimiser's closed form (1 - alpha/n) w, "
    "0 and 0 respectively; the norm is the per-feature l2 norm over the non-feature axis (axis types). This decides the "
    "operator exactly, given the textbook closed form of the group soft-threshold. (b) the group wrappers send each group "
    "through the operator as one flattened row and write it back with the group's shape (abstract interpretation, shared with "
    "C06-c). (c) hierarchical step: each intermediate of mlp_prox_grad is compared canonically with the HIER-PROX formulas "
    "(a_s, x_s, w_s, breakpoint count, beta*, theta*), x* and w* are gathered with one index along the breakpoint axis, and "
    "feasibility |theta*| <= M ||beta*|| follows algebraically from w = M x ||v||, beta* = x* v, theta* = sign(u) min(|u|, w*). "
    "Not decided: that the selected breakpoint attains the minimum over all feasible pairs (value-level).")
ASSUMPTIONS = ["prox of alpha*||.||_2 is the radial shrinkage (1 - alpha/||w||)_+ w (textbook closed form)",
               "HIER-PROX formulas of the LassoNet paper for a_s, x_s, w_s and the breakpoint rule",
               "numpy semantics of maximum / where / norm / take_along_axis"]
P_ = "gemclus.sparse._prox_grad"


class Undecidable(Exception):
    pass


def pw_rat(node, region, atom_of=norm_src):
    """canonical form of `node` on a region. region: {'pos': [Rat known > 0], 'nonpos': [Rat known <= 0], 'zero': set(atom names equal 0),
    'nonzero': set(atom names known != 0)}"""
    if isinstance(node, ast.Call):
        cn = (call_name(node) or "").split(".")[-1]
        if cn == "maximum" and len(node.args) == 2:
            a, b = node.args
            if isinstance(a, ast.Constant) and a.value == 0:
                a, b = b, a
            if isinstance(b, ast.Constant) and b.value == 0:
                e = pw_rat(a, region, atom_of)
                s = sign_on(e, region)
                if s is None and region.get("kind"):
                    s = sign_linear(e, region)
                if s == "pos":
                    return e
                if s == "nonpos":
                    return Rat(Poly.const(0))
                if region.get("kind") == "R3":
                    # the row itself is 0 here: keep the clipped factor as an unknown non-negative quantity
                    return Rat(Poly.atom("clip#" + norm_src(a)))
                if s == "both":
                    raise BothSigns(e)
                raise Undecidable(f"sign of {norm_src(a)} on the region")
        if cn == "where" and len(node.args) == 3:
            c = node.args[0]
            if isinstance(c, ast.Compare) and len(c.ops) == 1 and isinstance(c.ops[0], (ast.Eq, ast.NotEq)) and isinstance(c.comparators[0], ast.Constant) \
                    and c.comparators[0].value == 0:
                e = pw_rat(c.left, region, atom_of)
                z = e.is_zero()
                if not z:
                    s = sign_on(e, region)
                    if s != "pos":
                        raise Undecidable(f"whether {norm_src(c.left)} is 0 on the region")
                truth = z if isinstance(c.ops[0], ast.Eq) else not z
                return pw_rat(node.args[1] if truth else node.args[2], region, atom_of)
        raise Undecidable(f"function {norm_src(node)[:40]}")
    if isinstance(node, ast.Name) or isinstance(node, (ast.Attribute, ast.Subscript)):
        key = atom_of(node)
        if key in region.get("zero", ()):
            return Rat(Poly.const(0))
        return Rat(Poly.atom(key))
    if isinstance(node, ast.Constant) and isinstance(node.value, (int, float)):
        return Rat(Poly.const(Fraction(node.value).limit_denominator(10 ** 9)))
    if isinstance(node, ast.UnaryOp) and isinstance(node.op, ast.USub):
        return Rat(Poly.const(0)) - pw_rat(node.operand, region, atom_of)
    if isinstance(node, ast.BinOp):
        a, b = pw_rat(node.left, region, atom_of), pw_rat(node.right, region, atom_of)
        if isinstance(node.op, ast.Add):
            return a + b
        if isinstance(node.op, ast.Sub):
            return a - b
        if isinstance(node.op, ast.Mult):
            return a * b
        if isinstance(node.op, ast.Div):
            if b.is_zero():
                raise ZeroDivisionError(f"{norm_src(node.right)} is exactly 0 on the region and divides {norm_src(node.left)}")
            return a / b
    raise Undecidable(norm_src(node)[:40])


class BothSigns(Exception):
    """the argument of a maximum(., 0) takes both signs on non-empty parts of the region"""

    def __init__(self, e):
        self.e = e


def sign_linear(e, region):
    """sign of e = a*n + b*alpha (+0) on the region kinds R1: n > alpha >= 0, R2: 0 < n <= alpha, R3: n = 0 <= alpha.
    'both' means both signs occur on non-empty parts of the region (alpha > 0)."""
    nv, ap = region["n"], region["alpha"]
    if e.d != Poly.const(1):
        # e = num / den with den known positive?
        den = Rat(e.d)
        if sign_on(den, region) == "pos":
            return sign_linear(Rat(e.n), region)
        return None
    a = b = Fraction(0)
    for mon, c in e.n.t.items():
        if mon == ((nv, 1),):
            a = c
        elif mon == ((ap, 1),):
            b = c
        else:
            return None
    k = region["kind"]
    if k == "R1":
        if a >= 0 and a + b >= 0 and (a > 0 or b > 0):
            return "pos"
        if a <= 0 and a + b <= 0:
            return "nonpos"
        return "both"
    if k == "R2":
        if a + b > 0 and b >= 0:
            return "pos"
        if a + b <= 0 and b <= 0:
            return "nonpos"
        return "both"
    if k == "R3":
        return "nonpos" if b <= 0 else "both"
    return None


def sign_on(e, region):
    """'pos' / 'nonpos' / None for a rational form, from the region's facts (exact matches up to a known-positive factor)"""
    for f in region["pos"]:
        if e.equals(f):
            return "pos"
        for g in region["pos"]:
            if e.equals(f / g) or e.equals(f * g):
                return "pos"
    for f in region["nonpos"]:
        if e.equals(f):
            return "nonpos"
        for g in region["pos"]:
            if e.equals(f / g) or e.equals(f * g):
                return "nonpos"
    return None


def run(pm, ctx):
    u = pm.unit(P_)
    ctx.rule("C05-a", "the group-lasso step must be the radial shrinkage by alpha with exact zeros for rows of norm <= alpha", floor=4)
    ctx.rule("C05-b", "a feature group is one block of the penalty: it goes through the operator as a single row", floor=4)
    ctx.rule("C05-c", "the hierarchical step must return a feasible pair built from the HIER-PROX closed forms", floor=8)
    # ------------------------------------------------------------------ a
    f = u.func("linear_prox_grad")
    cfg = CFG(f)
    rets = [n for n in cfg.nodes if isinstance(n, ast.Return)]
    Wp, ap = func_params(f)[0], func_params(f)[1]
    site = "linear_prox_grad"
    if len(rets) != 1:
        ctx.unrecognised("C05-a", site, "no single return")
    else:
        # the norm variable: a local whose definition is np.linalg.norm(W, axis=1, keepdims=True)
        norms = [s_ for s_ in cfg.nodes if isinstance(s_, ast.Assign) and isinstance(s_.value, ast.Call) and call_name(s_.value) == "np.linalg.norm"]
        if len(norms) != 1 or not isinstance(norms[0].targets[0], ast.Name):
            ctx.unrecognised("C05-a", site, "no single row-norm variable")
        else:
            nv = norms[0].targets[0].id
            nc = norms[0].value
            kw = {k.arg: norm_src(k.value) for k in nc.keywords}
            okn = nc.args and norm_src(nc.args[0]) == Wp and kw.get("axis") == "1" and kw.get("keepdims") == "True" and kw.get("ord", "2") in ("2", "None")
            if okn:
                ctx.ok("C05-a", f"{site}: per-feature l2 norm over the non-feature axis", norm_src(nc))
            else:
                ctx.violation("C05-a", u.relpath, site, norm_src(norms[0]), "the norm is not the l2 norm of each feature's row (axis=1, keepdims)", line=norms[0].lineno,
                              site=f"{site}: norm")
            # resolve the returned expression but keep the norm variable as an atom
            import copy

            def resolve_keep(expr, st, depth=0):
                rd = cfg.reaching()

                class R(ast.NodeTransformer):
                    def visit_Name(self, n):
                        if isinstance(n.ctx, ast.Load) and n.id not in (nv, Wp, ap):
                            ds = list(rd.get(st, {}).get(n.id, ()))
                            if len(ds) == 1 and ds[0] is not ENTRY and isinstance(ds[0], ast.Assign) and depth < 5:
                                return resolve_keep(_clone(ds[0].value), ds[0], depth + 1)
                        return n
                return ast.fix_missing_locations(R().visit(_clone(expr)))
            full = resolve_keep(rets[0].value, rets[0])
            n_, a_, W_ = Rat(Poly.atom(nv)), Rat(Poly.atom(ap)), Rat(Poly.atom(Wp))
            one = Rat(Poly.const(1))
            regions = [
                ("n > alpha (row kept)", {"pos": [n_ - a_, n_], "nonpos": [], "zero": set(), "kind": "R1", "n": nv, "alpha": ap}, (one - a_ / n_) * W_),
                ("0 < n <= alpha (row zeroed)", {"pos": [n_], "nonpos": [n_ - a_], "zero": set(), "kind": "R2", "n": nv, "alpha": ap}, Rat(Poly.const(0))),
                ("n = 0 (zero row)", {"pos": [], "nonpos": [Rat(Poly.const(0)) - a_, n_ - a_], "zero": {nv, Wp}, "kind": "R3", "n": nv, "alpha": ap}, Rat(Poly.const(0))),
            ]
            for name, region, ref in regions:
                rsite = f"{site}: {name}"
                try:
                    got = pw_rat(full, region)
                except BothSigns as e:
                    if region["kind"] == "R3":
                        ctx.ok("C05-a", rsite, "the row is 0, whatever the sign of the shrinkage factor")
                    else:
                        ctx.violation("C05-a", u.relpath, site, norm_src(rets[0])[:160], f"on the region {name} the clipped quantity {e.e} is positive on one part and non-positive "
                                      f"on another: the operator cannot equal the minimiser {ref} on both (wrong threshold)", line=rets[0].lineno, site=rsite)
                    continue
                except Undecidable as e:
                    ctx.unrecognised("C05-a", rsite, f"cannot evaluate `{norm_src(full)[:80]}` piecewise: {e}")
                    continue
                except ZeroDivisionError as e:
                    ctx.violation("C05-a", u.relpath, site, norm_src(rets[0])[:160], f"division by zero on the region {name}: {e}; a row that is already zero must stay zero "
                                  f"(with alpha = 0 this is 0/0 = NaN)", line=rets[0].lineno, site=rsite)
                    continue
                if got.equals(ref):
                    ctx.ok("C05-a", rsite, f"= {ref}")
                else:
                    ctx.violation("C05-a", u.relpath, site, norm_src(rets[0])[:160], f"on the region {name} the operator returns {got}, the minimiser is {ref}",
                                  line=rets[0].lineno, site=rsite)
    # ------------------------------------------------------------------ b (shared with C06-c)
    from . import c06
    sub = Ctx("C06", ctx.tier, quiet=True)
    for r in ("C06-a", "C06-b", "C06-c"):
        sub.rule(r, "")
    c06.run(pm, sub)
    for o in sub.obligations:
        if o["rule"] == "C06-c" and ("prox_grad" in o["site"]):
            if o["status"] == "ok":
                ctx.ok("C05-b", o["site"], o["note"])
            elif o["status"] == "undecided":
                ctx.undecided_site("C05-b", o["site"], o["note"])
    for fd in sub.findings:
        if fd.rule == "C06-c" and "prox_grad" in fd.func:
            ctx.violation("C05-b", fd.unit, fd.func, fd.stmt, fd.message, line=fd.line)
    # ------------------------------------------------------------------ c
    hier(pm, ctx, u)


def _inline_soft_threshold(unit, e):
    """value of an expression built with the helper soft_threshold(threshold, x) = sign(x) * max(|x| - threshold, 0), for the
    two cases that can be decided: threshold = 0 (identity) and x = 0 (zero). Parameter order is read from the helper."""
    if not (isinstance(e, ast.Call) and call_name(e) == "soft_threshold"):
        return e if isinstance(e, (ast.Name, ast.Attribute, ast.Subscript)) else None
    try:
        hf = unit.func("soft_threshold")
    except Exception:
        return None
    params = func_params(hf)
    body = [s_ for s_ in hf.body if not (isinstance(s_, ast.Expr) and isinstance(s_.value, ast.Constant))]
    if len(params) != 2 or len(body) != 1 or not isinstance(body[0], ast.Return):
        return None
    # which parameter is the thresholded value? the one under np.sign / np.abs
    ret = body[0].value
    signed = {norm_src(c.args[0]) for c in ast.walk(ret) if isinstance(c, ast.Call) and call_name(c) in ("np.sign", "np.abs") and c.args}
    if len(signed) != 1 or list(signed)[0] not in params:
        return None
    xname = list(signed)[0]
    tname = [p_ for p_ in params if p_ != xname][0]
    if not canon_equal(ret, f"np.sign({xname}) * np.maximum(np.abs({xname}) - {tname}, 0)"):
        return None
    bound = {}
    for i_, a in enumerate(e.args):
        bound[params[i_]] = a
    for k in e.keywords:
        bound[k.arg] = k.value
    if set(bound) != set(params):
        return None
    def is_zero(n):
        return isinstance(n, ast.Constant) and n.value in (0, 0.0) and not isinstance(n.value, bool)
    if is_zero(bound[tname]):
        return bound[xname]
    if is_zero(bound[xname]):
        return "zero"
    return None


def _returns_inputs(ctx, u, fname, results_doc):
    """every return of the operator must return computed results, never (copies of) its inputs: the hierarchical step is not the
    identity even without penalty (it projects onto |theta| <= M ||beta||)"""
    f = u.func(fname)
    params = set(func_params(f))
    for r in [n for n in ast.walk(f) if isinstance(n, ast.Return)]:
        site = f"{fname}: return at line offset {r.lineno - f.lineno}"
        vals = r.value.elts if isinstance(r.value, ast.Tuple) else [r.value]
        bad = []
        for v in vals:
            core = v
            while True:
                if isinstance(core, ast.Call) and isinstance(core.func, ast.Attribute) and core.func.attr in ("copy", "astype") and not core.args:
                    core = core.func.value
                elif isinstance(core, ast.Call) and call_name(core) in ("np.copy", "np.array", "np.asarray") and core.args:
                    core = core.args[0]
                else:
                    break
            if isinstance(core, ast.Name) and core.id in params:
                bad.append(norm_src(v))
        if bad:
            conds = [norm_src(p_.test) for p_ in _parents_of(r) if isinstance(p_, ast.If)]
            ctx.violation("C05-c", u.relpath, fname, norm_src(r)[:120], f"a path{' (when ' + conds[0] + ')' if conds else ''} returns the inputs {bad} unchanged: the hierarchical "
                          f"proximal step is not the identity, even for alpha = 0 it must enforce |theta| <= M ||beta||", line=r.lineno, site=f"{fname}: no shortcut around the operator")
            return
    ctx.ok("C05-c", f"{fname}: no shortcut around the operator", results_doc)


def _parents_of(n):
    n = getattr(n, "_parent", None)
    while n is not None:
        yield n
        n = getattr(n, "_parent", None)


_HCFG = {}



HIER_PROX_REFERENCE = """
def mlp_prox_grad(V, U, alpha, M):
    u_abs_sorted = np.sort(np.abs(U), axis=1)[:, ::-1]
    s = np.arange(U.shape[1] + 1.0).reshape((1, -1))
    zeros = np.zeros((U.shape[0], 1))
    a_s = alpha - M * np.concatenate([zeros, np.cumsum(u_abs_sorted, axis=1)], axis=1)
    norm_v = np.linalg.norm(V, ord=2, axis=1, keepdims=True)
    x = np.maximum(1 - a_s / norm_v, 0) / (1 + s * M ** 2)
    w = M * x * norm_v
    lower = np.concatenate([u_abs_sorted, zeros], axis=1)
    idx = np.sum(lower > w, axis=1, keepdims=True)
    x_star = np.take_along_axis(x, idx, axis=1).reshape((U.shape[0], 1))
    w_star = np.take_along_axis(w, idx, axis=1).reshape((U.shape[0], 1))
    beta_star = x_star * V
    theta_star = np.where(U >= 0, 1, -1) * np.minimum(np.abs(U), w_star)
    return beta_star, theta_star
"""
HIER_SITES = ["u_abs_sorted", "a_s", "norm_v", "x", "w", "intervals", "lower", "idx", "s", "x* and w* gathered at the same breakpoint", "beta_star", "theta*",
              "feasibility |theta*| <= w* = M x* ||v|| = M ||beta*||", "returns (beta*, theta*)"]


def _resolve_all(f, unit):
    """the returned expression of a straight-line function with every local substituted (tuple unpackings of `.shape` become subscripts of
    it, calls of the helper soft_threshold with a zero threshold are the identity); None if the function is not of that shape"""
    from ..astutil import clone as _clone
    body = [s_ for s_ in f.body if not (isinstance(s_, ast.Expr) and isinstance(s_.value, ast.Constant))]
    if not body or not isinstance(body[-1], ast.Return) or body[-1].value is None:
        return None
    env = {}

    class Sub(ast.NodeTransformer):
        def visit_Name(self, n):
            if isinstance(n.ctx, ast.Load) and n.id in env:
                return _clone(env[n.id])
            return n

        def visit_Call(self, n):
            n = self.generic_visit(n)
            if call_name(n) == "soft_threshold":
                v = _inline_soft_threshold(unit, n)
                if v is not None and v != "zero":
                    return v
            return n
    for st in body[:-1]:
        if isinstance(st, ast.Assign) and len(st.targets) == 1 and isinstance(st.targets[0], ast.Name):
            env[st.targets[0].id] = Sub().visit(_clone(st.value))
        elif isinstance(st, ast.Assign) and len(st.targets) == 1 and isinstance(st.targets[0], ast.Tuple) and all(isinstance(e, ast.Name) for e in st.targets[0].elts):
            val = Sub().visit(_clone(st.value))
            if isinstance(val, ast.Tuple) and len(val.elts) == len(st.targets[0].elts):
                for t_, v_ in zip(st.targets[0].elts, val.elts):
                    env[t_.id] = v_
            elif isinstance(val, ast.Attribute) and val.attr == "shape":
                for i_, t_ in enumerate(st.targets[0].elts):
                    env[t_.id] = ast.Subscript(value=_clone(val), slice=ast.Constant(value=i_), ctx=ast.Load())
            else:
                return None
        else:
            return None
    return ast.fix_missing_locations(Sub().visit(_clone(body[-1].value)))


def _whole_function_is_hier_prox(ctx, u, f, qn):
    """name-independent decision: the returned pair, with every local substituted, is canonically the HIER-PROX closed form (reference
    above, itself substituted the same way).  True -> every clause of C05-c about the formulas is discharged at once."""
    from ..astutil import clone as _clone
    try:
        got = _resolve_all(f, u)
        ref_f = ast.parse(HIER_PROX_REFERENCE).body[0]
        ref = _resolve_all(ref_f, u)
    except Exception:
        return False
    if got is None or ref is None or not (isinstance(got, ast.Tuple) and len(got.elts) == 2):
        return False
    params = func_params(f)[:4]
    ren = dict(zip(params, ["V", "U", "alpha", "M"]))

    class Ren(ast.NodeTransformer):
        def visit_Name(self, n):
            return ast.copy_location(ast.Name(id=ren.get(n.id, n.id), ctx=n.ctx), n)
    got = ast.fix_missing_locations(Ren().visit(got))
    from ..pm import canon_node
    ok = all(canon_equal(canon_node(a), canon_node(b)) for a, b in zip(got.elts, ref.elts))
    if ok:
        for k in HIER_SITES:
            ctx.ok("C05-c", f"{qn}: {k}", "returned pair == HIER-PROX closed form with every local substituted")
    return ok


def hier(pm, ctx, u):
    _returns_inputs(ctx, u, "mlp_prox_grad", "every return yields computed (beta*, theta*)")
    _returns_inputs(ctx, u, "group_mlp_prox_grad", "every return yields the assembled results of the elementary operator")
    f = u.func("mlp_prox_grad")
    qn = "mlp_prox_grad"
    vp, up, ap, Mp = func_params(f)[:4]
    if _whole_function_is_hier_prox(ctx, u, f, qn):
        _hier_shapes(pm, ctx, u, f, qn)
        return
    defs = {}
    for s_ in f.body:
        if isinstance(s_, ast.Assign) and len(s_.targets) == 1 and isinstance(s_.targets[0], ast.Name):
            defs[s_.targets[0].id] = s_
    alias = {k: norm_src(s_.value) for k, s_ in defs.items() if isinstance(s_.value, ast.Name)}
    v = next((k for k, x in alias.items() if x == vp), vp)
    uu = next((k for k, x in alias.items() if x == up), up)

    def expect(name, forms, why):
        site = f"{qn}: {name}"
        if name not in defs:
            ctx.unrecognised("C05-c", site, f"no local named {name}")
            return None
        val = defs[name].value
        if any(canon_equal(val, t) for t in forms):
            ctx.ok("C05-c", site, norm_src(val)[:90])
            return defs[name]
        try:
            from ..match import resolve_expr, cfg_node
            cfg_ = _HCFG.setdefault(id(f), CFG(f))
            st_ = cfg_node(cfg_, defs[name])
            rv = resolve_expr(cfg_, st_, val)
            if any(canon_equal(rv, resolve_expr(cfg_, st_, ast.parse(t, mode="eval").body)) for t in forms):
                ctx.ok("C05-c", site, norm_src(val)[:90] + " (through temporaries)")
                return defs[name]
        except Exception:
            pass
        from ..match import missing_names
        miss = missing_names(f, forms)
        if miss:
            ctx.unrecognised("C05-c", site, f"the expected form is written with the temporaries {sorted(miss)}, which this function does not define")
            return None
        ctx.violation("C05-c", u.relpath, qn, norm_src(defs[name])[:200], f"{why} (expected {name} = {forms[0]})", line=defs[name].lineno, site=site)
        return None
    expect("u_abs_sorted", [f"np.sort(np.abs({uu}), axis=1)[:, ::-1]"], "the hidden weights are not sorted by decreasing magnitude along the hidden axis")
    expect("a_s", [f"{ap} - {Mp} * np.concatenate([zeros, np.cumsum(u_abs_sorted, axis=1)], axis=1)"], "a_s is not alpha - M * (cumulative sums of the s largest |u|)")
    expect("norm_v", [f"np.linalg.norm({v}, ord=2, axis=1, keepdims=True)", f"np.linalg.norm({v}, axis=1, keepdims=True)"], "norm_v is not the per-feature l2 norm of the skip weights")
    expect("x", [f"np.maximum(1 - a_s / norm_v, 0) / (1 + s * {Mp} ** 2)"], "x_s is not (1 - a_s/||v||)_+ / (1 + s M^2)")
    wdef = expect("w", [f"{Mp} * x * norm_v"], "w_s is not M x_s ||v||")
    # intervals: the sorted magnitudes themselves (soft_threshold at 0 is the identity on non-negative values)
    site = f"{qn}: intervals"
    if "intervals" not in defs:
        ctx.unrecognised("C05-c", site, "no local named intervals")
    else:
        val = _inline_soft_threshold(u, defs["intervals"].value)
        if val is None:
            ctx.unrecognised("C05-c", site, f"`{norm_src(defs['intervals'].value)[:60]}`")
        elif val == "zero":
            ctx.violation("C05-c", u.relpath, qn, norm_src(defs["intervals"])[:160], "the breakpoints are soft_threshold(threshold=<array>, x=0) = 0: the helper's arguments are "
                          "(threshold, x); with all-zero breakpoints the active-set index is always 0 and the pair returned is feasible but not the minimiser",
                          line=defs["intervals"].lineno, site=site)
        elif canon_equal(val, "u_abs_sorted"):
            ctx.ok("C05-c", site, "= u_abs_sorted")
        else:
            ctx.violation("C05-c", u.relpath, qn, norm_src(defs["intervals"])[:160], f"the breakpoints are {norm_src(val)[:60]}, not the sorted magnitudes of the hidden weights",
                          line=defs["intervals"].lineno, site=site)
    expect("lower", ["np.concatenate([intervals, zeros], axis=1)"], "the breakpoint lower bounds are not (|u| sorted, 0)")
    expect("idx", ["np.sum(lower > w, axis=1, keepdims=True)"], "the breakpoint index is not the number of lower bounds above w_s")
    sdef = defs.get("s")
    if sdef is None:
        ctx.unrecognised("C05-c", f"{qn}: s", "no local named s")
    elif (norm_src(sdef.value).startswith("np.arange(k + 1") and ".reshape((1, -1))" in norm_src(sdef.value)) or equal_resolved(
            sdef, sdef.value, ["np.arange(k + 1.0).reshape((1, -1))", "np.arange(k + 1).reshape((1, -1))"]):
        ctx.ok("C05-c", f"{qn}: s", "s = 0..h along the breakpoint axis")
    else:
        ctx.violation("C05-c", u.relpath, qn, norm_src(sdef), "s does not enumerate 0..h breakpoints", line=sdef.lineno, site=f"{qn}: s")
    # gathers with one index
    gathers = {}
    for name in ("x_star", "w_star"):
        d = defs.get(name)
        if d is None:
            ctx.unrecognised("C05-c", f"{qn}: {name}", f"no local named {name}")
            continue
        calls = [n for n in ast.walk(d.value) if isinstance(n, ast.Call) and call_name(n) == "np.take_along_axis"]
        if len(calls) == 1 and len(calls[0].args) >= 2:
            kw = {k.arg: norm_src(k.value) for k in calls[0].keywords}
            gathers[name] = (norm_src(calls[0].args[0]), norm_src(calls[0].args[1]), kw.get("axis"))
    site = f"{qn}: x* and w* gathered at the same breakpoint"
    if len(gathers) == 2:
        (sx, ix, ax_), (sw, iw, aw_) = gathers["x_star"], gathers["w_star"]
        if sx == "x" and sw == "w" and ix == iw and ax_ == aw_ == "1":
            ctx.ok("C05-c", site, f"take_along_axis(x|w, {ix}, axis=1)")
        else:
            ctx.violation("C05-c", u.relpath, qn, norm_src(defs["w_star"])[:160], f"x* = {sx}[{ix}] and w* = {sw}[{iw}] are not gathered from x and w at one and the same index",
                          line=defs["w_star"].lineno, site=site)
    # beta*, theta*
    expect("beta_star", [f"x_star * {v}"], "beta* is not the skip weights rescaled by x*")
    th = defs.get("theta_star")
    site = f"{qn}: theta*"
    if th is None:
        ctx.unrecognised("C05-c", site, "no local named theta_star")
    else:
        val = th.value
        okt = False
        if isinstance(val, ast.BinOp) and isinstance(val.op, ast.Mult):
            parts = [val.left, val.right]
            sign = [p_ for p_ in parts if isinstance(p_, ast.Call) and (call_name(p_) in ("np.where", "np.sign"))]
            mins = [p_ for p_ in parts if isinstance(p_, ast.Call) and call_name(p_) == "np.minimum" and len(p_.args) == 2]
            if sign and mins:
                margs = [norm_src(a) for a in mins[0].args]
                okt = "w_star" in margs and any(f"np.abs({uu})" in a for a in margs)
                if call_name(sign[0]) == "np.where":
                    okt = okt and norm_src(sign[0].args[0]) in (f"{uu} >= 0", f"{uu} > 0") and [norm_src(a) for a in sign[0].args[1:]] == ["1", "-1"]
                else:
                    okt = okt and norm_src(sign[0].args[0]) == uu
        if okt:
            ctx.ok("C05-c", site, "sign(u) * min(|u|, w*)")
        else:
            ctx.violation("C05-c", u.relpath, qn, norm_src(th)[:200], "theta* is not sign(u) * min(|u|, w*): the hierarchy bound |theta| <= M ||beta|| is no longer guaranteed",
                          line=th.lineno, site=site)
    # feasibility, derived: w* = M x* ||v|| and ||beta*|| = x* ||v||
    if wdef is not None and "beta_star" in defs and len(gathers) == 2 and gathers["x_star"][1] == gathers["w_star"][1]:
        ctx.ok("C05-c", f"{qn}: feasibility |theta*| <= w* = M x* ||v|| = M ||beta*||", "derived from w = M x ||v||, one gather index, beta* = x* v, theta* clipped at w*")
    rets = [n for n in ast.walk(f) if isinstance(n, ast.Return)]
    if len(rets) == 1 and norm_src(rets[0].value) in ("(beta_star, theta_star)", "beta_star, theta_star"):
        ctx.ok("C05-c", f"{qn}: returns (beta*, theta*)")
    else:
        ctx.violation("C05-c", u.relpath, qn, norm_src(rets[0]) if rets else "return", "the pair is not returned as (skip weights, hidden weights)", line=f.lineno, site=f"{qn}: return")
    _hier_shapes(pm, ctx, u, f, qn)


def _hier_shapes(pm, ctx, u, f, qn):
    # shapes
    I = Interp(pm)
    D, K, H = Ax("D"), Ax("K"), Ax("H")
    res = I.call_function(u, f, [Arr([D, K]), Arr([D, H]), Num("f"), Num("f")], {}, qual=qn)
    evs = [e for e in dedup_events(nonusage(I.events)) if e.kind == "axis-mismatch"]
    site = f"{qn}: axis types"
    if evs:
        ctx.violation("C05-c", u.relpath, qn, norm_src(evs[0].stmt())[:160], f"[{evs[0].kind}] {evs[0].msg}", line=getattr(evs[0].node, "lineno", None), site=site)
    elif isinstance(res, Tup) and len(res.items) == 2 and all(isinstance(x, Arr) for x in res.items) and [a.name for a in res.items[0].axes] == ["D", "K"] \
            and [a.name for a in res.items[1].axes] == ["D", "H"]:
        ctx.ok("C05-c", site, f"({res.items[0]!r}, {res.items[1]!r})")
    else:
        ctx.unrecognised("C05-c", site, f"abstract result {res!r}")


def controls(pm, tier):
    out = []

    def mut(find, repl, rule, name, also=()):
        def apply(pm_):
            u = pm_.unit(P_)
            if find not in u.src:
                return None
            return {u.relpath: u.src.replace(find, repl, 1)}
        out.append({"name": name, "rule": rule, "apply": apply, "also": also})
    mut("W_star = np.maximum(W_norms - alpha, 0) * W / np.where(W_norms == 0, 1, W_norms)", "W_star = np.maximum(W_norms - alpha, 0) * W", "C05-a", "shrinkage not normalised by the row norm")
    mut("W_star = np.maximum(W_norms - alpha, 0) * W / np.where(W_norms == 0, 1, W_norms)", "W_star = np.maximum(W_norms - 2 * alpha, 0) * W / np.where(W_norms == 0, 1, W_norms)", "C05-a", "threshold doubled")
    mut("    W_norms = np.linalg.norm(W, axis=1, keepdims=True)  # Shape [d,1]", "    W_norms = np.linalg.norm(W, axis=0, keepdims=True)  # Shape [d,1]", "C05-a", "norm over the feature axis")
    mut("    w = M * x * norm_v", "    w = x * norm_v", "C05-c", "hierarchy constant dropped from w")
    mut("    w_star = np.take_along_axis(w, idx, axis=1).reshape((batch, 1))", "    w_star = np.take_along_axis(w, idx - 1, axis=1).reshape((batch, 1))", "C05-c", "w* gathered one breakpoint earlier")
    mut("np.minimum(soft_threshold(0, np.abs(u)), w_star)", "np.maximum(soft_threshold(0, np.abs(u)), w_star)", "C05-c", "theta* clipped from the wrong side")
    mut("    u_abs_sorted = np.sort(np.abs(u), axis=1)[:, ::-1]  # shape dxh", "    u_abs_sorted = np.sort(np.abs(u), axis=1)  # shape dxh", "C05-c", "hidden weights sorted ascending")
    mut("        group_W_star = linear_prox_grad(group_W.reshape((1, -1)), alpha)", "        group_W_star = linear_prox_grad(group_W, alpha)", "C05-b", "group rows shrunk one by one")
    mut("    intervals = soft_threshold(0, u_abs_sorted)  # Shape dxh", "    intervals = soft_threshold(u_abs_sorted, 0)  # Shape dxh", "C05-c", "helper arguments swapped")
    mut("def group_mlp_prox_grad(groups, W_skip, W1, alpha, M):\n", "def group_mlp_prox_grad(groups, W_skip, W1, alpha, M):\n    if alpha == 0:\n        return W_skip.copy(), W1.copy()\n", "C05-c",
        "alpha == 0 shortcut skips the projection")
    return out
