"""C09 - KAURI trees respect their structural limits and reproduce their own partition (structural clauses)."""
import ast

from ..pm import AnalysisError, norm_src, func_params
from ..flow import CFG, attr_chain
from ..astutil import replace_node, call_name, parents
from ..e6_algebra import to_rat, Rat, Poly, NotScalarArithmetic
from ..e2_tables import TableEval
from .c08 import ns
from ..match import expect_assign, expect_call, canon_equal

PROP = "C09"
EXPLANATION = (
    "(a) every insertion into the worklist of explorable leaves - the initial one included - is guarded by the "
    "min_samples_split test on the samples of the inserted leaf and by the depth test (for the root: depth 0 < max_depth "
    "follows from the validated domain max_depth >= 1); (b) the greedy loop is guarded by gain>0, leaves<max_leaves and a "
    "non-empty worklist; (c) linear implication over integers: the negation of the scan's skip test implies "
    "split_size >= min_leaf and n_leaf - split_size >= min_leaf for the split_size passed on; (d) the threshold passed on "
    "is the scanned sample's own feature value and equal neighbours are skipped first; (e) tree encoding: every per-node "
    "list grows by two in _add_child, child ids are n_nodes and n_nodes+1 before n_nodes += 2, and fit's leaf->node map uses "
    "2*n_leaves-1 / 2*n_leaves, which equals those ids under the inductive invariant n_nodes = 2*n_leaves-1; (f) predict "
    "routes with the same comparator (<= threshold -> left child) and score is the objective of the predicted labels. "
    "Not decided: contiguity of the cluster labels, depth arithmetic beyond the guards.")
ADOPT = [("C08", ["C08-f"], "the tree reproduces its own partition only if every recorded split is applied to the assignment matrices as recorded"),
         ("C18", ["C18-d"], "predict reproduces the partition built by fit only if both compare the same floating-point values with the thresholds"),
         ("C11", ["C11-b"], "Kauri.score is the kernel-KMeans objective of the predicted labels only if the kernel it is computed with is the named kernel of the data it "
                            "was given (or the user's matrix)", "Kauri", "a missing precomputed kernel"),
         ("C12", ["C12-c"], "a kernel (or labels) kept from an earlier call and reused on the evidence of object identity makes score describe other data than the ones "
                            "routed through the tree", "kauri.py")]
ASSUMPTIONS = ["np.argsort sorts ascending", "validated hyper-parameter domains (max_depth >= 1, min_samples_leaf >= 1)"]


def linform(node):
    r = to_rat(node)
    if r.d != Poly.const(1):
        raise NotScalarArithmetic("non-polynomial")
    return r.n


def negated_premises(test):
    """for `if A or B: continue` return the linear forms p with p >= 0 that hold after the test (integers)"""
    parts = test.values if isinstance(test, ast.BoolOp) and isinstance(test.op, ast.Or) else [test]
    out = []
    for c in parts:
        if not (isinstance(c, ast.Compare) and len(c.ops) == 1):
            raise NotScalarArithmetic(norm_src(c))
        a, b = linform(c.left), linform(c.comparators[0])
        op = type(c.ops[0])
        if op is ast.Lt:        # not (a < b)  ->  a - b >= 0
            out.append(a - b)
        elif op is ast.Gt:      # not (a > b)  ->  b - a >= 0
            out.append(b - a)
        elif op is ast.LtE:     # not (a <= b) ->  a - b - 1 >= 0
            out.append(a - b - Poly.const(1))
        elif op is ast.GtE:
            out.append(b - a - Poly.const(1))
        else:
            raise NotScalarArithmetic(norm_src(c))
    return out


_COMPL = {ast.Lt: ast.GtE, ast.LtE: ast.Gt, ast.Gt: ast.LtE, ast.GtE: ast.Lt}


def _up(n):
    n = getattr(n, "_parent", None)
    while n is not None:
        yield n
        n = getattr(n, "_parent", None)


def implied(target, premises):
    """target >= 0 follows from some premise p >= 0 when target - p is a non-negative constant"""
    for p in premises:
        d = target - p
        if d.is_const() and d.const_value() >= 0:
            return True
    return False


# role of each parameter of the compiled find_best_split, confirmed by reading its docstring and body; the accepted argument
# expressions of Kauri.fit for that role (canonical source forms)
SPLIT_ROLES = {
    "kernel": ("the kernel of the training data", ["kernel"]),
    "X": ("the validated data", ["X"]),
    "leaves_to_explore": ("the worklist", ["np.array(leaves_to_explore)", "np.asarray(leaves_to_explore)", "leaves_to_explore"]),
    "Y": ("cluster membership of leaves", ["Y"]),
    "Z": ("leaf membership of samples", ["Z"]),
    "n_clusters": ("current number of clusters", ["n_clusters"]),
    "K_max": ("max_clusters", ["self.max_clusters"]),
    "n_leaves": ("current number of leaves", ["n_leaves"]),
    "min_leaf": ("min_samples_leaf", ["self.min_samples_leaf"]),
    "feature_subset": ("random feature subset", None),
}


_GCFG = {}


def split_call_wiring(pm, ctx, ku, pu, fit):
    f = pu.func("find_best_split")
    params = func_params(f)
    calls = [n for n in ast.walk(fit) if isinstance(n, ast.Call) and call_name(n) == "find_best_split"]
    if not calls:
        raise AnalysisError("anchor vanished: find_best_split call in Kauri.fit")
    c = calls[0]
    if any(isinstance(a, ast.Starred) for a in c.args):
        ctx.unrecognised("C09-g", "Kauri.fit: find_best_split(...)", "starred arguments")
        return
    bound = {}
    for i, a in enumerate(c.args):
        if i < len(params):
            bound[params[i]] = a
    for k in c.keywords:
        if k.arg:
            bound[k.arg] = k.value
    for p_ in params:
        site = f"Kauri.fit: find_best_split({p_}=...)"
        role = SPLIT_ROLES.get(p_)
        if role is None:
            ctx.unrecognised("C09-g", site, f"parameter {p_} of find_best_split has no recorded role")
            continue
        if p_ not in bound:
            ctx.violation("C09-g", ku.relpath, "Kauri.fit", "find_best_split(...)", f"no argument for {p_} ({role[0]})", line=c.lineno, site=site)
            continue
        a = bound[p_]
        if isinstance(a, ast.Name) and not (role[1] is not None and norm_src(a) in role[1]):
            # a temporary holding the argument
            try:
                from ..match import resolve_expr, cfg_node
                cfg_ = _GCFG.setdefault(id(fit), CFG(fit))
                a_res = resolve_expr(cfg_, cfg_node(cfg_, c), a)
                if not isinstance(a_res, ast.Name):
                    a = a_res
            except Exception:
                pass
        src = norm_src(a)
        if role[1] is None:
            # feature subset: drawn from the seeded generator over the feature axis, without replacement
            ok = "random_state" in src and "X.shape[1]" in src and "replace=False" in src.replace(" ", "")
            ch = [c_ for c_ in ast.walk(a) if isinstance(c_, ast.Call) and isinstance(c_.func, ast.Attribute) and c_.func.attr == "choice"]
            if ok:
                ctx.ok("C09-g", site, role[0])
            elif ch and "random_state" in src and not any(k.arg == "replace" for k in ch[0].keywords) and len(ch[0].args) < 3:
                ctx.violation("C09-g", ku.relpath, "Kauri.fit", norm_src(ch[0])[:120], "the candidate features are drawn WITH replacement (numpy's default): some features are missing "
                              "from the search even when max_features covers all of them, so the best admissible split can be missed", line=ch[0].lineno, site=site)
            elif ch and any(k.arg == "replace" and isinstance(k.value, ast.Constant) and k.value.value is True for k in ch[0].keywords):
                ctx.violation("C09-g", ku.relpath, "Kauri.fit", norm_src(ch[0])[:120], "the candidate features are drawn with replacement", line=ch[0].lineno, site=site)
            elif isinstance(a, (ast.Name, ast.Attribute)):
                ctx.unrecognised("C09-g", site, f"feature subset given as {src}")
            else:
                ctx.unrecognised("C09-g", site, f"feature subset expression {src[:60]}")
            continue
        if src in role[1]:
            ctx.ok("C09-g", site, role[0])
        elif isinstance(a, (ast.Name, ast.Attribute)) or (isinstance(a, ast.Call) and len(a.args) == 1 and isinstance(a.args[0], (ast.Name, ast.Attribute))):
            ctx.violation("C09-g", ku.relpath, "Kauri.fit", f"find_best_split({p_}={src})", f"the parameter {p_} of find_best_split stands for {role[0]} but receives `{src}`",
                          line=a.lineno, site=site)
        else:
            ctx.unrecognised("C09-g", site, f"argument `{src[:60]}` for {p_}")


def run(pm, ctx):
    ku = pm.unit("gemclus.tree.kauri")
    pu = pm.unit("gemclus.tree._utils")
    fit = ku.func("Kauri.fit")
    ctx.rule("C09-a", "a leaf enters the worklist only if it may be split: enough samples and depth left", floor=3)
    ctx.rule("C09-b", "the loop stops at max_leaves / empty worklist / non-positive gain", floor=2)
    ctx.rule("C09-c", "both children of every evaluated split hold at least min_samples_leaf samples", floor=3)
    ctx.rule("C09-d", "thresholds are observed feature values separating two different values", floor=2)
    ctx.rule("C09-e", "the array encoding of the tree stays consistent (2*leaves-1 nodes, ids of the children)", floor=8)
    ctx.rule("C09-f", "predict must route with the comparator used to build the partition; score is the objective of predict", floor=4)

    ctx.rule("C09-g", "every limit and every state matrix reaches the parameter of find_best_split that stands for it", floor=10)
    # the root is a leaf too: data with fewer rows than min_samples_leaf must be rejected by the validation of fit
    vcalls = [c_ for c_ in ast.walk(fit) if isinstance(c_, ast.Call) and (call_name(c_) or "").split(".")[-1] in ("validate_data", "check_array")]
    site = "Kauri.fit: the root holds at least min_samples_leaf samples"
    ems = [k.value for c_ in vcalls for k in c_.keywords if k.arg == "ensure_min_samples"]
    if not vcalls:
        ctx.unrecognised("C09-c", site, "no validation call in Kauri.fit")
    elif any(attr_chain(e) == "self.min_samples_leaf" or norm_src(e) in ("max(self.min_samples_leaf, 1)", "max(1, self.min_samples_leaf)") for e in ems):
        ctx.ok("C09-c", site, "ensure_min_samples=self.min_samples_leaf")
    elif not ems:
        ctx.violation("C09-c", ku.relpath, "Kauri.fit", norm_src(vcalls[-1])[:140], "no validation call of fit requires at least min_samples_leaf rows: a smaller data set yields a "
                      "fitted tree whose only leaf is below the limit", line=vcalls[-1].lineno, site=site)
    else:
        ctx.unrecognised("C09-c", site, f"ensure_min_samples={norm_src(ems[0])}")
    split_call_wiring(pm, ctx, ku, pu, fit)

    # ------------------------------------------------------------------ a
    inserts = []
    for n in ast.walk(fit):
        if isinstance(n, ast.Assign) and isinstance(n.targets[0], ast.Name) and n.targets[0].id == "leaves_to_explore":
            inserts.append(("init", n, n.value))
        if isinstance(n, ast.Call) and call_name(n) in ("leaves_to_explore.append", "leaves_to_explore.extend", "leaves_to_explore.insert"):
            inserts.append(("append", n, n.args[-1]))
        if isinstance(n, ast.AugAssign) and isinstance(n.target, ast.Name) and n.target.id == "leaves_to_explore":
            inserts.append(("append", n, n.value))
    if len(inserts) < 3:
        raise AnalysisError("anchor vanished: worklist insertions of Kauri.fit")
    te = TableEval(pm)
    tab = te.class_constraints(pm.classes["Kauri"])
    depth_ok_root = any(d.kind == "interval" and d.lo >= 1 for d in tab.get("max_depth", []))
    for kind, node, val in inserts:
        st = node
        while not isinstance(st, ast.stmt):
            st = st._parent
        site = f"Kauri.fit: {norm_src(st)[:70]}"
        if kind == "init":
            # [0] if <size test> else []   or   [] then guarded append
            ok = False
            if isinstance(val, ast.IfExp) and norm_src(val.orelse) == "[]" and norm_src(val.body) == "[0]":
                for cand in ("len(X) >= self.min_samples_split", "n >= self.min_samples_split", "X.shape[0] >= self.min_samples_split"):
                    try:
                        from ..e6_algebra import compare_normal
                        d1, o1 = compare_normal(val.test)
                        d2, o2 = compare_normal(ast.parse(cand, mode="eval").body)
                        ok = ok or (o1 == o2 and d1.equals(d2))
                    except Exception:
                        pass
            elif norm_src(val) == "[]":
                ok = True
            elif norm_src(val) != "[0]":
                ctx.unrecognised("C09-a", site, f"initial worklist {norm_src(val)}")
                continue
            if ok and depth_ok_root:
                ctx.ok("C09-a", site, "root guarded by min_samples_split; depth 0 < max_depth by the validated domain")
            else:
                ctx.violation("C09-a", ku.relpath, "Kauri.fit", norm_src(st), "the root enters the worklist without the min_samples_split guard "
                              "that every later insertion has", line=st.lineno, site=site)
            continue
        leaf = norm_src(val)
        if leaf == "0" and not any(isinstance(p_, (ast.While, ast.For)) for p_ in parents(node)):
            # the root inserted by a statement before the loop: it needs the min_samples_split guard on the whole data
            tn = [p_.test for p_ in parents(node) if isinstance(p_, ast.If) and _in_body(p_, node)]
            okr = False
            for t in tn:
                for cand in ("len(X) >= self.min_samples_split", "n >= self.min_samples_split", "X.shape[0] >= self.min_samples_split"):
                    try:
                        from ..e6_algebra import compare_normal
                        d1, o1 = compare_normal(t)
                        d2, o2 = compare_normal(ast.parse(cand, mode="eval").body)
                        okr = okr or (o1 == o2 and d1.equals(d2))
                    except Exception:
                        pass
            if okr and depth_ok_root:
                ctx.ok("C09-a", site, "root guarded by min_samples_split; depth 0 < max_depth by the validated domain")
            else:
                ctx.violation("C09-a", ku.relpath, "Kauri.fit", norm_src(st), "the root enters the worklist without the min_samples_split guard that every later insertion has",
                              line=st.lineno, site=site)
            continue
        idx = {"best_split.leaf": "left_indices", "n_leaves": "right_indices"}.get(leaf)
        tnodes = [p.test for p in parents(node) if isinstance(p, ast.If) and _in_body(p, node)]
        tests = [norm_src(t) for t in tnodes]
        want_size = f"len({idx}) >= self.min_samples_split" if idx else None

        def same_cmp(t, text):
            try:
                from ..e6_algebra import compare_normal
                d1, o1 = compare_normal(t)
                d2, o2 = compare_normal(ast.parse(text, mode="eval").body)
                return o1 == o2 and d1.equals(d2)
            except Exception:
                return norm_src(t) == text
        flat = [c for t in tnodes for c in (t.values if isinstance(t, ast.BoolOp) and isinstance(t.op, ast.And) else [t])]
        okk = idx is not None and any(same_cmp(t, want_size) for t in flat) and any(same_cmp(t, "parent_depth + 1 < max_depth") for t in flat)
        if idx is None:
            ctx.unrecognised("C09-a", site, f"inserted leaf {leaf} is neither the split leaf nor the new leaf")
            continue
        if okk:
            ctx.ok("C09-a", site, f"guards {tests}")
        else:
            ctx.violation("C09-a", ku.relpath, "Kauri.fit", norm_src(st), f"leaf {leaf} enters the worklist without both guards "
                          f"({want_size}; parent_depth + 1 < max_depth); guards found: {tests}", line=st.lineno, site=site)
    # parent_depth is the depth of the node just split; max_depth default
    pd = expect_assign(ctx, "C09-a", ku, "Kauri.fit", fit, "parent_depth", ["self.tree_.get_depth(leaf2node[best_split.leaf])"], "Kauri.fit: parent_depth",
                       "parent_depth is not the depth of the node that was just split")
    expect_assign(ctx, "C09-a", ku, "Kauri.fit", fit, "max_depth", ["len(X) if self.max_depth is None else self.max_depth", "self.max_depth if self.max_depth is not None else len(X)"],
                  "Kauri.fit: max_depth", "max_depth is not the hyper-parameter (or the number of samples when None)")
    if pd is not None:
        repoint = [s_ for s_ in ast.walk(fit) if isinstance(s_, ast.Assign) and norm_src(s_.targets[0]) == "leaf2node[best_split.leaf]"]
        if repoint and pd.lineno > repoint[0].lineno and pd in fit_cfg_nodes(fit) and repoint[0] in fit_cfg_nodes(fit):
            ctx.violation("C09-a", ku.relpath, "Kauri.fit", norm_src(pd), "parent_depth is read after leaf2node[best_split.leaf] was re-pointed to the left child: it is the child's depth",
                          line=pd.lineno, site="Kauri.fit: parent_depth order")
        elif repoint:
            ctx.ok("C09-a", "Kauri.fit: parent_depth read before the leaf->node map is re-pointed")

    # ------------------------------------------------------------------ b
    w = [n for n in ast.walk(fit) if isinstance(n, ast.While)]
    if len(w) != 1:
        raise AnalysisError("anchor vanished: main loop of Kauri.fit")
    conj = [v for v in (w[0].test.values if isinstance(w[0].test, ast.BoolOp) and isinstance(w[0].test.op, ast.And) else [w[0].test])]
    need = {"gain": ["last_gain > 0"], "leaves": ["n_leaves < max_leaves"], "worklist": ["len(leaves_to_explore) != 0", "len(leaves_to_explore) > 0"]}
    found = {}
    for c in conj:
        for k, alts in need.items():
            for a in alts:
                try:
                    from ..e6_algebra import compare_normal
                    if compare_normal(c)[1] == compare_normal(ast.parse(a, mode="eval").body)[1] and compare_normal(c)[0].equals(compare_normal(ast.parse(a, mode="eval").body)[0]):
                        found[k] = c
                except Exception:
                    if norm_src(c) == a:
                        found[k] = c
    if norm_src(w[0].test) and any(norm_src(c) == "leaves_to_explore" for c in conj):
        found["worklist"] = True
    miss = [k for k in need if k not in found]
    if not miss:
        ctx.ok("C09-b", "Kauri.fit: while gain>0 and n_leaves<max_leaves and worklist non-empty")
    else:
        # a conjunct about the same variable with another bound is a violation; a differently written loop is unrecognised
        mentioned = {k: any(v in norm_src(w[0].test) for v in (["last_gain"] if k == "gain" else ["n_leaves"] if k == "leaves" else ["leaves_to_explore"])) for k in miss}
        if any(mentioned.values()):
            ctx.violation("C09-b", ku.relpath, "Kauri.fit", norm_src(w[0].test), f"the loop guard does not enforce {[k for k in miss if mentioned[k]]} as gain>0 / n_leaves<max_leaves / non-empty worklist",
                          line=w[0].lineno)
        else:
            ctx.violation("C09-b", ku.relpath, "Kauri.fit", norm_src(w[0].test), f"the greedy loop has no guard on {miss}: it can exceed max_leaves / run on an empty worklist / accept non-positive gains",
                          line=w[0].lineno)
    expect_assign(ctx, "C09-b", ku, "Kauri.fit", fit, "max_leaves", ["self.max_leaves if self.max_leaves is not None else n", "n if self.max_leaves is None else self.max_leaves"],
                  "Kauri.fit: max_leaves", "max_leaves is not the hyper-parameter (or n when None)")

    # ------------------------------------------------------------------ c, d in the scan
    fb = pu.func("find_best_split")
    cas = pu.func("compute_all_splits")
    calls = [n for n in ast.walk(fb) if isinstance(n, ast.Call) and call_name(n) == "compute_all_splits"]
    if len(calls) != 1:
        raise AnalysisError("anchor vanished: call of compute_all_splits")
    call = calls[0]
    params = func_params(cas)
    argmap = {p: a for p, a in zip(params, call.args)}
    cst = call
    while not isinstance(cst, ast.stmt):
        cst = cst._parent
    # the scan loop, and the conditions under which the candidate is evaluated: earlier `if ...: continue` guards of the blocks that hold
    # the call (their negations hold) and the tests of the `if` statements the call is nested in (they hold)
    scan_loop = next((p_ for p_ in _up(cst) if isinstance(p_, ast.For)), None)
    skips, enclosing = [], []
    child = cst
    for p_ in _up(cst):
        for field in ("body", "orelse"):
            blk = getattr(p_, field, None)
            if isinstance(blk, list) and any(x is child for x in blk):
                i_ = next(i for i, x in enumerate(blk) if x is child)
                skips += [s for s in blk[:i_] if isinstance(s, ast.If) and s.body and isinstance(s.body[-1], ast.Continue) and not s.orelse]
                if isinstance(p_, ast.If):
                    enclosing.append((p_, field == "body"))
        if p_ is scan_loop:
            break
        child = p_
    site = "find_best_split: min-leaf window"
    prem = []
    for s in skips:
        try:
            prem += negated_premises(s.test)
        except NotScalarArithmetic:
            pass
    for if_, holds in enclosing:
        try:
            if holds:
                conj = if_.test.values if isinstance(if_.test, ast.BoolOp) and isinstance(if_.test.op, ast.And) else [if_.test]
                for c in conj:
                    try:
                        # c holds  <=>  not (not c): reuse the negation table on the complemented comparison
                        if isinstance(c, ast.Compare) and len(c.ops) == 1 and type(c.ops[0]) in _COMPL:
                            prem += negated_premises(ast.Compare(left=c.left, ops=[_COMPL[type(c.ops[0])]()], comparators=c.comparators))
                    except NotScalarArithmetic:
                        pass
            else:
                prem += negated_premises(if_.test)
        except NotScalarArithmetic:
            pass
    try:
        ss = linform(argmap["split_size"])
        nl = linform(argmap["n_leaf"])
        ml_ = linform(argmap.get("min_leaf", ast.parse("min_leaf", mode="eval").body)) if False else linform(ast.parse("min_leaf", mode="eval").body)
        t1 = ss - ml_
        t2 = nl - ss - ml_
        ok1, ok2 = implied(t1, prem), implied(t2, prem)
    except (NotScalarArithmetic, KeyError) as e:
        ok1 = ok2 = False
    if ok1:
        ctx.ok("C09-c", site + ": left part", f"split_size={norm_src(argmap['split_size'])} >= min_leaf")
    else:
        ctx.violation("C09-c", pu.relpath, "find_best_split", norm_src(skips[0].test) if skips else "window test",
                      "the scan does not guarantee split_size >= min_leaf for the split_size it passes on", line=cst.lineno, site=site + ": left part")
    if ok2:
        ctx.ok("C09-c", site + ": right part", "n_leaf - split_size >= min_leaf")
    else:
        ctx.violation("C09-c", pu.relpath, "find_best_split", norm_src(skips[0].test) if skips else "window test",
                      "the scan does not guarantee n_leaf - split_size >= min_leaf", line=cst.lineno, site=site + ": right part")
    # the loop variable / split_size relation: split_size counts the samples moved to the left so far
    scan = scan_loop
    if isinstance(scan, ast.For) and norm_src(scan.target) == "l_split" and norm_src(scan.iter) in ("range(n_leaf - 1)",) \
            and norm_src(argmap["split_size"]) == "l_split + 1":
        ctx.ok("C09-c", "find_best_split: scan over l_split in range(n_leaf-1), split_size = l_split+1")
    else:
        ctx.violation("C09-c", pu.relpath, "find_best_split", norm_src(scan)[:100] if isinstance(scan, ast.For) else "scan", "the threshold scan no longer "
                      "enumerates prefixes of the sorted leaf samples with split_size = l_split + 1", line=cst.lineno)
    # ---- d
    thr = argmap.get("threshold")
    feat = argmap.get("feature_id")
    site = "find_best_split: threshold"
    if thr is None or feat is None:
        ctx.unrecognised("C09-d", site, "compute_all_splits is not given threshold / feature_id positionally")
    else:
        # the threshold must be an element of X, in the scanned feature's column, at the sample currently scanned (nu[l_split])
        okthr = isinstance(thr, ast.Subscript) and norm_src(thr.value) == "X" and isinstance(thr.slice, ast.Tuple) and len(thr.slice.elts) == 2 \
            and norm_src(thr.slice.elts[1]) == norm_src(feat)
        if not okthr:
            ctx.violation("C09-d", pu.relpath, "find_best_split", norm_src(cst)[:160], f"the threshold handed on is `{norm_src(thr)}`: not an observed value X[sample, {norm_src(feat)}]",
                          line=cst.lineno, site=site)
        else:
            row = norm_src(thr.slice.elts[0])
            eqskip = [s_ for s_ in skips if isinstance(s_.test, ast.Compare) and isinstance(s_.test.ops[0], ast.Eq) and norm_src(thr) in (norm_src(s_.test.left), norm_src(s_.test.comparators[0]))]
            nxt = False
            neq = [if_ for if_, holds in enclosing if holds and isinstance(if_.test, ast.Compare) and isinstance(if_.test.ops[0], ast.NotEq)
                   and norm_src(thr) in (norm_src(if_.test.left), norm_src(if_.test.comparators[0]))]
            for s_ in eqskip + neq:
                other = s_.test.comparators[0] if norm_src(s_.test.left) == norm_src(thr) else s_.test.left
                if isinstance(other, ast.Subscript) and norm_src(other.value) == "X" and isinstance(other.slice, ast.Tuple) and norm_src(other.slice.elts[1]) == norm_src(feat):
                    r2 = other.slice.elts[0]
                    # nu[l_split + 1]: the next sample in sorted order
                    if isinstance(r2, ast.Subscript) and isinstance(thr.slice.elts[0], ast.Subscript) and norm_src(r2.value) == norm_src(thr.slice.elts[0].value) \
                            and canon_equal(r2.slice, f"{norm_src(thr.slice.elts[0].slice)} + 1"):
                        nxt = True
            if nxt:
                ctx.ok("C09-d", site, f"{norm_src(thr)}; a split between equal neighbours is skipped")
            else:
                ctx.violation("C09-d", pu.relpath, "find_best_split", norm_src(cst)[:160], "candidate thresholds between two equal feature values are not skipped: the `<=` rule cannot "
                              "separate them, so the evaluated and the applied partitions differ", line=cst.lineno, site=site)
    # nu is leaf_indices permuted by the ascending order of the feature
    o = expect_assign(ctx, "C09-d", pu, "find_best_split", fb, "ordering", ["np.argsort(subset_X)"], "find_best_split: ordering", "the scan order is not the ascending order of the feature values")
    expect_assign(ctx, "C09-d", pu, "find_best_split", fb, "nu[a]", ["leaf_indices[ordering[a]]"], "find_best_split: nu", "nu is not the leaf samples in sorted order")
    expect_assign(ctx, "C09-d", pu, "find_best_split", fb, "subset_X[a]", ["X[leaf_indices[a], feature]"], "find_best_split: subset_X", "the sorted values are not the leaf's values of the scanned feature")

    # ------------------------------------------------------------------ e
    tree = pm.classes.get("Tree")
    if tree is None:
        raise AnalysisError("anchor vanished: class Tree")
    init, add = tree.methods["__init__"], tree.methods["_add_child"]
    sn = "self"
    lists = {}
    for st in init.body:
        if isinstance(st, ast.Assign) and isinstance(st.value, ast.List) and attr_chain(st.targets[0]):
            lists[attr_chain(st.targets[0])] = st
    grown = {}
    for st in ast.walk(add):
        if isinstance(st, ast.AugAssign) and isinstance(st.op, ast.Add) and attr_chain(st.target) in lists:
            grown.setdefault(attr_chain(st.target), []).append(st)
        if isinstance(st, ast.Expr) and isinstance(st.value, ast.Call) and isinstance(st.value.func, ast.Attribute) and st.value.func.attr in ("extend", "append") \
                and attr_chain(st.value.func.value) in lists:
            grown.setdefault(attr_chain(st.value.func.value), []).append(st)
    for name, st in lists.items():
        site = f"Tree: {name}"
        g = grown.get(name, [])
        n_added = 0
        for x in g:
            if isinstance(x, ast.AugAssign) and isinstance(x.value, ast.List):
                n_added += len(x.value.elts)
            elif isinstance(x, ast.Expr) and x.value.func.attr == "append":
                n_added += 1
            elif isinstance(x, ast.Expr) and x.value.args and isinstance(x.value.args[0], (ast.List, ast.Tuple)):
                n_added += len(x.value.args[0].elts)
            else:
                n_added = None
                break
        if n_added is None:
            ctx.unrecognised("C09-e", site, "growth of the list is not a literal extension")
        elif len(st.value.elts) == 1 and n_added == 2:
            ctx.ok("C09-e", site, "1 entry at creation, +2 per split")
        else:
            ctx.violation("C09-e", ku.relpath, "Tree._add_child", norm_src(g[0]) if g else name, f"the per-node list {name} has {len(st.value.elts)} entry at creation and grows by "
                          f"{n_added} per split; every node list must grow by exactly the two children", line=(g[0].lineno if g else add.lineno), site=site)
    father = func_params(add)[1]
    l_ = expect_assign(ctx, "C09-e", ku, "Tree._add_child", add, f"self.children_left[{father}]", ["self.n_nodes"], "Tree._add_child: left child id", "the left child is not node n_nodes")
    r_ = expect_assign(ctx, "C09-e", ku, "Tree._add_child", add, f"self.children_right[{father}]", ["self.n_nodes + 1"], "Tree._add_child: right child id", "the right child is not node n_nodes + 1")
    incs = [s_ for s_ in add.body if isinstance(s_, ast.AugAssign) and norm_src(s_.target) == "self.n_nodes"]
    site = "Tree._add_child: node counter"
    if not incs:
        ctx.unrecognised("C09-e", site, "no update of n_nodes")
    elif len(incs) == 1 and isinstance(incs[0].op, ast.Add) and canon_equal(incs[0].value, "2") and all(x is None or incs[0].lineno > x.lineno for x in (l_, r_)):
        ctx.ok("C09-e", site, "n_nodes += 2 after the child ids were taken")
    else:
        ctx.violation("C09-e", ku.relpath, "Tree._add_child", norm_src(incs[0]), "n_nodes is not advanced by 2 after the children ids were assigned", line=incs[0].lineno, site=site)
    expect_assign(ctx, "C09-e", ku, "Tree.__init__", init, "self.n_nodes", ["1"], "Tree.__init__: one root node", "a new tree does not start with exactly the root")
    # depths: both children are one level below the node that was split; get_depth(node) returns the depth of that very node
    dpt = [s_ for s_ in ast.walk(add) if (isinstance(s_, ast.AugAssign) and norm_src(s_.target) == "self.depths") or
           (isinstance(s_, ast.Expr) and isinstance(s_.value, ast.Call) and norm_src(s_.value.func) in ("self.depths.extend",))]
    site = "Tree._add_child: depths of the children"
    if not dpt:
        ctx.unrecognised("C09-e", site, "no extension of self.depths")
    else:
        v = dpt[0].value if isinstance(dpt[0], ast.AugAssign) else dpt[0].value.args[0]
        elts = v.elts if isinstance(v, (ast.List, ast.Tuple)) else None
        if isinstance(v, ast.BinOp) and isinstance(v.op, ast.Mult) and isinstance(v.left, ast.List) and len(v.left.elts) == 1 and canon_equal(v.right, "2"):
            elts = [v.left.elts[0], v.left.elts[0]]
        if elts is None or len(elts) != 2:
            ctx.unrecognised("C09-e", site, norm_src(dpt[0])[:80])
        elif all(canon_equal(e, f"self.depths[{father}] + 1") for e in elts):
            ctx.ok("C09-e", site, "depth(father) + 1 for both")
        else:
            ctx.violation("C09-e", ku.relpath, "Tree._add_child", norm_src(dpt[0]), f"the children's depths are {[norm_src(e) for e in elts]}, not depth({father}) + 1 for both: "
                          f"max_depth is then checked against a wrong depth", line=dpt[0].lineno, site=site)
    gd = ku.func("Tree.get_depth")
    site = "Tree.get_depth: depth of the node asked for"
    rets = [r for r in ast.walk(gd) if isinstance(r, ast.Return) and isinstance(r.value, ast.Subscript) and norm_src(r.value.value) == "self.depths"]
    pn = func_params(gd)[1] if len(func_params(gd)) > 1 else None
    if not rets or pn is None:
        ctx.unrecognised("C09-e", site, "no `return self.depths[...]`")
    else:
        cfgd = CFG(gd)
        from ..match import resolve_expr
        idx = resolve_expr(cfgd, rets[0], rets[0].value.slice)
        okd = None
        if isinstance(idx, ast.Name) and idx.id == pn:
            okd = True
        elif isinstance(idx, ast.Call) and call_name(idx) == "min" and len(idx.args) == 2:
            inner = [a for a in idx.args if isinstance(a, ast.Call) and call_name(a) == "max"]
            upper = [a for a in idx.args if a not in inner]
            if inner and upper and sorted(norm_src(a) for a in inner[0].args) == sorted([pn, "0"]):
                # min(max(node, 0), U) == node for every valid node 0..len-1  iff  U >= len - 1
                try:
                    d_ = to_rat(upper[0]) - to_rat(ast.parse("len(self.depths) - 1", mode="eval").body)
                    okd = d_.d == Poly.const(1) and d_.n.is_const() and d_.n.const_value() >= 0
                except NotScalarArithmetic:
                    okd = None
        if okd is True:
            ctx.ok("C09-e", site, norm_src(idx)[:60])
        elif okd is False:
            ctx.violation("C09-e", ku.relpath, "Tree.get_depth", norm_src(idx)[:100], "the node index is clamped below the last node: get_depth of the newest nodes returns "
                          "the depth of another node", line=rets[0].lineno, site=site)
        else:
            ctx.unrecognised("C09-e", site, f"index `{norm_src(idx)[:60]}`")
    tgt = [s_ for s_ in ast.walk(add) if isinstance(s_, ast.AugAssign) and norm_src(s_.target) == "self.target"]
    site = "Tree._add_child: targets"
    if not tgt:
        ctx.unrecognised("C09-e", site, "no extension of self.target")
    elif isinstance(tgt[0].value, ast.List) and [norm_src(e) for e in tgt[0].value.elts] == ["split.left_target", "split.right_target"]:
        ctx.ok("C09-e", site, "left target for node n_nodes, right target for n_nodes+1")
    else:
        ctx.violation("C09-e", ku.relpath, "Tree._add_child", norm_src(tgt[0]), "the clusters of the two children are not appended as (left_target, right_target), the order of the child ids",
                      line=tgt[0].lineno, site=site)
    # leaf2node uses the ids _add_child assigns, under n_nodes = 2*n_leaves - 1
    expect_assign(ctx, "C09-e", ku, "Kauri.fit", fit, "leaf2node[best_split.leaf]", ["2 * n_leaves - 1"], "Kauri.fit: leaf->node of the left child",
                  "the split leaf is not re-pointed to node 2*n_leaves-1 (= n_nodes before the split, the left child id)")
    expect_assign(ctx, "C09-e", ku, "Kauri.fit", fit, "leaf2node[n_leaves]", ["2 * n_leaves"], "Kauri.fit: leaf->node of the right child",
                  "the new leaf is not mapped to node 2*n_leaves (the right child id)")
    expect_assign(ctx, "C09-e", ku, "Kauri.fit", fit, "n_leaves", ["1"], "Kauri.fit: one leaf initially", "fit does not start from a single leaf")
    expect_call(ctx, "C09-e", ku, "Kauri.fit", fit, "self.tree_._add_child", "Kauri.fit: node split", "the split is not recorded at the node of the split leaf",
                args=["leaf2node[best_split.leaf]", "best_split"])

    # ------------------------------------------------------------------ f
    pred = tree.methods["predict"]
    xl = [s_ for s_ in ast.walk(pred) if isinstance(s_, ast.Assign) and isinstance(s_.value, ast.Compare) and "self.thresholds[node]" in norm_src(s_.value)]
    site = "Tree.predict: comparator"
    widened = [s_ for s_ in ast.walk(pred) if isinstance(s_, ast.Assign) and isinstance(s_.value, (ast.BinOp, ast.BoolOp)) and "self.thresholds[node]" in norm_src(s_.value)
               and any(isinstance(n_, ast.Compare) for n_ in ast.walk(s_.value))
               and (isinstance(s_.value, ast.BoolOp) or isinstance(s_.value.op, (ast.BitOr, ast.BitAnd, ast.BitXor)))]
    if not xl and widened:
        w_ = widened[0]
        ctx.violation("C09-f", ku.relpath, "Tree.predict", norm_src(w_)[:200], "the mask of the samples sent to the left child is not the plain comparison `feature <= threshold`: it is "
                      "combined with another test, while fit partitioned the training data with the exact `<=` - predict no longer reproduces the partition "
                      "(and new points near a threshold get the label of the neighbouring region)", line=w_.lineno, site=site)
    elif not xl:
        ctx.unrecognised("C09-f", site, "no comparison with thresholds[node]")
    else:
        from ..pm import canon_node
        c = canon_node(xl[0].value)
        left_name = norm_src(xl[0].targets[0])
        okc = isinstance(c.ops[0], ast.LtE) and norm_src(c.left) == "X[:, self.features[node]]" and norm_src(c.comparators[0]) == "self.thresholds[node]"
        routes = {norm_src(s_.targets[0]): norm_src(s_.value) for s_ in ast.walk(pred) if isinstance(s_, ast.Assign) and isinstance(s_.targets[0], ast.Subscript)
                  and norm_src(s_.targets[0].value) == "predictions"}
        comp = [s_ for s_ in ast.walk(pred) if isinstance(s_, ast.Assign) and norm_src(s_.value) in (f"~{left_name}", f"np.logical_not({left_name})", f"np.invert({left_name})",
                                                                                                     f"{left_name} == False", f"~({left_name})")]
        right_name = norm_src(comp[0].targets[0]) if comp else None
        okr = routes.get(f"predictions[{left_name}]") == f"self.predict(X[{left_name}], self.children_left[node])" and right_name is not None \
            and routes.get(f"predictions[{right_name}]") == f"self.predict(X[{right_name}], self.children_right[node])"
        if okc and okr:
            ctx.ok("C09-f", site, "feature <= threshold -> left child, the complement -> right child")
        else:
            ctx.violation("C09-f", ku.relpath, "Tree.predict", norm_src(xl[0]), "predict does not send `feature <= threshold` to children_left and the rest to children_right, "
                          "the partition fit built", line=xl[0].lineno, site=site)
    leafret = [s_ for s_ in ast.walk(pred) if isinstance(s_, ast.Return) and "self.target[node]" in norm_src(s_)]
    leaftest = [s_ for s_ in ast.walk(pred) if isinstance(s_, ast.If) and norm_src(s_.test) in ("self.children_left[node] == -1", "-1 == self.children_left[node]")]
    if leafret and leaftest:
        ctx.ok("C09-f", "Tree.predict: leaves return their target")
    else:
        ctx.unrecognised("C09-f", "Tree.predict: leaves", "no `children_left[node] == -1` leaf returning target[node]")
    kp = ku.func("Kauri.predict")
    rets = [s_ for s_ in ast.walk(kp) if isinstance(s_, ast.Return)]
    if rets and canon_equal(rets[0].value, "self.tree_.predict(X)"):
        ctx.ok("C09-f", "Kauri.predict = tree_.predict from the root")
    elif rets and "tree_.predict" in norm_src(rets[0]):
        ctx.violation("C09-f", ku.relpath, "Kauri.predict", norm_src(rets[0]), "predict does not route the validated X through the fitted tree from its root", line=rets[0].lineno,
                      site="Kauri.predict")
    else:
        ctx.unrecognised("C09-f", "Kauri.predict", "does not return tree_.predict(...)")
    ks = ku.func("Kauri.score")
    rets = [s_ for s_ in ast.walk(ks) if isinstance(s_, ast.Return)]
    cfgk = CFG(ks)
    from ..match import resolve_expr
    site = "Kauri.score"
    if not rets:
        ctx.unrecognised("C09-f", site, "no return")
    else:
        full = resolve_expr(cfgk, rets[0], rets[0].value)
        if canon_equal(full, "gemini_objective(self.predict(X), self._compute_kernel(X, y))"):
            ctx.ok("C09-f", "Kauri.score = gemini_objective(predict(X), kernel(X, y))")
        elif "gemini_objective" in norm_src(full):
            ctx.violation("C09-f", ku.relpath, "Kauri.score", norm_src(full)[:160], "score is not the kernel-KMeans objective of predict(X) under the kernel of the given data", line=rets[0].lineno, site=site)
        else:
            ctx.unrecognised("C09-f", site, f"returns {norm_src(full)[:80]}")
    go = pu.func("gemini_objective")
    accs = [s_ for s_ in ast.walk(go) if isinstance(s_, ast.AugAssign) and isinstance(s_.op, ast.Add)]
    site = "gemini_objective"
    if not accs:
        ctx.unrecognised("C09-f", site, "no accumulation")
    elif canon_equal(accs[0].value, "kernel_stock(kernel, indices) / len(indices)") and any(isinstance(l_, ast.For) and "np.unique(y_pred)" in norm_src(l_.iter) for l_ in ast.walk(go)):
        ctx.ok("C09-f", "gemini_objective = sum over present labels of stock/size")
    else:
        ctx.violation("C09-f", pu.relpath, "gemini_objective", norm_src(accs[0]), "the objective is not sum_k sigma(C_k^2)/|C_k| over the labels present", line=accs[0].lineno, site=site)
    expect_assign(ctx, "C09-f", ku, "Kauri.fit", fit, "self.labels_", ["(Y @ Z).argmax(0)"], "Kauri.fit: labels_", "labels_ is not the cluster (Y) of each sample's leaf (Z)")


def fit_cfg_nodes(f):
    return {n for n in ast.walk(f) if isinstance(n, ast.stmt)}


def _in_body(ifnode, node):
    for s in ifnode.body:
        for n in ast.walk(s):
            if n is node:
                return True
    return False


def controls(pm, tier):
    out = []

    def mut(mod, find, repl, rule, name):
        def apply(pm_):
            u = pm_.unit(mod)
            if find not in u.src:
                return None
            return {u.relpath: u.src.replace(find, repl, 1)}
        out.append({"name": name, "rule": rule, "apply": apply})
    K, U = "gemclus.tree.kauri", "gemclus.tree._utils"
    mut(K, "leaves_to_explore = [0] if len(X) >= self.min_samples_split else []", "leaves_to_explore = [0]", "C09-a", "root enqueued unguarded")
    mut(K, "if len(right_indices) >= self.min_samples_split:", "if len(left_indices) >= self.min_samples_split:", "C09-a", "right child guarded by the left size")
    mut(K, "while last_gain > 0 and n_leaves < max_leaves and", "while last_gain > 0 and n_leaves <= max_leaves and", "C09-b", "max_leaves off by one")
    mut(U, "if l_split < (min_leaf - 1) or l_split > n_leaf - min_leaf - 1:", "if l_split < (min_leaf - 1) or l_split > n_leaf - min_leaf:", "C09-c", "right window off by one")
    mut(U, "feature, X[nu[l_split], feature])", "feature, (X[nu[l_split], feature] + X[nu[l_split+1], feature]) / 2)", "C09-d", "mid-point thresholds")
    mut(K, "self.children_right[father] = self.n_nodes + 1", "self.children_right[father] = self.n_nodes + 2", "C09-e", "right child id off by one")
    mut(K, "leaf2node[n_leaves] = 2 * n_leaves  # Index of the right child", "leaf2node[n_leaves] = 2 * n_leaves + 1", "C09-e", "leaf2node right off by one")
    mut(K, "X_left = X[:, self.features[node]] <= self.thresholds[node]", "X_left = X[:, self.features[node]] < self.thresholds[node]", "C09-f", "predict routes with <")
    mut(K, "        self.depths += [self.depths[father] + 1, self.depths[father] + 1]", "        self.depths += [self.depths[father], self.depths[father] + 1]", "C09-e", "left child keeps its father's depth")
    mut(K, "            node = min(max(node, 0), len(self.depths))", "            node = min(max(node, 0), len(self.depths) - 2)", "C09-e", "get_depth clamps the newest node away")
    mut(K, "random_state.choice(X.shape[1], size=max_features, replace=False)", "random_state.choice(X.shape[1], size=max_features)", "C09-g", "candidate features drawn with replacement")
    mut(K, "dtype=np.float64, ensure_min_samples=self.min_samples_leaf)", "dtype=np.float64)", "C09-c", "tiny data sets are no longer rejected")
    return out
