"""C09 - KAURI trees respect their structural limits and reproduce their own partition (structural clauses)."""
import ast

from ..pm import AnalysisError, norm_src, func_params
from ..flow import CFG, attr_chain
from ..astutil import replace_node, call_name, parents
from ..e6_algebra import to_rat, Rat, Poly, NotScalarArithmetic
from ..e2_tables import TableEval
from .c08 import ns

PROP = "C09"
EXPLANATION = (
    "(a) every insertion into the worklist of explorable leaves - the initial one included - is guarded by the "
    "min_samples_split test on the samples of the inserted leaf and by the depth test (for the root: depth 0 < max_depth "
    "follows from the validated domain max_depth >= 1); (b) the greedy loop is guarded by gain>0, leaves<max_leaves and a "
    "non-empty worklist; (c) linear implication over integers: the negation of the scan's skip test implies "
    "split_size >= min_leaf and n_leaf - split_size >= min_leaf for the split_size passed on; (d) the threshold passed on "
    "is the scanned sample's own feature value and equal neighbours are skipped first; (e) tree encoding: every per-node "
    "list grows by two in _add_child, child ids are n_nodes and n_nodes+1 before n_nodes += 2, and fit's leaf->node map uses "
    "2*n_leaves-1 / 2*n_leaves, which equals those ids under the inductive invariant n_nodes = 2*n_leaves-1; (f) predict "
    "routes with the same comparator (<= threshold -> left child) and score is the objective of the predicted labels. "
    "Not decided: contiguity of the cluster labels, depth arithmetic beyond the guards.")
ASSUMPTIONS = ["np.argsort sorts ascending", "validated hyper-parameter domains (max_depth >= 1, min_samples_leaf >= 1)"]


def linform(node):
    r = to_rat(node)
    if r.d != Poly.const(1):
        raise NotScalarArithmetic("non-polynomial")
    return r.n


def negated_premises(test):
    """for `if A or B: continue` return the linear forms p with p >= 0 that hold after the test (integers)"""
    parts = test.values if isinstance(test, ast.BoolOp) and isinstance(test.op, ast.Or) else [test]
    out = []
    for c in parts:
        if not (isinstance(c, ast.Compare) and len(c.ops) == 1):
            raise NotScalarArithmetic(norm_src(c))
        a, b = linform(c.left), linform(c.comparators[0])
        op = type(c.ops[0])
        if op is ast.Lt:        # not (a < b)  ->  a - b >= 0
            out.append(a - b)
        elif op is ast.Gt:      # not (a > b)  ->  b - a >= 0
            out.append(b - a)
        elif op is ast.LtE:     # not (a <= b) ->  a - b - 1 >= 0
            out.append(a - b - Poly.const(1))
        elif op is ast.GtE:
            out.append(b - a - Poly.const(1))
        else:
            raise NotScalarArithmetic(norm_src(c))
    return out


def implied(target, premises):
    """target >= 0 follows from some premise p >= 0 when target - p is a non-negative constant"""
    for p in premises:
        d = target - p
        if d.is_const() and d.const_value() >= 0:
            return True
    return False


def run(pm, ctx):
    ku = pm.unit("gemclus.tree.kauri")
    pu = pm.unit("gemclus.tree._utils")
    fit = ku.func("Kauri.fit")
    ctx.rule("C09-a", "a leaf enters the worklist only if it may be split: enough samples and depth left", floor=3)
    ctx.rule("C09-b", "the loop stops at max_leaves / empty worklist / non-positive gain", floor=1)
    ctx.rule("C09-c", "both children of every evaluated split hold at least min_samples_leaf samples", floor=2)
    ctx.rule("C09-d", "thresholds are observed feature values separating two different values", floor=2)
    ctx.rule("C09-e", "the array encoding of the tree stays consistent (2*leaves-1 nodes, ids of the children)", floor=8)
    ctx.rule("C09-f", "predict must route with the comparator used to build the partition; score is the objective of predict", floor=4)

    # ------------------------------------------------------------------ a
    inserts = []
    for n in ast.walk(fit):
        if isinstance(n, ast.Assign) and isinstance(n.targets[0], ast.Name) and n.targets[0].id == "leaves_to_explore":
            inserts.append(("init", n, n.value))
        if isinstance(n, ast.Call) and call_name(n) in ("leaves_to_explore.append", "leaves_to_explore.extend", "leaves_to_explore.insert"):
            inserts.append(("append", n, n.args[-1]))
        if isinstance(n, ast.AugAssign) and isinstance(n.target, ast.Name) and n.target.id == "leaves_to_explore":
            inserts.append(("append", n, n.value))
    if len(inserts) < 3:
        raise AnalysisError("anchor vanished: worklist insertions of Kauri.fit")
    te = TableEval(pm)
    tab = te.class_constraints(pm.classes["Kauri"])
    depth_ok_root = any(d.kind == "interval" and d.lo >= 1 for d in tab.get("max_depth", []))
    for kind, node, val in inserts:
        st = node
        while not isinstance(st, ast.stmt):
            st = st._parent
        site = f"Kauri.fit: {norm_src(st)[:70]}"
        if kind == "init":
            # [0] if <size test> else []   or   [] then guarded append
            ok = False
            if isinstance(val, ast.IfExp) and norm_src(val.orelse) == "[]" and norm_src(val.body) == "[0]":
                t = norm_src(val.test)
                ok = t in ("len(X) >= self.min_samples_split", "n >= self.min_samples_split", "X.shape[0] >= self.min_samples_split",
                           "self.min_samples_split <= len(X)")
            elif norm_src(val) == "[]":
                ok = True
            if ok and depth_ok_root:
                ctx.ok("C09-a", site, "root guarded by min_samples_split; depth 0 < max_depth by the validated domain")
            else:
                ctx.violation("C09-a", ku.relpath, "Kauri.fit", norm_src(st), "the root enters the worklist without the min_samples_split guard "
                              "that every later insertion has", line=st.lineno, site=site)
            continue
        leaf = norm_src(val)
        idx = {"best_split.leaf": "left_indices", "n_leaves": "right_indices"}.get(leaf)
        tests = [norm_src(p.test) for p in parents(node) if isinstance(p, ast.If) and _in_body(p, node)]
        want_size = f"len({idx}) >= self.min_samples_split" if idx else None
        want_depth = ["parent_depth + 1 < max_depth", "parent_depth + 1 < max_depth".replace(" ", "")]
        okk = idx is not None and want_size in tests and any(t in want_depth or t == "max_depth > parent_depth + 1" for t in tests)
        if okk:
            ctx.ok("C09-a", site, f"guards {tests}")
        else:
            ctx.violation("C09-a", ku.relpath, "Kauri.fit", norm_src(st), f"leaf {leaf} enters the worklist without both guards "
                          f"({want_size}; parent_depth + 1 < max_depth); guards found: {tests}", line=st.lineno, site=site)
    # parent_depth is the depth of the node just split; max_depth default
    src = [norm_src(s) for s in ast.walk(fit) if isinstance(s, ast.stmt)]
    if ns("parent_depth = self.tree_.get_depth(leaf2node[best_split.leaf])") in src and ns("max_depth = len(X) if self.max_depth is None else self.max_depth") in src:
        # the depth must be read BEFORE leaf2node[best_split.leaf] is re-pointed to the left child
        order = [i for i, s in enumerate(src) if s == ns("parent_depth = self.tree_.get_depth(leaf2node[best_split.leaf])")][0]
        repoint = [i for i, s in enumerate(src) if s.startswith("leaf2node[best_split.leaf] =")]
        if repoint and order < repoint[0]:
            ctx.ok("C09-a", "Kauri.fit: parent_depth is the depth of the split node, read before the leaf->node map is re-pointed")
        else:
            ctx.violation("C09-a", ku.relpath, "Kauri.fit", "parent_depth", "parent_depth is read after leaf2node was re-pointed to the child", line=fit.lineno)
    else:
        ctx.violation("C09-a", ku.relpath, "Kauri.fit", "parent_depth / max_depth", "depth bookkeeping changed: cannot establish what parent_depth and max_depth denote",
                      line=fit.lineno)

    # ------------------------------------------------------------------ b
    w = [n for n in ast.walk(fit) if isinstance(n, ast.While)]
    if len(w) != 1:
        raise AnalysisError("anchor vanished: main loop of Kauri.fit")
    conj = [norm_src(v) for v in (w[0].test.values if isinstance(w[0].test, ast.BoolOp) and isinstance(w[0].test.op, ast.And) else [w[0].test])]
    need = [("last_gain > 0",), ("n_leaves < max_leaves",), ("len(leaves_to_explore) != 0", "len(leaves_to_explore) > 0")]
    miss = [n[0] for n in need if not any(a in conj for a in n)]
    ml = ns("max_leaves = self.max_leaves if self.max_leaves is not None else n")
    if not miss and ml in src:
        ctx.ok("C09-b", "Kauri.fit: while gain>0 and n_leaves<max_leaves and worklist non-empty")
    else:
        ctx.violation("C09-b", ku.relpath, "Kauri.fit", norm_src(w[0].test), f"loop guard misses {miss}" if miss else "max_leaves is not the "
                      "hyper-parameter (or n)", line=w[0].lineno)

    # ------------------------------------------------------------------ c, d in the scan
    fb = pu.func("find_best_split")
    cas = pu.func("compute_all_splits")
    calls = [n for n in ast.walk(fb) if isinstance(n, ast.Call) and call_name(n) == "compute_all_splits"]
    if len(calls) != 1:
        raise AnalysisError("anchor vanished: call of compute_all_splits")
    call = calls[0]
    params = func_params(cas)
    argmap = {p: a for p, a in zip(params, call.args)}
    cst = call
    while not isinstance(cst, ast.stmt):
        cst = cst._parent
    body = cst._parent.body
    idx = body.index(cst)
    skips = [s for s in body[:idx] if isinstance(s, ast.If) and s.body and isinstance(s.body[-1], ast.Continue)]
    site = "find_best_split: min-leaf window"
    prem = []
    for s in skips:
        try:
            prem += negated_premises(s.test)
        except NotScalarArithmetic:
            pass
    try:
        ss = linform(argmap["split_size"])
        nl = linform(argmap["n_leaf"])
        ml_ = linform(argmap.get("min_leaf", ast.parse("min_leaf", mode="eval").body)) if False else linform(ast.parse("min_leaf", mode="eval").body)
        t1 = ss - ml_
        t2 = nl - ss - ml_
        ok1, ok2 = implied(t1, prem), implied(t2, prem)
    except (NotScalarArithmetic, KeyError) as e:
        ok1 = ok2 = False
    if ok1:
        ctx.ok("C09-c", site + ": left part", f"split_size={norm_src(argmap['split_size'])} >= min_leaf")
    else:
        ctx.violation("C09-c", pu.relpath, "find_best_split", norm_src(skips[0].test) if skips else "window test",
                      "the scan does not guarantee split_size >= min_leaf for the split_size it passes on", line=cst.lineno, site=site + ": left part")
    if ok2:
        ctx.ok("C09-c", site + ": right part", "n_leaf - split_size >= min_leaf")
    else:
        ctx.violation("C09-c", pu.relpath, "find_best_split", norm_src(skips[0].test) if skips else "window test",
                      "the scan does not guarantee n_leaf - split_size >= min_leaf", line=cst.lineno, site=site + ": right part")
    # the loop variable / split_size relation: split_size counts the samples moved to the left so far
    scan = cst._parent
    if isinstance(scan, ast.For) and norm_src(scan.target) == "l_split" and norm_src(scan.iter) in ("range(n_leaf - 1)",) \
            and norm_src(argmap["split_size"]) == "l_split + 1":
        ctx.ok("C09-c", "find_best_split: scan over l_split in range(n_leaf-1), split_size = l_split+1")
    else:
        ctx.violation("C09-c", pu.relpath, "find_best_split", norm_src(scan)[:100] if isinstance(scan, ast.For) else "scan", "the threshold scan no longer "
                      "enumerates prefixes of the sorted leaf samples with split_size = l_split + 1", line=cst.lineno)
    # ---- d
    thr = norm_src(argmap["threshold"])
    feat = norm_src(argmap["feature_id"])
    want_thr = f"X[nu[l_split], {feat}]"
    eqskip = [s for s in skips if isinstance(s.test, ast.Compare) and isinstance(s.test.ops[0], ast.Eq)
              and {norm_src(s.test.left), norm_src(s.test.comparators[0])} == {want_thr, f"X[nu[l_split + 1], {feat}]"}]
    if thr == want_thr and eqskip:
        ctx.ok("C09-d", "find_best_split: threshold = X[nu[l_split], feature], equal neighbours skipped")
    else:
        ctx.violation("C09-d", pu.relpath, "find_best_split", norm_src(cst)[:160], f"the threshold passed on is {thr} (expected {want_thr}) or the "
                      f"equal-neighbour skip is missing", line=cst.lineno)
    # nu is leaf_indices permuted by the ascending order of the feature
    fsrc = [norm_src(s) for s in ast.walk(fb) if isinstance(s, ast.stmt)]
    need = ["ordering = np.argsort(subset_X)", "nu[a] = leaf_indices[ordering[a]]", "subset_X[a] = X[leaf_indices[a], feature]"]
    miss = [n for n in need if n not in fsrc]
    if not miss:
        ctx.ok("C09-d", "find_best_split: nu = leaf samples sorted by the scanned feature")
    else:
        ctx.violation("C09-d", pu.relpath, "find_best_split", miss[0], f"sorting of the leaf samples along the feature changed: {miss}", line=fb.lineno)

    # ------------------------------------------------------------------ e
    tree = pm.classes.get("Tree")
    if tree is None:
        raise AnalysisError("anchor vanished: class Tree")
    init, add = tree.methods["__init__"], tree.methods["_add_child"]
    lists = {}
    for st in init.body:
        if isinstance(st, ast.Assign) and isinstance(st.value, ast.List) and attr_chain(st.targets[0]):
            lists[attr_chain(st.targets[0])] = st
    grown = {}
    for st in add.body:
        if isinstance(st, ast.AugAssign) and isinstance(st.op, ast.Add) and attr_chain(st.target) in lists:
            grown.setdefault(attr_chain(st.target), []).append(st)
    for name, st in lists.items():
        site = f"Tree: {name}"
        g = grown.get(name, [])
        if len(st.value.elts) == 1 and len(g) == 1 and isinstance(g[0].value, ast.List) and len(g[0].value.elts) == 2:
            ctx.ok("C09-e", site, "1 entry at creation, +2 per split")
        else:
            ctx.violation("C09-e", ku.relpath, "Tree._add_child", norm_src(g[0]) if g else name, f"the per-node list {name} does not grow by exactly two "
                          f"entries per split", line=(g[0].lineno if g else add.lineno), site=site)
    asrc = [norm_src(s) for s in add.body]
    isrc = [norm_src(s) for s in init.body]
    need = ["self.children_left[father] = self.n_nodes", "self.children_right[father] = self.n_nodes + 1", "self.n_nodes += 2"]
    miss = [n for n in need if n not in asrc]
    ok_order = not miss and asrc.index("self.n_nodes += 2") > max(asrc.index(need[0]), asrc.index(need[1])) and "self.n_nodes = 1" in isrc
    tgt = [s for s in asrc if s.startswith("self.target +=")]
    if ok_order and tgt == ["self.target += [split.left_target, split.right_target]"]:
        ctx.ok("C09-e", "Tree._add_child: children ids n_nodes / n_nodes+1, targets appended left then right, n_nodes += 2")
    else:
        ctx.violation("C09-e", ku.relpath, "Tree._add_child", (miss or tgt or ["_add_child"])[0], "child ids / targets / node counter are not maintained "
                      "consistently", line=add.lineno)
    # leaf2node uses the ids _add_child assigns, under n_nodes = 2*n_leaves - 1
    l2n = {}
    for s in ast.walk(fit):
        if isinstance(s, ast.Assign) and isinstance(s.targets[0], ast.Subscript) and norm_src(s.targets[0].value) == "leaf2node":
            l2n[norm_src(s.targets[0].slice)] = s.value
    try:
        inv = to_rat(ast.parse("2 * n_leaves - 1", mode="eval").body)
        okl = to_rat(l2n["best_split.leaf"]).equals(inv) and to_rat(l2n["n_leaves"]).equals(inv + Rat(Poly.const(1)))
    except (KeyError, NotScalarArithmetic):
        okl = False
    fsrc2 = [norm_src(s) for s in ast.walk(fit) if isinstance(s, ast.stmt)]
    okinit = "n_leaves = 1" in fsrc2 and "leaf2node = {0: 0}" in fsrc2 and "n_leaves += 1" in fsrc2
    calls_add = [s for s in fsrc2 if s.startswith("self.tree_._add_child(")]
    if okl and okinit and calls_add == ["self.tree_._add_child(leaf2node[best_split.leaf], best_split)"]:
        ctx.ok("C09-e", "Kauri.fit: leaf2node = 2*n_leaves-1 / 2*n_leaves equals the ids of _add_child (invariant n_nodes = 2*n_leaves-1)")
    else:
        ctx.violation("C09-e", ku.relpath, "Kauri.fit", "leaf2node", "the leaf->node map does not follow the node ids assigned by _add_child", line=fit.lineno)

    # ------------------------------------------------------------------ f
    pred = tree.methods["predict"]
    psrc = [norm_src(s) for s in ast.walk(pred) if isinstance(s, ast.stmt)]
    need = ["X_left = X[:, self.features[node]] <= self.thresholds[node]", "X_right = ~X_left",
            "predictions[X_left] = self.predict(X[X_left], self.children_left[node])",
            "predictions[X_right] = self.predict(X[X_right], self.children_right[node])"]
    miss = [n for n in need if n not in psrc]
    leafret = [s for s in psrc if s.startswith("return self.target[node] * np.ones(len(X)")]
    if not miss and leafret:
        ctx.ok("C09-f", "Tree.predict: <= threshold goes left, the rest right, leaves return their target")
    else:
        ctx.violation("C09-f", ku.relpath, "Tree.predict", (miss or ["leaf return"])[0], f"routing differs from the partition built by fit: {miss}", line=pred.lineno)
    kp = ku.func("Kauri.predict")
    if any(norm_src(s) == "return self.tree_.predict(X)" for s in kp.body):
        ctx.ok("C09-f", "Kauri.predict = tree_.predict from the root")
    else:
        ctx.violation("C09-f", ku.relpath, "Kauri.predict", "return", "predict does not route through the fitted tree from its root", line=kp.lineno)
    ks = ku.func("Kauri.score")
    ssrc = [norm_src(s) for s in ks.body]
    if "y_pred = self.predict(X)" in ssrc and "kernel = self._compute_kernel(X, y)" in ssrc and "return gemini_objective(y_pred, kernel)" in ssrc:
        ctx.ok("C09-f", "Kauri.score = gemini_objective(predict(X), kernel)")
    else:
        ctx.violation("C09-f", ku.relpath, "Kauri.score", "return", "score is not the objective of the predicted labels", line=ks.lineno)
    go = pu.func("gemini_objective")
    gsrc = [norm_src(s) for s in ast.walk(go) if isinstance(s, ast.stmt)]
    if "score += kernel_stock(kernel, indices) / len(indices)" in gsrc and any(s.startswith("for value in np.unique(y_pred)") for s in gsrc):
        ctx.ok("C09-f", "gemini_objective = sum over present labels of stock/size")
    else:
        ctx.violation("C09-f", pu.relpath, "gemini_objective", "score +=", "the objective is not sum_k sigma(C_k^2)/|C_k|", line=go.lineno)
    lab = [s for s in fsrc2 if s.startswith("self.labels_ =")]
    if lab == ["self.labels_ = (Y @ Z).argmax(0)"]:
        ctx.ok("C09-f", "Kauri.fit: labels_ = (Y @ Z).argmax(0)")
    else:
        ctx.violation("C09-f", ku.relpath, "Kauri.fit", lab[0] if lab else "labels_", "labels_ is not the cluster of each sample's leaf", line=fit.lineno)


def _in_body(ifnode, node):
    for s in ifnode.body:
        for n in ast.walk(s):
            if n is node:
                return True
    return False


def controls(pm, tier):
    out = []

    def mut(mod, find, repl, rule, name):
        def apply(pm_):
            u = pm_.unit(mod)
            if find not in u.src:
                return None
            return {u.relpath: u.src.replace(find, repl, 1)}
        out.append({"name": name, "rule": rule, "apply": apply})
    K, U = "gemclus.tree.kauri", "gemclus.tree._utils"
    mut(K, "leaves_to_explore = [0] if len(X) >= self.min_samples_split else []", "leaves_to_explore = [0]", "C09-a", "root enqueued unguarded")
    mut(K, "if len(right_indices) >= self.min_samples_split:", "if len(left_indices) >= self.min_samples_split:", "C09-a", "right child guarded by the left size")
    mut(K, "while last_gain > 0 and n_leaves < max_leaves and", "while last_gain > 0 and n_leaves <= max_leaves and", "C09-b", "max_leaves off by one")
    mut(U, "if l_split < (min_leaf - 1) or l_split > n_leaf - min_leaf - 1:", "if l_split < (min_leaf - 1) or l_split > n_leaf - min_leaf:", "C09-c", "right window off by one")
    mut(U, "feature, X[nu[l_split], feature])", "feature, (X[nu[l_split], feature] + X[nu[l_split+1], feature]) / 2)", "C09-d", "mid-point thresholds")
    mut(K, "self.children_right[father] = self.n_nodes + 1", "self.children_right[father] = self.n_nodes + 2", "C09-e", "right child id off by one")
    mut(K, "leaf2node[n_leaves] = 2 * n_leaves  # Index of the right child", "leaf2node[n_leaves] = 2 * n_leaves + 1", "C09-e", "leaf2node right off by one")
    mut(K, "X_left = X[:, self.features[node]] <= self.thresholds[node]", "X_left = X[:, self.features[node]] < self.thresholds[node]", "C09-f", "predict routes with <")
    return out
