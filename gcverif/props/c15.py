"""C15 - Douglas: masked features inert, valid soft bins, active points as defined (structural clauses)."""
import ast

from ..e6_algebra import to_rat, Rat, Poly, NotScalarArithmetic
import itertools

from ..pm import AnalysisError, norm_src, func_params
from ..flow import CFG, attr_chain
from ..astutil import call_name
from ..e7_order import weak_orderings
from ..e3_axes import Interp, Arr, Num, Ax
from ..scenarios import fit_scenario, nonusage, dedup_events
from ..match import equal_resolved, expect_assign, expect_call, canon_equal, resolve_expr

PROP = "C15"
EXPLANATION = (
    "(a) mask inertness: _infer reads X only through the single-column slices X[:, z[0]:z[0]+1] for z in cut_points_list_, and "
    "_init_params builds cut_points_list_ from range(n_features) filtered by feature_mask[i] (all features when the mask is "
    "None); (b) leaf count: leaf_scores_ has (n_cuts+1) ** (number of entries of cut_points_list_) rows, bins are softmax "
    "outputs (probability vectors for every temperature) merged by an outer product; (c) sortedness / inverse permutation: the "
    "bin biases are built from the cut points sorted by order = argsort(cut_points), and the cut gradient computed in sorted "
    "space is mapped back with argsort(order) - an odd number of argsort applications between the sorted-space array and its "
    "re-indexing is a violation; (d) order-domain abstraction: the predicate of find_active_points is evaluated on every weak "
    "ordering of {min feature, max feature, cut_1..cut_m} (m <= 3 quick, 4 thorough) and must equal `exists cut: min < cut < "
    "max`. Not decided: the soft-binning weights, the zero-temperature limit.")
ADOPT = [("C17", ["C17-e"], "the soft bins are probability vectors only if the exponentials neither overflow nor underflow row-wise")]
ASSUMPTIONS = ["np.any/np.all/min/max depend on their array argument only through order comparisons", "softmax rows are probability vectors"]

D = "gemclus.tree.douglas"


class Vec(list):
    pass


def ev(node, env):
    """evaluate the active-point predicate on rank-valued vectors (order-domain abstraction)"""
    if isinstance(node, ast.Name):
        if node.id in env:
            return env[node.id]
        raise KeyError(node.id)
    if isinstance(node, ast.Constant):
        return node.value
    if isinstance(node, ast.Call):
        cn = call_name(node) or ""
        if isinstance(node.func, ast.Attribute) and node.func.attr in ("min", "max") and not node.args:
            v = ev(node.func.value, env)
            return min(v) if node.func.attr == "min" else max(v)
        if cn in ("np.any", "np.all", "any", "all") or (isinstance(node.func, ast.Attribute) and node.func.attr in ("any", "all") and not node.args):
            v = ev(node.args[0], env) if node.args else ev(node.func.value, env)
            f = any if cn.endswith("any") or (isinstance(node.func, ast.Attribute) and node.func.attr == "any") else all
            return f(v) if isinstance(v, list) else bool(v)
        if cn in ("np.min", "np.max", "min", "max") and len(node.args) == 1:
            v = ev(node.args[0], env)
            return min(v) if cn.endswith("min") else max(v)
        if cn in ("np.logical_and", "np.logical_or") and len(node.args) == 2:
            return _bin(ev(node.args[0], env), ev(node.args[1], env), (lambda x, y: x and y) if cn.endswith("and") else (lambda x, y: x or y))
        if cn in ("np.logical_not",):
            v = ev(node.args[0], env)
            return [not x for x in v] if isinstance(v, list) else not v
        # counting the cuts that satisfy an order predicate depends on the data only through the ordering as well; the counts are
        # compared with each other or with constants
        if cn in ("np.sum", "np.count_nonzero", "sum") and len(node.args) == 1 and not node.keywords:
            v = ev(node.args[0], env)
            if isinstance(v, list) and all(isinstance(x, bool) for x in v):
                return _Count(sum(1 for x in v if x))
        if isinstance(node.func, ast.Attribute) and node.func.attr == "sum" and not node.args and not node.keywords:
            v = ev(node.func.value, env)
            if isinstance(v, list) and all(isinstance(x, bool) for x in v):
                return _Count(sum(1 for x in v if x))
        if cn in ("np.searchsorted",):
            raise ValueError(f"idiom outside the order-domain table: {norm_src(node)}")
        raise ValueError(f"idiom outside the order-domain table: {norm_src(node)}")
    if isinstance(node, ast.Compare) and len(node.ops) == 1:
        a, b = ev(node.left, env), ev(node.comparators[0], env)
        op = {ast.Lt: lambda x, y: x < y, ast.LtE: lambda x, y: x <= y, ast.Gt: lambda x, y: x > y, ast.GtE: lambda x, y: x >= y,
              ast.Eq: lambda x, y: x == y, ast.NotEq: lambda x, y: x != y}.get(type(node.ops[0]))
        if op is None:
            raise ValueError(norm_src(node))
        return _bin(a, b, op)
    if isinstance(node, ast.BinOp) and isinstance(node.op, (ast.BitAnd, ast.BitOr)):
        f = (lambda x, y: x and y) if isinstance(node.op, ast.BitAnd) else (lambda x, y: x or y)
        return _bin(ev(node.left, env), ev(node.right, env), f)
    if isinstance(node, ast.BoolOp):
        vs = [ev(v, env) for v in node.values]
        if any(isinstance(v, list) for v in vs):
            raise ValueError("boolean operator on arrays")
        return all(vs) if isinstance(node.op, ast.And) else any(vs)
    if isinstance(node, ast.UnaryOp) and isinstance(node.op, (ast.Not, ast.Invert)):
        v = ev(node.operand, env)
        return [not x for x in v] if isinstance(v, list) else not v
    if isinstance(node, ast.Subscript):
        raise ValueError(f"positional access outside the order domain: {norm_src(node)}")
    raise ValueError(f"idiom outside the order-domain table: {norm_src(node)}")


class _Count(int):
    """a number of cuts (comparable with other counts and with integer constants only)"""


def _bin(a, b, f):
    if isinstance(a, list) and isinstance(b, list):
        if len(a) != len(b):
            raise ValueError("length mismatch")
        return [f(x, y) for x, y in zip(a, b)]
    if isinstance(a, list):
        return [f(x, b) for x in a]
    if isinstance(b, list):
        return [f(a, y) for y in b]
    return f(a, b)


class _Soft:
    """context proxy for the literal fall-back rules: a form that is not one of the accepted spellings is `not recognised`, not a violation
    (the deciding analysis, E9, could not derive the map; comparing one spelling must not raise an alarm on an equivalent one)"""

    def __init__(self, ctx):
        self._ctx = ctx

    def __getattr__(self, k):
        return getattr(self._ctx, k)

    def violation(self, rule, relpath, fn, stmt, why, line=None, site=None, **kw):
        self._ctx.unrecognised(rule, site or f"{fn}: {stmt}"[:80], f"not one of the accepted spellings: {why}"[:200])


def run(pm, ctx):
    u = pm.unit(D)
    ci = pm.classes.get("Douglas")
    if ci is None:
        raise AnalysisError("anchor vanished: Douglas")
    ctx.rule("C15-a", "a masked feature must never enter the forward pass", floor=3)
    ctx.rule("C15-b", "(n_cuts+1)^(used features) leaves whose memberships are products of probability vectors", floor=4)
    ctx.rule("C15-c", "the bin boundaries sit on the sorted cut points: unit-step slopes, b[j] = -(sum of the j smallest cuts) for every number of cuts (linear sequence map), logits divided by the temperature, the sorting order kept for the backward pass", floor=3)
    ctx.rule("C15-d", "active = a cut point strictly inside the feature's range", floor=1)
    inf, ip, cg, lb, ml, fa = (ci.methods.get(m) for m in ("_infer", "_init_params", "_compute_grads", "_leaf_binning", "_merge_leaf", "find_active_points"))
    if None in (inf, ip, cg, lb, ml, fa):
        raise AnalysisError("anchor vanished: a Douglas method")
    # ------------------------------------------------------------------ a
    xp = func_params(inf)[1]
    uses = [n for n in ast.walk(inf) if isinstance(n, ast.Name) and n.id == xp and isinstance(n.ctx, ast.Load)]
    site = "Douglas._infer: reads of X"
    LIST = "self.cut_points_list_"
    # expressions that denote the feature index of an item of cut_points_list_
    idx_exprs = set()

    def item_target(t):
        if isinstance(t, ast.Tuple) and len(t.elts) == 2 and isinstance(t.elts[0], ast.Name):
            idx_exprs.add(t.elts[0].id)
        elif isinstance(t, ast.Name):
            idx_exprs.add(f"{t.id}[0]")
    for n in ast.walk(inf):
        gens = n.generators if isinstance(n, (ast.ListComp, ast.GeneratorExp, ast.SetComp)) else ([n] if isinstance(n, ast.For) else [])
        for g in gens:
            it = norm_src(g.iter)
            if it == LIST:
                item_target(g.target)
            elif it == f"enumerate({LIST})" and isinstance(g.target, ast.Tuple) and len(g.target.elts) == 2:
                item_target(g.target.elts[1])
    lambdas = {}
    for n in ast.walk(inf):
        if isinstance(n, ast.Assign) and isinstance(n.value, ast.Lambda) and len(n.targets) == 1 and isinstance(n.targets[0], ast.Name) and len(n.value.args.args) == 1:
            lambdas[n.targets[0].id] = n.value
    for n in ast.walk(inf):
        if isinstance(n, ast.Call) and call_name(n) == "map" and len(n.args) == 2 and norm_src(n.args[1]) == LIST:
            lam = n.args[0] if isinstance(n.args[0], ast.Lambda) else lambdas.get(norm_src(n.args[0]))
            if lam is not None and len(lam.args.args) == 1:
                idx_exprs.add(f"{lam.args.args[0].arg}[0]")
    bad, odd = [], []
    for n in uses:
        par = n._parent
        if isinstance(par, ast.Attribute) and par.attr in ("shape", "dtype", "ndim"):
            continue
        if not (isinstance(par, ast.Subscript) and par.value is n):
            bad.append(n)           # the whole matrix is handed on
            continue
        sl = par.slice
        if not (isinstance(sl, ast.Tuple) and len(sl.elts) == 2 and norm_src(sl.elts[0]) == ":"):
            odd.append(n)
            continue
        col = sl.elts[1]
        if isinstance(col, ast.Slice) and col.lower is not None and col.upper is not None and col.step is None:
            from ..match import canon_equal
            if norm_src(col.lower) in idx_exprs and canon_equal(col.upper, f"{norm_src(col.lower)} + 1"):
                continue
            bad.append(n)
        elif isinstance(col, ast.List) and len(col.elts) == 1 and norm_src(col.elts[0]) in idx_exprs:
            continue
        elif norm_src(col) in idx_exprs:
            continue
        else:
            bad.append(n)
    if uses and not bad and not odd and idx_exprs:
        ctx.ok("C15-a", site, f"{len(uses)} read(s), only the column of each listed (feature, cuts) pair")
    elif bad:
        st = _stmt(bad[0])
        ctx.violation("C15-a", u.relpath, "Douglas._infer", norm_src(st)[:160], "X is read other than through the column of a feature listed in cut_points_list_", line=st.lineno, site=site)
    else:
        ctx.unrecognised("C15-a", site, "no read of X through the items of cut_points_list_ was identified")
    # construction of cut_points_list_
    from ..astutil import deref_self_aliases
    ip = deref_self_aliases(ip)
    stores = [s for s in ast.walk(ip) if isinstance(s, ast.Assign) and attr_chain(s.targets[0]) == "self.cut_points_list_"]
    site = "Douglas._init_params: cut_points_list_"
    probs, unrec = [], []
    merged = len(stores) == 1
    # which features get cut points, case by case (feature_mask None / given): the features iterated over, with their filters, are read through the
    # reaching definitions and the enclosing tests, whatever the number of statements that build the list
    from ..flow import implied_literals
    from ..match import value_cases, resolve_expr, cfg_node
    cfg_ip = CFG(ip)
    MASKNONE = "self.feature_mask is None"
    seen_cases = set()

    def _range_all(e, at):
        try:
            e2 = resolve_expr(cfg_ip, at, e)
        except Exception:
            e2 = e
        return str(norm_src(e2)) in ("range(X.shape[1])", "range(0, X.shape[1])", "range(len(self.feature_mask))") or str(norm_src(e)) in ("range(X.shape[1])",)
    for s in stores:
        v = s.value
        st_node = cfg_node(cfg_ip, s)
        if not (isinstance(v, ast.ListComp) and len(v.generators) == 1 and isinstance(v.elt, ast.Tuple) and len(v.elt.elts) == 2
                and norm_src(v.elt.elts[0]) == norm_src(v.generators[0].target)):
            probs.append(f"`{norm_src(s)[:80]}` does not pair each feature index with its cuts")
            continue
        g = v.generators[0]
        outer = dict(implied_literals(s))
        try:
            cases = value_cases(cfg_ip, st_node, g.iter) if st_node is not None else [(frozenset(), g.iter)]
        except Exception:
            cases = [(frozenset(), g.iter)]
        for lits, it in cases:
            known = dict(outer)
            known.update(dict(lits))
            mn = known.get(MASKNONE)
            filters = [(norm_src(g.target), c) for c in g.ifs]
            base = it
            if isinstance(it, (ast.GeneratorExp, ast.ListComp)) and len(it.generators) == 1 and norm_src(it.elt) == norm_src(it.generators[0].target):
                filters += [(norm_src(it.generators[0].target), c) for c in it.generators[0].ifs]
                base = it.generators[0].iter
            if not _range_all(base, st_node if st_node is not None else s):
                unrec.append(f"features iterated over: `{norm_src(base)[:60]}`")
                continue
            fsrc = [str(norm_src(c)).replace(f"[{tv}]", "[i]") for tv, c in filters]
            if mn is True:
                okc = fsrc == []
                why = "without a mask every feature gets cut points"
            elif mn is False:
                okc = fsrc == ["self.feature_mask[i]"]
                why = "with a mask exactly the features with feature_mask[i] get cut points"
            else:
                okc = fsrc in (["self.feature_mask is None or self.feature_mask[i]"], ["self.feature_mask[i] if self.feature_mask is not None else True"])
                why = "a feature gets cut points iff there is no mask or the mask holds for it"
            seen_cases.add(mn)
            if not okc:
                probs.append(f"in the case {MASKNONE} = {mn} the list is built over {norm_src(base)} with filters {fsrc}: {why}")
    if stores and not probs and not unrec and not (None in seen_cases or {True, False} <= seen_cases):
        probs.append(f"cut points are only built for the cases {sorted(map(str, seen_cases))} of `{MASKNONE}`")
    if not stores:
        unrec.append("no store to cut_points_list_")
    if probs:
        ctx.violation("C15-a", u.relpath, "Douglas._init_params", norm_src(stores[0])[:120] if stores else "cut_points_list_", "; ".join(probs), line=ip.lineno, site=site)
    elif unrec:
        ctx.unrecognised("C15-a", site, "; ".join(unrec))
    else:
        ctx.ok("C15-a", site, "all features without mask; exactly the features with feature_mask[i] otherwise")
    # _compute_grads does not read X
    xg = func_params(cg)[1]
    if any(isinstance(n, ast.Name) and n.id == xg and isinstance(n.ctx, ast.Load) for n in ast.walk(cg)):
        ctx.violation("C15-a", u.relpath, "Douglas._compute_grads", "X", "back-propagation reads X directly: masked columns can influence the cut gradients", line=cg.lineno,
                      site="Douglas._compute_grads: X")
    else:
        ctx.ok("C15-a", "Douglas._compute_grads does not read X")
    # ------------------------------------------------------------------ b
    nl = [s for s in ast.walk(ip) if isinstance(s, ast.Assign) and norm_src(s.targets[0]) == "num_leaf"]
    site = "Douglas._init_params: leaf count"
    okk = len(nl) >= 1
    if not nl:
        ctx.unrecognised("C15-b", "Douglas._init_params: leaf count", "no assignment to num_leaf")
    for s in nl:
        v = norm_src(s.value)
        masked = _in_else(s)
        want = "int((self.n_cuts + 1) ** len(self.cut_points_list_))" if masked else "int((self.n_cuts + 1) ** X.shape[1])"
        if v not in (want, "int((self.n_cuts + 1) ** len(self.cut_points_list_))") and not equal_resolved(s, s.value, [want, "int((self.n_cuts + 1) ** len(self.cut_points_list_))"]):
            okk = False
    ls = [s for s in ast.walk(ip) if isinstance(s, ast.Assign) and attr_chain(s.targets[0]) == "self.leaf_scores_"]
    ls_src = ""
    if len(ls) == 1:
        try:
            from ..match import cfg_node
            cfg_ip = CFG(ip)
            ls_src = str(norm_src(resolve_expr(cfg_ip, cfg_node(cfg_ip, ls[0]), ls[0].value)))
        except Exception:
            ls_src = str(norm_src(ls[0].value))
    okk = okk and len(ls) == 1 and ("size=(num_leaf, self.n_clusters)" in norm_src(ls[0].value) or "size=(num_leaf, self.n_clusters)" in ls_src)
    draws = [n for n in ast.walk(ip) if isinstance(n, ast.Call) and (call_name(n) or "").endswith(".normal") and "n_cuts" in norm_src(n)]
    okk = okk and len(draws) == (1 if merged else 2) and all(norm_src(kw.value) in ("(self.n_cuts,)", "self.n_cuts") for d in draws for kw in d.keywords if kw.arg == "size")
    if okk:
        ctx.ok("C15-b", site, "(n_cuts+1) ** #used features rows, n_cuts cuts per used feature")
    elif nl:
        ctx.violation("C15-b", u.relpath, "Douglas._init_params", norm_src(nl[0]) if nl else "num_leaf", "the number of leaves is not (n_cuts+1) ** (number of used features) / "
                      "cuts per feature differ from n_cuts", line=ip.lineno, site=site)
    rets = [n for n in ast.walk(lb) if isinstance(n, ast.Return)]
    cfgl = CFG(lb)
    site = "Douglas._leaf_binning: memberships"
    if len(rets) != 1 or not isinstance(rets[0].value, ast.Tuple) or len(rets[0].value.elts) != 2:
        ctx.unrecognised("C15-b", site, "does not return (memberships, order)")
    else:
        memb = resolve_expr(cfgl, rets[0], rets[0].value.elts[0])
        if isinstance(memb, ast.Call) and call_name(memb) == "softmax" and len(memb.args) == 1:
            arg = memb.args[0]
            # logits / temperature, with logits = X @ W + b
            if canon_equal(arg, "(X @ W + b) / self.temperature") or (isinstance(arg, ast.BinOp) and isinstance(arg.op, ast.Div) and norm_src(arg.right) == "self.temperature"):
                ctx.ok("C15-b", site, "softmax((X @ W + b) / temperature): a probability vector per sample for every temperature")
            else:
                ctx.violation("C15-b", u.relpath, "Douglas._leaf_binning", norm_src(memb)[:160], "the bin logits are not divided by the temperature before the softmax", line=rets[0].lineno, site=site)
        else:
            ctx.unrecognised("C15-b", site, f"memberships are {norm_src(memb)[:80]}, not a call of sklearn's softmax")
    es = [n for n in ast.walk(ml) if isinstance(n, ast.Call) and call_name(n) == "np.einsum"]
    site = "Douglas._merge_leaf"
    if not es:
        # another spelling of the product (broadcasting, ...): decided on the entries of the product themselves (E8, same analysis as C03-l)
        try:
            from ..e8_models import douglas_kronecker
            from ..e8_index import Unsupported as _U8
            st_, det_ = douglas_kronecker(pm)
            if st_ == "exact":
                ctx.ok("C15-b", site, det_)
            else:
                ctx.violation("C15-b", u.relpath, "Douglas._merge_leaf", "product", "leaf memberships are not the per-sample outer product of the bins of two features: " + det_,
                              line=ml.lineno, site=site)
        except Exception as e:
            ctx.unrecognised("C15-b", site, f"no einsum and the product is outside the translated subset: {e}")
    elif isinstance(es[0].args[0], ast.Constant) and es[0].args[0].value.replace(" ", "") == "ij,ik->ijk" and [norm_src(a) for a in es[0].args[1:]] == func_params(ml)[1:3]:
        ctx.ok("C15-b", site, "per-sample outer product of the two membership vectors")
    else:
        ctx.violation("C15-b", u.relpath, "Douglas._merge_leaf", norm_src(es[0]), "leaf memberships are not the per-sample outer product of the bins of two features", line=es[0].lineno, site=site)
    expect_assign(ctx, "C15-b", u, "Douglas._infer", inf, "leaf", ["reduce(self._merge_leaf, all_binnings)"], "Douglas._infer: leaf memberships", "the leaves are not the product over all used features")
    expect_assign(ctx, "C15-b", u, "Douglas._infer", inf, "y_pred", ["leaf @ self.leaf_scores_"], "Douglas._infer: scores", "predictions are not leaf memberships times leaf scores")
    # ------------------------------------------------------------------ c
    # the map cuts -> biases as a linear sequence map (E9): decided whatever the spelling; the literal forms below are only the fallback
    from .. import e9_douglas
    e9res, e9fw, e9bw = e9_douglas.judge_full(pm)
    e9f = {site: (status, detail, where) for site, status, detail, where in e9res if site.startswith("Douglas._leaf_binning")}
    fwd = e9f.get("Douglas._leaf_binning: cuts -> biases", ("undecided", "", None))
    if fwd[0] != "undecided":
        for site, (status, detail, (meth, line)) in e9f.items():
            if status == "exact":
                ctx.ok("C15-c", site, detail)
            elif status == "different":
                ctx.violation("C15-c", u.relpath, f"Douglas.{meth}", site, detail, line=line or lb.lineno, site=site)
            else:
                ctx.unrecognised("C15-c", site, detail)
    else:
        o = expect_assign(_Soft(ctx), "C15-c", u, "Douglas._leaf_binning", lb, "order", ["np.argsort(cut_points)"], "Douglas._leaf_binning: order", "the cuts are not sorted in ascending order")
        sc = expect_assign(_Soft(ctx), "C15-c", u, "Douglas._leaf_binning", lb, "sorted_cut_points", ["cut_points[order]"], "Douglas._leaf_binning: sorted cuts", "the biases are not built from the sorted cuts")
    # slopes of the bin logits: consecutive bins must differ by exactly x, so that (with the cumulative biases) bin k beats bin k-1 iff
    # x exceeds the k-th smallest cut: slopes 1, 2, ..., n+1 (any start, unit step)
    wdef = [s_ for s_ in ast.walk(lb) if isinstance(s_, ast.Assign) and norm_src(s_.targets[0]) == "W"]
    site = "Douglas._leaf_binning: slopes"
    if not wdef:
        ctx.unrecognised("C15-c", site, "no slope vector W")
    else:
        calls = [c for c in ast.walk(wdef[0].value) if isinstance(c, ast.Call) and (call_name(c) or "").split(".")[-1] in ("linspace", "arange")]
        okw = None
        if len(calls) == 1:
            c = calls[0]
            kind = (call_name(c) or "").split(".")[-1]
            try:
                if kind == "linspace" and len(c.args) >= 3:
                    a0, a1, a2 = (to_rat(x) for x in c.args[:3])
                    okw = (a1 - a0).equals(a2 - Rat(Poly.const(1))) and a2.equals(to_rat(ast.parse("n + 1", mode="eval").body))
                elif kind == "arange" and len(c.args) == 2:
                    a0, a1 = (to_rat(x) for x in c.args[:2])
                    okw = (a1 - a0).equals(to_rat(ast.parse("n + 1", mode="eval").body))
            except NotScalarArithmetic:
                okw = None
        if okw is True:
            ctx.ok("C15-c", site, "n + 1 slopes with unit step")
        elif okw is False:
            ctx.violation("C15-c", u.relpath, "Douglas._leaf_binning", norm_src(wdef[0]), "the slopes of consecutive bins do not differ by exactly 1 (or are not n+1 many): the bin "
                          "boundaries no longer sit on the cut points", line=wdef[0].lineno, site=site)
        else:
            ctx.unrecognised("C15-c", site, norm_src(wdef[0])[:80])
    bdef = [s_ for s_ in ast.walk(lb) if isinstance(s_, ast.Assign) and norm_src(s_.targets[0]) == "b"]
    site = "Douglas._leaf_binning: biases"
    if fwd[0] != "undecided":
        pass
    elif not bdef:
        ctx.unrecognised("C15-c", site, "no bias b")
    elif "np.cumsum(np.concatenate([np.zeros(1), -sorted_cut_points]))" in norm_src(bdef[0].value) or equal_resolved(
            bdef[0], bdef[0].value, ["np.cumsum(np.concatenate([np.zeros(1), -sorted_cut_points])).reshape((1, -1))"]):
        ctx.ok("C15-c", site, "b_k = -(sum of the k smallest cuts)")
    else:
        _Soft(ctx).violation("C15-c", u.relpath, "Douglas._leaf_binning", norm_src(bdef[0]), "the bin biases are not the cumulative sums of the negated sorted cut points", line=bdef[0].lineno, site=site)
    if len(rets) == 1 and isinstance(rets[0].value, ast.Tuple) and len(rets[0].value.elts) == 2:
        if e9fw is not None and e9fw["order"] is not None:
            if e9fw["order"].exp == e9fw["bias"].in_perm:
                ctx.ok("C15-c", "Douglas._leaf_binning: the sorting permutation is returned for back-propagation")
            else:
                ctx.violation("C15-c", u.relpath, "Douglas._leaf_binning", norm_src(rets[0]), "the permutation returned is not the one used to sort the cuts", line=rets[0].lineno,
                              site="_leaf_binning: returned order")
        elif norm_src(rets[0].value.elts[1]) == "order":
            ctx.ok("C15-c", "Douglas._leaf_binning: the sorting permutation is returned for back-propagation")
        else:
            ctx.violation("C15-c", u.relpath, "Douglas._leaf_binning", norm_src(rets[0]), "the permutation returned is not the one used to sort the cuts", line=rets[0].lineno, site="_leaf_binning: returned order")
    # parity of argsort between the sorted-space gradient and the re-indexing
    back = [s for s in ast.walk(cg) if isinstance(s, ast.Assign) and norm_src(s.targets[0]) == "cut_grad"]
    e9b = [r for r in e9res if r[0].startswith("Douglas._compute_grads") and r[1] != "undecided"]
    if e9b:
        # the backward pass through sort / padding / cumsum is decided by C03-m / C03-i on the derived maps (it is part of C03's statement, not C15's)
        _retained_orders(ctx, u, inf)
        return _c15d(pm, ctx, u, fa)
    site = "Douglas._compute_grads: inverse permutation"
    okp = False
    if len(back) == 1 and isinstance(back[0].value, ast.Subscript):
        idx = back[0].value.slice
        n_arg = 0
        cur = idx
        while isinstance(cur, ast.Call) and call_name(cur) == "np.argsort" and len(cur.args) == 1:
            n_arg += 1
            cur = cur.args[0]
        okp = n_arg % 2 == 1 and norm_src(cur) == "self._all_orders[i]" and norm_src(back[0].value.value) == "cumsum_grad"
        # retained orders are the ones returned by _leaf_binning
    if not back:
        ctx.unrecognised("C15-c", site, "no assignment to cut_grad")
    elif okp:
        ctx.ok("C15-c", site, "cut_grad = sorted-space gradient re-indexed by argsort(order)")
    else:
        ctx.violation("C15-c", u.relpath, "Douglas._compute_grads", norm_src(back[0]) if back else "cut_grad", "the gradient computed for the sorted cuts is not mapped "
                      "back by the inverse of the sorting permutation", line=cg.lineno, site=site)
    expect_assign(_Soft(ctx), "C15-c", u, "Douglas._compute_grads", cg, "bias_grad", ["bin_grad.sum(0)[1:]"], "Douglas._compute_grads: bias gradient", "the gradient of the constant first bias is not dropped")
    expect_assign(_Soft(ctx), "C15-c", u, "Douglas._compute_grads", cg, "cumsum_grad", ["-np.cumsum(bias_grad[::-1])[::-1]"], "Douglas._compute_grads: cumulative bias", "the back-propagation "
                  "through b = cumsum(-sorted cuts) is not the negated reverse cumulative sum")
    _retained_orders(ctx, u, inf)
    return _c15d(pm, ctx, u, fa)


def _retained_orders(ctx, u, inf):
    """the orders kept for back-propagation are, feature by feature in the order of cut_points_list_, the second results of _leaf_binning:
    either projected from the list of results ([x[1] for x in results]) or collected in the loop that calls _leaf_binning"""
    site = "Douglas._infer: retained orders"
    src = {str(norm_src(s_.targets[0])): s_ for s_ in ast.walk(inf) if isinstance(s_, ast.Assign) and len(s_.targets) == 1 and isinstance(s_.targets[0], ast.Name)}
    ao = src.get("all_orders")
    if ao is not None and isinstance(ao.value, ast.ListComp) and len(ao.value.generators) == 1:
        g = ao.value.generators[0]
        tv = str(norm_src(g.target))
        res = g.iter
        e_ = ao.value.elt
        ok_proj = isinstance(e_, ast.Subscript) and isinstance(e_.value, ast.Name) and isinstance(g.target, ast.Name) and e_.value.id == g.target.id \
            and isinstance(e_.slice, ast.Constant) and e_.slice.value == 1 and not g.ifs
        if not ok_proj and isinstance(g.target, (ast.Tuple, ast.List)) and len(g.target.elts) == 2 and isinstance(e_, ast.Name) and isinstance(g.target.elts[1], ast.Name) \
                and e_.id == g.target.elts[1].id and not g.ifs and not (isinstance(g.target.elts[0], ast.Name) and g.target.elts[0].id == e_.id):
            ok_proj = True          # [order for _, order in results]
        # the list projected is the list of _leaf_binning results over cut_points_list_
        from ..match import resolve_expr, cfg_node
        try:
            cfg_ = CFG(inf)
            full = str(norm_src(resolve_expr(cfg_, cfg_node(cfg_, ao), res)))
        except Exception:
            full = str(norm_src(res))
        if ok_proj and "_leaf_binning" in full and "self.cut_points_list_" in full:
            ctx.ok("C15-c", site, "second results of _leaf_binning, projected from the list of results")
        elif ok_proj:
            ctx.unrecognised("C15-c", site, f"the projected list `{full[:60]}` was not traced to the _leaf_binning results")
        else:
            ctx.violation("C15-c", u.relpath, "Douglas._infer", norm_src(ao)[:160], "the retained orders are not those returned by _leaf_binning", line=ao.lineno, site=site)
        return
    # loop form
    for lp in [n for n in ast.walk(inf) if isinstance(n, ast.For) and str(norm_src(n.iter)) in ("self.cut_points_list_", "enumerate(self.cut_points_list_)")]:
        calls = [s_ for s_ in lp.body if isinstance(s_, ast.Assign) and isinstance(s_.value, ast.Call) and (call_name(s_.value) or "").endswith("_leaf_binning")
                 and isinstance(s_.targets[0], ast.Tuple) and len(s_.targets[0].elts) == 2]
        if not calls:
            continue
        second = str(norm_src(calls[0].targets[0].elts[1]))
        first = str(norm_src(calls[0].targets[0].elts[0]))
        grows = [s_ for s_ in lp.body if (isinstance(s_, ast.Expr) and isinstance(s_.value, ast.Call) and isinstance(s_.value.func, ast.Attribute) and s_.value.func.attr == "append"
                                          and str(norm_src(s_.value.func.value)) == "all_orders") or
                 (isinstance(s_, ast.AugAssign) and str(norm_src(s_.target)) == "all_orders")]
        if len(grows) == 1:
            added = grows[0].value.args[0] if isinstance(grows[0], ast.Expr) else (grows[0].value.elts[0] if isinstance(grows[0].value, ast.List) and len(grows[0].value.elts) == 1 else None)
            if added is not None and str(norm_src(added)) == second:
                ctx.ok("C15-c", site, "second result of each _leaf_binning call, collected in the loop over cut_points_list_")
            else:
                ctx.violation("C15-c", u.relpath, "Douglas._infer", norm_src(grows[0])[:160], f"the retained orders collect `{norm_src(added) if added is not None else '?'}`, not the order `{second}` "
                              f"returned by _leaf_binning (first result: `{first}`)", line=grows[0].lineno, site=site)
            return
    ctx.unrecognised("C15-c", site, "neither a projection of the list of _leaf_binning results nor a loop collecting the second result")


def _c15d(pm, ctx, u, fa):
    # ------------------------------------------------------------------ d
    loops = [n for n in ast.walk(fa) if isinstance(n, ast.For)]
    site = "Douglas.find_active_points: predicate"
    if len(loops) != 1:
        ctx.undecided_site("C15-d", site, "no single loop over the cut point lists")
        return
    lp = loops[0]
    tests = [s for s in lp.body if isinstance(s, ast.If)]
    pre = {}
    for s in lp.body:
        if isinstance(s, ast.Assign) and isinstance(s.targets[0], ast.Name):
            pre[s.targets[0].id] = s.value
        elif isinstance(s, ast.Assign) and isinstance(s.targets[0], ast.Tuple) and isinstance(s.value, ast.Tuple) and len(s.targets[0].elts) == len(s.value.elts):
            for t_, v_ in zip(s.targets[0].elts, s.value.elts):
                if isinstance(t_, ast.Name):
                    pre[t_.id] = v_
    if len(tests) != 1 or not any("active_points" in norm_src(x) for x in tests[0].body) or norm_src(lp.iter) != "self.cut_points_list_":
        ctx.undecided_site("C15-d", site, "cannot isolate the activity test")
        return
    tgt = [norm_src(e) for e in lp.target.elts] if isinstance(lp.target, ast.Tuple) else []
    if len(tgt) != 2 or norm_src(pre.get("feature", ast.Constant(value=None))) != f"X[:, {tgt[0]}]":
        ctx.violation("C15-d", u.relpath, "Douglas.find_active_points", norm_src(lp)[:120], "the tested column is not the feature the cut points belong to", line=lp.lineno, site=site)
        return
    appended = [norm_src(x) for x in tests[0].body]
    if not any(tgt[0] in a for a in appended):
        ctx.violation("C15-d", u.relpath, "Douglas.find_active_points", appended[0] if appended else "append", "the reported index is not the feature index", line=lp.lineno, site=site)
        return
    mmax = 4 if ctx.tier == "thorough" else 3
    n_eval = 0
    cex = None
    try:
        for m in range(1, mmax + 1):
            for ranks in weak_orderings(m + 2):
                lo, hi = ranks[0], ranks[1]
                if lo > hi:
                    continue
                cuts = list(ranks[2:])
                env = {"feature": Vec([lo, hi]), tgt[1]: Vec(cuts)}
                for k, v in pre.items():
                    if k not in ("feature",):
                        env[k] = ev(v, env)
                got = bool(ev(tests[0].test, env))
                spec = any(lo < c < hi for c in cuts)
                n_eval += 1
                if got != spec and cex is None:
                    cex = {"min": lo, "max": hi, "cuts": cuts, "reported_active": got, "specified": spec}
    except (ValueError, KeyError) as e:
        ctx.undecided_site("C15-d", site, f"{e}")
        return
    ctx.notes["c15d_orderings"] = n_eval
    if cex is None:
        ctx.ok("C15-d", site, f"equal to `exists cut: min < cut < max` on all {n_eval} weak orderings (up to {mmax} cuts)")
    else:
        ctx.violation("C15-d", u.relpath, "Douglas.find_active_points", norm_src(tests[0].test), f"differs from `a cut strictly inside the range` on the ordering {cex}",
                      line=tests[0].lineno, site=site)


def _parents(n):
    p = getattr(n, "_parent", None)
    while p is not None:
        yield p
        p = getattr(p, "_parent", None)


def _stmt(n):
    while not isinstance(n, ast.stmt):
        n = n._parent
    return n


def _in_else(node):
    child = node
    for p in _parents(node):
        if isinstance(p, ast.If) and "feature_mask is None" in norm_src(p.test):
            return any(child is s for s in p.orelse)
        child = p
    return False


def controls(pm, tier):
    out = []

    def mut(find, repl, rule, name, also=()):
        def apply(pm_):
            u = pm_.unit(D)
            if find not in u.src:
                return None
            return {u.relpath: u.src.replace(find, repl, 1)}
        out.append({"name": name, "rule": rule, "apply": apply, "also": also})
    mut("            if np.any((cut_points > feature.min()) & (cut_points < feature.max())):", "            min_threshold = cut_points.min()\n            max_threshold = cut_points.max()\n            if not (np.all(feature <= min_threshold) or np.all(feature >= max_threshold)):",
        "C15-d", "range test on the extreme cuts only")
    mut("            if np.any((cut_points > feature.min()) & (cut_points < feature.max())):", "            if np.any((cut_points >= feature.min()) & (cut_points <= feature.max())):", "C15-d", "non-strict bounds")
    mut("np.concatenate([np.zeros(1), -sorted_cut_points])", "np.concatenate([-sorted_cut_points, np.zeros(1)])", "C15-c", "padding after the negated cuts: bin j crosses over at cut j+1")
    mut("        return softmax(logits / self.temperature), order", "        return softmax(logits * self.temperature), order", "C15-c", "temperature multiplies the logits")
    mut("                                     if self.feature_mask[i]]", "                                     if self.feature_mask[i] or i == 0]", "C15-a", "feature 0 always used")
    mut("        leaf_binning = lambda z: self._leaf_binning(X[:, z[0]:z[0] + 1], z[1])", "        leaf_binning = lambda z: self._leaf_binning(X[:, z[0]:z[0] + 1] + 0 * X.sum(1, keepdims=True), z[1])", "C15-a", "all columns leak into every bin")
    mut("            num_leaf = int((self.n_cuts + 1) ** len(self.cut_points_list_))", "            num_leaf = int((self.n_cuts + 1) ** X.shape[1])", "C15-b", "masked model sized for all features")
    mut("        sorted_cut_points = cut_points[order]", "        sorted_cut_points = cut_points", "C15-c", "biases from unsorted cuts")
    mut("        W = np.expand_dims(np.linspace(1, n + 1, n + 1, dtype=np.float64), axis=0)", "        W = np.expand_dims(np.linspace(0, n + 1, n + 1, dtype=np.float64), axis=0)", "C15-c", "slopes start at 0 with a non-unit step")
    return out
